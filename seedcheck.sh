#!/bin/bash
# seedcheck.sh <patch.diff> <name>: confirm a seeded change in a fresh scratch worktree
# (compiles, the repository's own tests: same failing set as the unchanged tree, the 133
# baseline tests pass).  Leaves the worktree at /tmp/ws/<name> for the demo; remove with
#   git -C /repo worktree remove --force /tmp/ws/<name>
cd "$(dirname "$0")"; . ./env.sh
P=$(realpath "$1"); N=$2; W=/tmp/ws/$N
mkdir -p /tmp/ws
git -C /repo worktree remove --force "$W" 2>/dev/null
git -C /repo worktree add -q --detach "$W" HEAD || exit 3
(cd "$W/xpath/grammars/leafref" && /verif/bin/goyacc -o leafref.go -p leafref leafref.y >/dev/null 2>&1; rm -f y.output)
fails() { (cd "$W" && go test -json -vet=off -count=1 -timeout 25m ./... 2>/dev/null) | python3 -c '
import json,sys
f=set();p=set()
for l in sys.stdin:
    try:e=json.loads(l)
    except: continue
    if e.get("Test"):
        k=e["Package"]+"::"+e["Test"]
        if e.get("Action")=="fail": f.add(k)
        if e.get("Action")=="pass": p.add(k)
    elif e.get("Action")=="fail": f.add(e["Package"]+"::<package>")
base=json.load(open("/root/.vp/BASELINE.json"))["stable_pass"]
miss=[t for t in base if t not in p]
for t in sorted(f): print("FAIL",t)
for t in miss: print("BASELINE-MISSING",t)
print("PASSED",len(p),file=sys.stderr)
'; }
HEADID=$(git -C /repo rev-parse HEAD)
if [ ! -s /tmp/ws/before.$HEADID.txt ]; then fails > /tmp/ws/before.$HEADID.txt; fi
(cd "$W" && git apply "$P") || { echo "PATCH DOES NOT APPLY"; exit 3; }
(cd "$W" && go build ./...; echo "build rc=$?")
fails > /tmp/ws/after.$N.txt
if diff /tmp/ws/before.$HEADID.txt /tmp/ws/after.$N.txt; then echo "TESTS: same failing set ($(wc -l < /tmp/ws/after.$N.txt) pre-existing failures), baseline ok"; else echo "TESTS: DIFFER"; fi
