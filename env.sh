# sourced by run and setup.sh
export GOFLAGS=-mod=mod GOPROXY=off GOSUMDB=off GOTOOLCHAIN=local GONOSUMDB='*' GONOSUMCHECK=1
VERIF_GOROOT=/root/go/pkg/mod/golang.org/toolchain@v0.0.1-go1.23.11.linux-amd64
if [ -x "$VERIF_GOROOT/bin/go" ]; then
  export PATH="$VERIF_GOROOT/bin:$PATH"
else
  # fall back to the default go with automatic toolchain switching
  export GOTOOLCHAIN=auto
  unset GOSUMDB
fi
export VERIF_DIR=${VERIF_DIR:-$(cd "$(dirname "${BASH_SOURCE[0]}")" && pwd)}
export REPO=${REPO:-/repo}
