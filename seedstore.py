#!/usr/bin/env python3
"""seedstore.py <seed-id> <property> <mutation-dir> <files> <breaks> <needs> <demo-cmd> <result>...  : keep a confirmed seeded change under seeded/<seed-id>/"""
import sys, os, json, shutil, glob
sid, prop, src, files, breaks, needs, demo = sys.argv[1:8]
results = sys.argv[8:]
d = os.path.join(os.path.dirname(os.path.abspath(__file__)), 'seeded', sid)
os.makedirs(d, exist_ok=True)
for f in ['patch.diff', 'demo_test.go', 'NOTES.md']:
    if os.path.exists(os.path.join(src, f)): shutil.copy(os.path.join(src, f), d)
if os.path.isdir(os.path.join(src, 'demo')):
    shutil.copytree(os.path.join(src, 'demo'), os.path.join(d, 'demo'), dirs_exist_ok=True)
# Go files under /verif/seeded must not be picked up by any module: rename
for root, _, fs in os.walk(d):
    for f in fs:
        if f.endswith('.go'):
            os.rename(os.path.join(root, f), os.path.join(root, f + '.txt'))
meta = {
    "id": sid, "property": prop, "origin": "sub-agent working from the property text only, in its own scratch worktree",
    "files": files, "breaks": breaks, "needs": needs,
    "confirmed": {
        "where": "fresh scratch worktree of /repo HEAD under /tmp/ws (removed afterwards)",
        "build": "go build ./... : ok",
        "tests": "./seedcheck.sh : set of failing tests identical to the unchanged tree; all 133 baseline tests pass",
        "demo": demo + " : FAILS with the change, passes without (Go files are stored with a .txt suffix)",
    },
    "checks": results,
}
json.dump(meta, open(os.path.join(d, 'meta.json'), 'w'), indent=1)
print("stored", d)
