// Package verifrt is injected into the module under test as an overlay-only
// virtual package (github.com/sdcio/yang-parser/verifrt).  It is never part of
// /repo.  All hooks are no-ops unless a harness activates them.
//
//   - Tick / SetHorizon: step counting, the termination oracle
//   - RangeMap / SetChooser: owned map-iteration order (engine E2)
//   - Sched, Go, Send, Recv, Close, RangeChan, P + package vsync: the
//     cooperative scheduler (engine E3) with vector-clock race detection.
package verifrt

import (
	"fmt"
	"iter"
	"reflect"
	"runtime"
	"sort"
	"strings"
	"sync"
)

// ---------------------------------------------------------------- ticks

// HorizonMarker is contained in the text of every HorizonError.
const HorizonMarker = "VERIF-HORIZON-EXCEEDED"

type HorizonError struct{ Limit int64 }

func (h *HorizonError) Error() string {
	return fmt.Sprintf("%s (%d steps)", HorizonMarker, h.Limit)
}

var (
	ticking bool
	ticks   int64
	horizon int64
	// HorizonHit is set when the horizon was exceeded since the last SetHorizon.
	HorizonHit bool
)

// SetHorizon starts counting steps; n <= 0 stops counting.
func SetHorizon(n int64) {
	ticks = 0
	horizon = n
	HorizonHit = false
	ticking = n > 0
}

func Ticks() int64 { return ticks }

func Tick() {
	if ticking {
		tickSlow()
	}
}

// TickYield makes every tick a scheduling point of the controlled execution
// (instruction-level interleaving of code that has no other visible operation).
var TickYield bool

func tickSlow() {
	if TickYield {
		if s := sched; s != nil && !s.aborting {
			s.point(Op{Kind: OpYield})
		}
	}
	ticks++
	if ticks > horizon {
		HorizonHit = true
		// keep panicking on every later tick as well: code that recovers and
		// loops on must not be able to continue for ever.
		panic(&HorizonError{Limit: horizon})
	}
}

// ---------------------------------------------------------------- map order

// Chooser decides, for the k-th dynamic map range of an execution, which of the
// nAlt(n) orders of the n keys to use.  Choice 0 is canonical (sorted) order.
type Chooser func(site int, n int, nalt int) int

var chooser Chooser

func SetChooser(c Chooser) { chooser = c }

// NAlt is the number of alternative orders explored for n keys: all n!
// permutations for n <= 3, otherwise identity, reversal and the n-1 non-trivial
// rotations ("each key first").
func NAlt(n int) int {
	switch {
	case n <= 1:
		return 1
	case n == 2:
		return 2
	case n == 3:
		return 6
	}
	return n + 1
}

var perm3 = [6][3]int{{0, 1, 2}, {0, 2, 1}, {1, 0, 2}, {1, 2, 0}, {2, 0, 1}, {2, 1, 0}}

func permute(n, alt int) []int {
	idx := make([]int, n)
	for i := range idx {
		idx[i] = i
	}
	switch {
	case alt == 0 || n <= 1:
	case n == 2:
		idx[0], idx[1] = 1, 0
	case n == 3:
		copy(idx, perm3[alt][:])
	case alt == 1:
		for i := range idx {
			idx[i] = n - 1 - i
		}
	default:
		r := alt - 1 // rotation by r, 1..n-1
		for i := range idx {
			idx[i] = (i + r) % n
		}
	}
	return idx
}

func keyString(v reflect.Value) (string, bool) {
	switch v.Kind() {
	case reflect.String:
		return v.String(), true
	case reflect.Int, reflect.Int8, reflect.Int16, reflect.Int32, reflect.Int64:
		return fmt.Sprintf("%020d", v.Int()+(1<<62)), true
	case reflect.Uint, reflect.Uint8, reflect.Uint16, reflect.Uint32, reflect.Uint64:
		return fmt.Sprintf("%020d", v.Uint()), true
	case reflect.Bool:
		if v.Bool() {
			return "1", true
		}
		return "0", true
	case reflect.Struct:
		var b strings.Builder
		for i := 0; i < v.NumField(); i++ {
			s, ok := keyString(v.Field(i))
			if !ok {
				return "", false
			}
			b.WriteString(s)
			b.WriteByte(0)
		}
		return b.String(), true
	case reflect.Interface:
		if v.IsNil() {
			return "", true
		}
		return keyString(v.Elem())
	}
	return "", false
}

// UnorderedSites records range sites whose key type has no canonical order
// (pointers, channels); their base order is Go's own and replay of such an
// execution is not reproducible.  Harnesses report them.
var UnorderedSites = map[int]bool{}

// RangeMap replaces "range m" for map-typed m.
func RangeMap[M ~map[K]V, K comparable, V any](site int, m M) iter.Seq2[K, V] {
	return func(yield func(K, V) bool) {
		if chooser == nil {
			for k, v := range m {
				if !yield(k, v) {
					return
				}
			}
			return
		}
		n := len(m)
		keys := make([]K, 0, n)
		for k := range m {
			keys = append(keys, k)
		}
		if n > 1 {
			strs := make([]string, n)
			ok := true
			for i, k := range keys {
				strs[i], ok = keyString(reflect.ValueOf(&k).Elem())
				if !ok {
					break
				}
			}
			if ok {
				sort.Sort(&keySorter[K]{keys, strs})
			} else {
				UnorderedSites[site] = true
			}
		}
		alt := chooser(site, n, NAlt(n))
		for _, i := range permute(n, alt) {
			k := keys[i]
			v, present := m[k]
			if !present {
				continue
			}
			if !yield(k, v) {
				return
			}
		}
	}
}

type keySorter[K any] struct {
	keys []K
	strs []string
}

func (s *keySorter[K]) Len() int           { return len(s.keys) }
func (s *keySorter[K]) Less(i, j int) bool { return s.strs[i] < s.strs[j] }
func (s *keySorter[K]) Swap(i, j int) {
	s.keys[i], s.keys[j] = s.keys[j], s.keys[i]
	s.strs[i], s.strs[j] = s.strs[j], s.strs[i]
}

// ---------------------------------------------------------------- scheduler

// OpKind of a visible operation.
type OpKind int

const (
	OpStart OpKind = iota
	OpLock
	OpUnlock
	OpRLock
	OpRUnlock
	OpSend
	OpRecv
	OpClose
	OpRead
	OpWrite
	OpSpawn
	OpOnce
	OpWGAdd
	OpWGWait
	OpYield
	OpSelect
	OpSelectCase // choice among the ready cases of a select (not a thread switch)
)

var opNames = [...]string{"start", "lock", "unlock", "rlock", "runlock", "send", "recv", "close", "read", "write", "spawn", "once", "wgadd", "wgwait", "yield", "select", "select-case"}

func (k OpKind) String() string { return opNames[k] }

type Op struct {
	Kind OpKind
	Obj  string // object identity: "mu#1", "ch#2", "var:xpath.pluginsLoaded"
}

type vclock []int

func (a vclock) join(b vclock) vclock {
	for len(a) < len(b) {
		a = append(a, 0)
	}
	for i, x := range b {
		if x > a[i] {
			a[i] = x
		}
	}
	return a
}
func (a vclock) clone() vclock { return append(vclock(nil), a...) }
func (a vclock) get(i int) int {
	if i < len(a) {
		return a[i]
	}
	return 0
}

type thread struct {
	id      int
	wake    chan bool // true = run, false = abort
	op      Op
	done    bool
	started bool
	steps   int
	vc      vclock
	// channel rendezvous
	recvVal  any
	recvOK   bool
	recvDone bool // a sender (or close) completed this thread's pending recv
	sendVal  any
	sendDone bool
	// pending select
	selCases   []selCase
	selDefault bool
	selDone    bool // a partner thread completed one of the cases
	selIdx     int
	diverged   bool
	panicked   any
	stack      string
}

type mutexState struct {
	name    string
	holder  int // -1 free, else thread id (writer)
	readers int
	vc      vclock
}

type chanState struct {
	name   string
	cap    int
	buf    []any
	bufVC  []vclock
	closed bool
	vc     vclock
}

type access struct {
	tid   int
	clock int
	write bool
}

type varState struct {
	lastWrite *access
	reads     []access
}

// Race describes two unordered conflicting accesses.
type Race struct {
	Var    string
	A, B   string // "T1 write", "T2 read"
	Detail string
}

// Point is one scheduling decision of an execution.
type Point struct {
	Enabled        []int // thread ids in canonical order (running thread first if enabled)
	Chosen         int   // index into Enabled
	Running        int   // id of the thread that ran before this point, -1 at start
	RunningEnabled bool
	Op             Op // op of the chosen thread
}

// Sched is one controlled execution.
type Sched struct {
	threads   []*thread
	cur       *thread
	ctl       chan struct{}
	choices   []int // prefix to replay
	Points    []Point
	mutexes   map[any]*mutexState
	chans     map[any]*chanState
	vars      map[string]*varState
	Races     []Race
	raceSeen  map[string]bool
	aborting  bool
	Deadlock  bool
	Blocked   []string // descriptions of threads blocked for ever at the end
	Diverged  []int
	Panics    []string
	StepCap   int
	Livelock  bool
	BadReplay string
	nobj      int
	onceDone  map[any]*onceState
	wgs       map[any]*wgState
}

type onceState struct {
	done bool
	vc   vclock
}
type wgState struct {
	name string
	n    int
	vc   vclock
}

var sched *Sched

// Active reports whether a controlled execution is in progress.
func Active() bool { return sched != nil }

// RunControlled runs body as thread 0 under the scheduler, replaying choices
// (indices into the canonical enabled list) and choosing 0 afterwards.
func RunControlled(choices []int, stepCap int, body func()) *Sched {
	s := &Sched{
		ctl:      make(chan struct{}),
		choices:  choices,
		mutexes:  map[any]*mutexState{},
		chans:    map[any]*chanState{},
		vars:     map[string]*varState{},
		raceSeen: map[string]bool{},
		onceDone: map[any]*onceState{},
		wgs:      map[any]*wgState{},
		StepCap:  stepCap,
	}
	if stepCap <= 0 {
		s.StepCap = 100000
	}
	sched = s
	defer func() { sched = nil }()
	s.spawn(nil, body)
	s.loop()
	return s
}

func (s *Sched) newName(prefix string) string {
	s.nobj++
	return fmt.Sprintf("%s#%d", prefix, s.nobj)
}

func (s *Sched) spawn(parent *thread, body func()) *thread {
	t := &thread{id: len(s.threads), wake: make(chan bool), op: Op{Kind: OpStart}}
	if parent != nil {
		t.vc = parent.vc.clone()
	}
	for len(t.vc) <= t.id {
		t.vc = append(t.vc, 0)
	}
	t.vc[t.id] = 1
	s.threads = append(s.threads, t)
	go func() {
		run := <-t.wake
		defer func() {
			if r := recover(); r != nil {
				if he, ok := r.(*HorizonError); ok {
					_ = he
					t.diverged = true
				} else if !s.aborting {
					t.panicked = r
					buf := make([]byte, 4096)
					t.stack = string(buf[:runtime.Stack(buf, false)])
				}
			}
			t.done = true
			s.ctl <- struct{}{}
		}()
		if !run {
			return
		}
		t.started = true
		body()
	}()
	return t
}

func (s *Sched) enabled(t *thread) bool {
	if t.done {
		return false
	}
	switch t.op.Kind {
	case OpLock:
		m := s.mutexByName(t.op.Obj)
		return m.holder < 0 && m.readers == 0
	case OpRLock:
		m := s.mutexByName(t.op.Obj)
		return m.holder < 0
	case OpSend:
		if t.sendDone {
			return true
		}
		c := s.chanByName(t.op.Obj)
		if c.closed {
			return true // will panic, as Go does
		}
		if len(c.buf) < c.cap {
			return true
		}
		// rendezvous: need a receiver waiting on this channel
		return s.waitingReceiver(t, c) != nil
	case OpRecv:
		if t.recvDone {
			return true
		}
		c := s.chanByName(t.op.Obj)
		return len(c.buf) > 0 || c.closed
	case OpSelect:
		return t.selDone || t.selDefault || len(s.readyCases(t)) > 0
	case OpWGWait:
		for _, w := range s.wgs {
			if w.name == t.op.Obj {
				return w.n <= 0
			}
		}
		return true
	}
	return true
}

func (s *Sched) mutexByName(name string) *mutexState {
	for _, m := range s.mutexes {
		if m.name == name {
			return m
		}
	}
	panic("verifrt: unknown mutex " + name)
}
func (s *Sched) chanByName(name string) *chanState {
	for _, c := range s.chans {
		if c.name == name {
			return c
		}
	}
	panic("verifrt: unknown chan " + name)
}

// loop is the scheduler proper; runs on the caller's goroutine.
func (s *Sched) loop() {
	running := -1
	steps := 0
	for {
		var en []int
		runEn := false
		if running >= 0 && s.enabled(s.threads[running]) {
			en = append(en, running)
			runEn = true
		}
		for _, t := range s.threads {
			if t.id != running && s.enabled(t) {
				en = append(en, t.id)
			}
		}
		if len(en) == 0 {
			break
		}
		steps++
		if steps > s.StepCap {
			s.Livelock = true
			break
		}
		k := 0
		if len(s.Points) < len(s.choices) {
			k = s.choices[len(s.Points)]
			if k < 0 || k >= len(en) {
				s.BadReplay = fmt.Sprintf("point %d: choice %d out of range (%d enabled)", len(s.Points), k, len(en))
				break
			}
		}
		t := s.threads[en[k]]
		s.Points = append(s.Points, Point{Enabled: en, Chosen: k, Running: running, RunningEnabled: runEn, Op: t.op})
		s.cur = t
		t.steps++
		t.wake <- true
		<-s.ctl
		running = t.id
	}
	// end of execution: classify what is left, then release all goroutines
	for _, t := range s.threads {
		if !t.done {
			s.Blocked = append(s.Blocked, fmt.Sprintf("T%d blocked at %s %s", t.id, t.op.Kind, t.op.Obj))
		}
		if t.diverged {
			s.Diverged = append(s.Diverged, t.id)
		}
		if t.panicked != nil {
			s.Panics = append(s.Panics, fmt.Sprintf("T%d: %v\n%s", t.id, t.panicked, t.stack))
		}
	}
	if len(s.Blocked) > 0 && !s.threads[0].done {
		s.Deadlock = true
	}
	s.aborting = true
	for _, t := range s.threads {
		if !t.done {
			s.cur = t
			t.wake <- false
			<-s.ctl
		}
	}
}

// Thread0Done reports whether the harness body itself finished.
func (s *Sched) Thread0Done() bool {
	for _, b := range s.Blocked {
		if strings.HasPrefix(b, "T0 ") {
			return false
		}
	}
	return true
}

type abortSentinel struct{}

// point announces the next visible operation of the current thread and waits
// until the scheduler lets it perform it.
func (s *Sched) point(op Op) {
	t := s.cur
	if s.aborting {
		return
	}
	t.op = op
	s.ctl <- struct{}{}
	if run := <-t.wake; !run {
		// abort: unwind this goroutine; deferred user code runs with hooks off
		runtime.Goexit()
	}
	t.vc[t.id]++
}

// ---- hooks used by instrumented code

// Go replaces the go statement.
func Go(f func()) {
	s := sched
	if s == nil || s.aborting {
		go f()
		return
	}
	s.point(Op{Kind: OpSpawn})
	s.spawn(s.cur, f)
}

// Yield is an explicit scheduling point for harness code.
func Yield() {
	if s := sched; s != nil && !s.aborting {
		s.point(Op{Kind: OpYield})
	}
}

func (s *Sched) chanOf(ch any, capacity int) *chanState {
	key := reflect.ValueOf(ch).Pointer()
	c := s.chans[key]
	if c == nil {
		c = &chanState{name: s.newName("ch"), cap: capacity}
		s.chans[key] = c
	}
	return c
}

func Send[T any](ch chan<- T, v T) {
	s := sched
	if s == nil || s.aborting {
		ch <- v
		return
	}
	c := s.chanOf(ch, cap(ch))
	t := s.cur
	t.sendDone = false
	t.sendVal = v
	s.point(Op{Kind: OpSend, Obj: c.name})
	if t.sendDone { // a selecting receiver took the value
		t.sendDone = false
		return
	}
	s.doSend(t, c, v)
}

// waitingReceiver returns a thread blocked in a receive (plain or as a case of
// a select) on c that can take a value directly, or nil.
func (s *Sched) waitingReceiver(t *thread, c *chanState) *thread {
	if len(c.buf) != 0 {
		return nil
	}
	for _, o := range s.threads {
		if o == t || o.done {
			continue
		}
		if o.op.Kind == OpRecv && o.op.Obj == c.name && !o.recvDone {
			return o
		}
		if o.op.Kind == OpSelect && !o.selDone {
			for _, sc := range o.selCases {
				if !sc.send && sc.c == c {
					return o
				}
			}
		}
	}
	return nil
}

// waitingSender returns a thread blocked in a send (plain or select case) on c.
func (s *Sched) waitingSender(t *thread, c *chanState) (*thread, int) {
	for _, o := range s.threads {
		if o == t || o.done {
			continue
		}
		if o.op.Kind == OpSend && o.op.Obj == c.name && !o.sendDone {
			return o, -1
		}
		if o.op.Kind == OpSelect && !o.selDone {
			for j, sc := range o.selCases {
				if sc.send && sc.c == c {
					return o, j
				}
			}
		}
	}
	return nil, -1
}

func (s *Sched) doSend(t *thread, c *chanState, v any) {
	if c.closed {
		panic("send on closed channel")
	}
	if o := s.waitingReceiver(t, c); o != nil {
		o.recvVal, o.recvOK = v, true
		if o.op.Kind == OpRecv {
			o.recvDone = true
		} else {
			for j, sc := range o.selCases {
				if !sc.send && sc.c == c {
					o.selDone, o.selIdx = true, j
					break
				}
			}
		}
		o.vc = o.vc.join(t.vc)
		if c.cap == 0 {
			t.vc = t.vc.join(o.vc) // rendezvous synchronises both ways
		}
		return
	}
	if len(c.buf) < c.cap {
		c.buf = append(c.buf, v)
		c.bufVC = append(c.bufVC, t.vc.clone())
		return
	}
	panic("verifrt: send scheduled while not enabled")
}

// doRecv performs a receive that is known to be possible.
func (s *Sched) doRecv(t *thread, c *chanState) (any, bool) {
	if len(c.buf) > 0 {
		v := c.buf[0]
		t.vc = t.vc.join(c.bufVC[0])
		c.buf, c.bufVC = c.buf[1:], c.bufVC[1:]
		return v, true
	}
	if c.closed {
		t.vc = t.vc.join(c.vc)
		return nil, false
	}
	if o, j := s.waitingSender(t, c); o != nil {
		v := o.sendVal
		if j >= 0 {
			v = o.selCases[j].val
			o.selDone, o.selIdx = true, j
		} else {
			o.sendDone = true
		}
		t.vc = t.vc.join(o.vc)
		o.vc = o.vc.join(t.vc)
		return v, true
	}
	panic("verifrt: recv scheduled while not enabled")
}

// ---- select

type selCase struct {
	c    *chanState // nil: nil channel, never ready
	send bool
	val  any
}

// SelCase is one communication clause of a select statement.
type SelCase struct {
	ch   reflect.Value
	send bool
	val  any
}

func SendCase[T any](ch chan<- T, v T) SelCase {
	return SelCase{ch: reflect.ValueOf(ch), send: true, val: v}
}
func RecvCase[T any](ch <-chan T) SelCase { return SelCase{ch: reflect.ValueOf(ch)} }

// SelResult is what Select returns: I is the index of the chosen clause (in
// source order, not counting default; -1 = default).
type SelResult struct {
	I   int
	val any
	ok  bool
}

func RecvVal[T any](ch <-chan T, r SelResult) T {
	if r.val == nil {
		var zero T
		return zero
	}
	return r.val.(T)
}
func RecvVal2[T any](ch <-chan T, r SelResult) (T, bool) { return RecvVal(ch, r), r.ok }

func (s *Sched) readyCases(t *thread) []int {
	var ready []int
	for i, sc := range t.selCases {
		if sc.c == nil {
			continue
		}
		if sc.send {
			if sc.c.closed || len(sc.c.buf) < sc.c.cap || s.waitingReceiver(t, sc.c) != nil {
				ready = append(ready, i)
			}
		} else {
			o, _ := s.waitingSender(t, sc.c)
			if len(sc.c.buf) > 0 || sc.c.closed || o != nil {
				ready = append(ready, i)
			}
		}
	}
	return ready
}

// subChoice records a choice among n alternatives that is not a thread switch.
func (s *Sched) subChoice(t *thread, n int) int {
	k := 0
	if len(s.Points) < len(s.choices) {
		k = s.choices[len(s.Points)]
		if k < 0 || k >= n {
			if s.BadReplay == "" {
				s.BadReplay = fmt.Sprintf("point %d: select-case choice %d out of range (%d ready)", len(s.Points), k, n)
			}
			k = 0
		}
	}
	en := make([]int, n)
	for i := range en {
		en[i] = -1 - i
	}
	s.Points = append(s.Points, Point{Enabled: en, Chosen: k, Running: t.id, RunningEnabled: false, Op: Op{Kind: OpSelectCase}})
	return k
}

// Select replaces a select statement.
func Select(hasDefault bool, cases ...SelCase) SelResult {
	s := sched
	if s == nil || s.aborting {
		rc := make([]reflect.SelectCase, 0, len(cases)+1)
		for _, c := range cases {
			if c.send {
				rc = append(rc, reflect.SelectCase{Dir: reflect.SelectSend, Chan: c.ch, Send: reflect.ValueOf(c.val)})
			} else {
				rc = append(rc, reflect.SelectCase{Dir: reflect.SelectRecv, Chan: c.ch})
			}
		}
		if hasDefault {
			rc = append(rc, reflect.SelectCase{Dir: reflect.SelectDefault})
		}
		i, v, ok := reflect.Select(rc)
		if hasDefault && i == len(cases) {
			return SelResult{I: -1}
		}
		r := SelResult{I: i, ok: ok}
		if !cases[i].send && ok {
			r.val = v.Interface()
		}
		return r
	}
	t := s.cur
	t.selCases = t.selCases[:0]
	var names []string
	for _, c := range cases {
		sc := selCase{send: c.send, val: c.val}
		if !c.ch.IsNil() {
			sc.c = s.chanOf(c.ch.Interface(), c.ch.Cap())
			names = append(names, sc.c.name)
		}
		t.selCases = append(t.selCases, sc)
	}
	t.selDefault, t.selDone = hasDefault, false
	s.point(Op{Kind: OpSelect, Obj: strings.Join(names, ",")})
	if t.selDone { // a partner completed one of the cases
		t.selDone = false
		i := t.selIdx
		if t.selCases[i].send {
			return SelResult{I: i}
		}
		return SelResult{I: i, val: t.recvVal, ok: t.recvOK}
	}
	ready := s.readyCases(t)
	if len(ready) == 0 {
		if hasDefault {
			return SelResult{I: -1}
		}
		panic("verifrt: select scheduled while not enabled")
	}
	i := ready[0]
	if len(ready) > 1 {
		i = ready[s.subChoice(t, len(ready))]
	}
	sc := t.selCases[i]
	// mark this select as no longer pending before looking for partners
	t.selDone = true
	defer func() { t.selDone = false }()
	if sc.send {
		s.doSend(t, sc.c, sc.val)
		return SelResult{I: i}
	}
	v, ok := s.doRecv(t, sc.c)
	return SelResult{I: i, val: v, ok: ok}
}

func init() { _ = strings.Join }

func recvInternal[T any](ch <-chan T) (T, bool) {
	s := sched
	c := s.chanOf(ch, cap(ch))
	t := s.cur
	t.recvDone = false
	s.point(Op{Kind: OpRecv, Obj: c.name})
	var zero T
	if t.recvDone {
		t.recvDone = false
		if !t.recvOK {
			return zero, false
		}
		return t.recvVal.(T), true
	}
	if len(c.buf) > 0 {
		v := c.buf[0]
		t.vc = t.vc.join(c.bufVC[0])
		c.buf, c.bufVC = c.buf[1:], c.bufVC[1:]
		return v.(T), true
	}
	if c.closed {
		t.vc = t.vc.join(c.vc)
		return zero, false
	}
	panic("verifrt: recv scheduled while not enabled")
}

func Recv[T any](ch <-chan T) T {
	if s := sched; s == nil || s.aborting {
		return <-ch
	}
	v, _ := recvInternal(ch)
	return v
}

func Recv2[T any](ch <-chan T) (T, bool) {
	if s := sched; s == nil || s.aborting {
		v, ok := <-ch
		return v, ok
	}
	return recvInternal(ch)
}

func Close[T any](ch chan<- T) {
	s := sched
	if s == nil || s.aborting {
		close(ch)
		return
	}
	c := s.chanOf(ch, cap(ch))
	s.point(Op{Kind: OpClose, Obj: c.name})
	if c.closed {
		panic("close of closed channel")
	}
	c.closed = true
	c.vc = s.cur.vc.clone()
	for _, o := range s.threads {
		if !o.done && o.op.Kind == OpRecv && o.op.Obj == c.name && !o.recvDone && len(c.buf) == 0 {
			o.recvOK, o.recvDone = false, true
			o.vc = o.vc.join(c.vc)
		}
	}
}

func RangeChan[T any](ch <-chan T) iter.Seq[T] {
	return func(yield func(T) bool) {
		for {
			v, ok := Recv2(ch)
			if !ok || !yield(v) {
				return
			}
		}
	}
}

// P is placed around every use of a mutable package-level variable.
func P[T any](name string, p *T, write bool) *T {
	if s := sched; s != nil && !s.aborting {
		s.access(name, write)
	}
	return p
}

func (s *Sched) access(name string, write bool) {
	k := OpRead
	if write {
		k = OpWrite
	}
	s.point(Op{Kind: k, Obj: name})
	t := s.cur
	v := s.vars[name]
	if v == nil {
		v = &varState{}
		s.vars[name] = v
	}
	me := access{tid: t.id, clock: t.vc[t.id], write: write}
	report := func(o access) {
		a := fmt.Sprintf("%s", map[bool]string{true: "write", false: "read"}[o.write])
		b := fmt.Sprintf("%s", map[bool]string{true: "write", false: "read"}[write])
		key := name + "|" + a + "|" + b
		if s.raceSeen[key] {
			return
		}
		s.raceSeen[key] = true
		s.Races = append(s.Races, Race{Var: name, A: fmt.Sprintf("T%d %s", o.tid, a), B: fmt.Sprintf("T%d %s", t.id, b), Detail: a + "/" + b})
	}
	if w := v.lastWrite; w != nil && w.tid != t.id && t.vc.get(w.tid) < w.clock {
		report(*w)
	}
	if write {
		for _, r := range v.reads {
			if r.tid != t.id && t.vc.get(r.tid) < r.clock {
				report(r)
			}
		}
		v.lastWrite = &me
		v.reads = v.reads[:0]
	} else {
		// keep one read per thread
		for i := range v.reads {
			if v.reads[i].tid == t.id {
				v.reads[i] = me
				return
			}
		}
		v.reads = append(v.reads, me)
	}
}

// ---- primitives for the sync shim (package vsync)

func (s *Sched) mutexOf(key any) *mutexState {
	m := s.mutexes[key]
	if m == nil {
		m = &mutexState{name: s.newName("mu"), holder: -1}
		s.mutexes[key] = m
	}
	return m
}

// MutexLock returns false when no scheduler is active (caller uses the real lock).
func MutexLock(key any) bool {
	s := sched
	if s == nil || s.aborting {
		return false
	}
	m := s.mutexOf(key)
	s.point(Op{Kind: OpLock, Obj: m.name})
	m.holder = s.cur.id
	s.cur.vc = s.cur.vc.join(m.vc)
	return true
}

func MutexUnlock(key any) bool {
	s := sched
	if s == nil || s.aborting {
		return false
	}
	m := s.mutexOf(key)
	s.point(Op{Kind: OpUnlock, Obj: m.name})
	if m.holder < 0 {
		panic("sync: unlock of unlocked mutex")
	}
	m.holder = -1
	m.vc = m.vc.join(s.cur.vc)
	return true
}

func MutexRLock(key any) bool {
	s := sched
	if s == nil || s.aborting {
		return false
	}
	m := s.mutexOf(key)
	s.point(Op{Kind: OpRLock, Obj: m.name})
	m.readers++
	s.cur.vc = s.cur.vc.join(m.vc)
	return true
}

func MutexRUnlock(key any) bool {
	s := sched
	if s == nil || s.aborting {
		return false
	}
	m := s.mutexOf(key)
	s.point(Op{Kind: OpRUnlock, Obj: m.name})
	m.readers--
	m.vc = m.vc.join(s.cur.vc)
	return true
}

// OnceDo implements sync.Once under the scheduler: the check and the call are
// atomic with respect to other Do calls on the same Once, as sync.Once
// guarantees; the function body itself contains scheduling points.
func OnceDo(key any, f func()) bool {
	s := sched
	if s == nil || s.aborting {
		return false
	}
	o := s.onceDone[key]
	if o == nil {
		o = &onceState{}
		s.onceDone[key] = o
	}
	// model Once with an internal mutex so that concurrent callers block
	// until the first call has returned
	MutexLock(o)
	if !o.done {
		func() {
			defer func() { o.done = true }()
			f()
		}()
	}
	MutexUnlock(o)
	return true
}

func WGAdd(key any, n int) bool {
	s := sched
	if s == nil || s.aborting {
		return false
	}
	w := s.wgs[key]
	if w == nil {
		w = &wgState{name: s.newName("wg")}
		s.wgs[key] = w
	}
	s.point(Op{Kind: OpWGAdd, Obj: w.name})
	w.n += n
	if n < 0 {
		w.vc = w.vc.join(s.cur.vc)
	}
	return true
}

func WGWait(key any) bool {
	s := sched
	if s == nil || s.aborting {
		return false
	}
	w := s.wgs[key]
	if w == nil {
		w = &wgState{name: s.newName("wg")}
		s.wgs[key] = w
	}
	s.point(Op{Kind: OpWGWait, Obj: w.name})
	s.cur.vc = s.cur.vc.join(w.vc)
	return true
}

// ThreadSteps returns the number of visible operations each thread performed.
func (s *Sched) ThreadSteps() []int {
	out := make([]int, len(s.threads))
	for i, t := range s.threads {
		out[i] = t.steps
	}
	return out
}

// NThreads returns the number of threads created in the execution.
func (s *Sched) NThreads() int { return len(s.threads) }

// ---------------------------------------------------------------- global state

type saver struct {
	name string
	snap func() func()
}

var (
	savers   []saver
	restores []func()
)

// MakeSaver returns a function that snapshots *p (shallow; maps and slices are
// cloned one level deep) and returns the matching restore function.
func MakeSaver[T any](p *T) func() func() {
	return func() func() {
		v := cloneShallow(reflect.ValueOf(p).Elem())
		return func() {
			reflect.ValueOf(p).Elem().Set(cloneShallow(v))
		}
	}
}

func cloneShallow(v reflect.Value) reflect.Value {
	switch v.Kind() {
	case reflect.Map:
		if v.IsNil() {
			return v
		}
		m := reflect.MakeMapWithSize(v.Type(), v.Len())
		it := v.MapRange()
		for it.Next() {
			m.SetMapIndex(it.Key(), it.Value())
		}
		return m
	case reflect.Slice:
		if v.IsNil() {
			return v
		}
		s := reflect.MakeSlice(v.Type(), v.Len(), v.Len())
		reflect.Copy(s, v)
		return s
	}
	c := reflect.New(v.Type()).Elem()
	c.Set(v)
	return c
}

func RegisterVar(name string, snap func() func()) {
	savers = append(savers, saver{name, snap})
}

// StateVars lists the instrumented mutable package-level variables.
func StateVars() []string {
	var out []string
	for _, s := range savers {
		out = append(out, s.name)
	}
	sort.Strings(out)
	return out
}

// SnapshotAll records the current value of every registered variable.
func SnapshotAll() {
	restores = restores[:0]
	for _, s := range savers {
		restores = append(restores, s.snap())
	}
}

// RestoreAll puts every registered variable back to the snapshot.
func RestoreAll() {
	for _, r := range restores {
		r()
	}
}

// ---- lock bookkeeping outside the scheduler ----
//
// In free-running (uncontrolled) mode the vsync shim records every lock it
// has really taken, so that a sequential harness can assert the quiescence
// invariant "a call that has returned holds no lock" and can release a leaked
// lock before going on (otherwise the next call would block for ever and the
// finding would be reported as a hung worker instead of as a violation).

// Sequential mode: the harness promises that exactly one goroutine executes
// code under test.  A lock that cannot be taken at once can then never be
// taken (its holder is this goroutine or a call that has already returned), so
// the shim reports the self-deadlock by panicking with SelfDeadlock instead of
// blocking the process for ever.
var sequential bool

func SetSequential(on bool) { sequential = on }
func Sequential() bool      { return sequential }

// SelfDeadlock is the panic value used in sequential mode.
type SelfDeadlock struct{ What string }

func (d SelfDeadlock) Error() string {
	return "VERIF-SELF-DEADLOCK: " + d.What + ": the lock is still held by this goroutine or by a call that has returned; the call would block for ever"
}

type heldKey struct {
	obj  any
	read bool
}

var (
	heldMu    sync.Mutex
	heldLocks = map[heldKey][]func(){}
)

// NoteHeld records that the lock obj (read or write side) was taken; unlock releases it.
func NoteHeld(obj any, read bool, unlock func()) {
	heldMu.Lock()
	k := heldKey{obj, read}
	heldLocks[k] = append(heldLocks[k], unlock)
	heldMu.Unlock()
}

// NoteReleased records that the lock was given back.
func NoteReleased(obj any, read bool) {
	heldMu.Lock()
	k := heldKey{obj, read}
	if l := heldLocks[k]; len(l) > 1 {
		heldLocks[k] = l[:len(l)-1]
	} else {
		delete(heldLocks, k)
	}
	heldMu.Unlock()
}

// LeakedLocks returns how many recorded locks are currently held.
func LeakedLocks() int {
	heldMu.Lock()
	defer heldMu.Unlock()
	n := 0
	for _, l := range heldLocks {
		n += len(l)
	}
	return n
}

// ReleaseLeaked gives every recorded lock back and returns how many there were.
func ReleaseLeaked() int {
	heldMu.Lock()
	var fs []func()
	for k, l := range heldLocks {
		fs = append(fs, l...)
		delete(heldLocks, k)
	}
	heldMu.Unlock()
	for _, f := range fs {
		f()
	}
	return len(fs)
}
