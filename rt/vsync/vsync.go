// Package vsync replaces "sync" in instrumented packages (overlay only).
package vsync

import (
	"sync"

	rt "github.com/sdcio/yang-parser/verifrt"
)

type Locker = sync.Locker
type Pool = sync.Pool
type Map = sync.Map
type Cond = sync.Cond

func NewCond(l Locker) *Cond { return sync.NewCond(l) }

func OnceFunc(f func()) func() { return sync.OnceFunc(f) }

type Mutex struct{ mu sync.Mutex }

func (m *Mutex) Lock() {
	if !rt.MutexLock(m) {
		if rt.Sequential() {
			if !m.mu.TryLock() {
				panic(rt.SelfDeadlock{What: "Lock"})
			}
		} else {
			m.mu.Lock()
		}
		rt.NoteHeld(m, false, m.mu.Unlock)
	}
}
func (m *Mutex) Unlock() {
	if !rt.MutexUnlock(m) {
		rt.NoteReleased(m, false)
		m.mu.Unlock()
	}
}
func (m *Mutex) TryLock() bool { return m.mu.TryLock() }

type RWMutex struct{ mu sync.RWMutex }

func (m *RWMutex) Lock() {
	if !rt.MutexLock(m) {
		if rt.Sequential() {
			if !m.mu.TryLock() {
				panic(rt.SelfDeadlock{What: "Lock"})
			}
		} else {
			m.mu.Lock()
		}
		rt.NoteHeld(m, false, m.mu.Unlock)
	}
}
func (m *RWMutex) Unlock() {
	if !rt.MutexUnlock(m) {
		rt.NoteReleased(m, false)
		m.mu.Unlock()
	}
}
func (m *RWMutex) RLock() {
	if !rt.MutexRLock(m) {
		if rt.Sequential() {
			if !m.mu.TryRLock() {
				panic(rt.SelfDeadlock{What: "RLock"})
			}
		} else {
			m.mu.RLock()
		}
		rt.NoteHeld(m, true, m.mu.RUnlock)
	}
}
func (m *RWMutex) RUnlock() {
	if !rt.MutexRUnlock(m) {
		rt.NoteReleased(m, true)
		m.mu.RUnlock()
	}
}
func (m *RWMutex) RLocker() Locker { return (*rlocker)(m) }

type rlocker RWMutex

func (r *rlocker) Lock()   { (*RWMutex)(r).RLock() }
func (r *rlocker) Unlock() { (*RWMutex)(r).RUnlock() }

type Once struct{ o sync.Once }

func (o *Once) Do(f func()) {
	if !rt.OnceDo(o, f) {
		o.o.Do(f)
	}
}

type WaitGroup struct{ wg sync.WaitGroup }

func (w *WaitGroup) Add(n int) {
	if !rt.WGAdd(w, n) {
		w.wg.Add(n)
	}
}
func (w *WaitGroup) Done() { w.Add(-1) }
func (w *WaitGroup) Wait() {
	if !rt.WGWait(w) {
		w.wg.Wait()
	}
}
