#!/bin/bash
# seedr2.sh <Cxx> [more checks...]: confirm the round-2 seeded change for Cxx (fresh worktree: build, tests, demo both ways) and run the check(s) against it.
cd "$(dirname "$0")"; . ./env.sh
N=$1; shift; M=/tmp/wt/${ROUND:-R2}$N/MUTATION; W=/tmp/ws/${ROUND:-R2}$N
[ -f $M/patch.diff ] || { echo "no patch"; exit 3; }
PKG=$(head -1 $M/DEMO_PKG 2>/dev/null | tr -d ' \r\n'); PKG=${PKG#./}; PKG=${PKG%/}
./seedcheck.sh $M/patch.diff ${ROUND:-R2}$N 2>&1 | grep -v '^PASSED'
if [ -n "$PKG" ] && [ -f $M/demo_test.go ]; then
  cp $M/demo_test.go $W/$PKG/zz_seed_demo_test.go
  (cd $W; echo "--- demo WITH the change ($PKG)"; timeout 300 go test -tags seeddemo -vet=off -count=1 -run TestSeedDemo ./$PKG/ 2>&1 | grep -v '^$' | tail -${TAILN:-5} | cut -c1-300
   git apply -R $M/patch.diff; echo "--- demo WITHOUT the change"; timeout 300 go test -tags seeddemo -vet=off -count=1 -run TestSeedDemo ./$PKG/ 2>&1 | tail -2)
else echo "NO STANDARD DEMO (PKG='$PKG')"; fi
git -C /repo worktree remove --force $W
for c in $N "$@"; do echo "=== check $c"; TAILN=${TAILC:-3} ./seedtry.sh $M/patch.diff $c | grep -v '^KNOWN' | cut -c1-450; done
