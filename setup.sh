#!/bin/bash
# setup_cmd: build the tools from files on disk only and warm the build cache.
set -e
cd "$(dirname "$0")"
[ -n "${VP_RUN_REPO:-}" ] && export REPO=${REPO:-$VP_RUN_REPO}
. ./env.sh
mkdir -p bin evidence replays
(cd tools && go build -o ../bin/goyacc golang.org/x/tools/cmd/goyacc && go build -o ../bin/vinstr ./vinstr)
W=$(mktemp -d "${TMPDIR:-/tmp}/verif-setup.XXXXXX"); trap 'rm -rf "$W"' EXIT
bin/vinstr -repo "$REPO" -out "$W" -rt "$VERIF_DIR/rt" -goyacc "$VERIF_DIR/bin/goyacc"
cp "$REPO/go.sum" mc/go.sum
MODFLAG=
if [ "$REPO" != /repo ]; then
  cp mc/go.mod "$W/go.mod"; cp "$REPO/go.sum" "$W/go.sum"
  go mod edit -replace "github.com/sdcio/yang-parser=$REPO" "$W/go.mod"
  MODFLAG="-modfile=$W/go.mod"
fi
(cd mc && go build $MODFLAG -overlay "$W/overlay.json" -o "$W/vcheck" ./cmd/vcheck)
echo "setup ok"
