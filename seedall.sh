#!/bin/bash
# seedall.sh [tier]: apply every kept seeded change in turn to /repo, run the check of its property, undo it.
# (Every run builds a different overlay: the Go build cache grows by tens of GB over a full pass - run
# `go clean -cache && ./setup.sh` afterwards.)
# Prints one line per seed: CAUGHT (exit 1 with VIOLATION), MISSED (exit 0), N/A (patch no longer applies), ERROR.
cd "$(dirname "$0")"; T=${1:-quick}
[ -z "$(git -C /repo status --porcelain)" ] || { echo "/repo not clean"; exit 3; }
# evidence files must describe the unchanged tree: keep the current ones aside and put them back at the end
EB=$(mktemp -d); cp evidence/*.json $EB/; trap 'cp $EB/*.json evidence/; rm -rf $EB' EXIT
for d in $PWD/seeded/${SEEDS:-*}/; do
  id=$(basename $d); prop=$(python3 -c "import json;print(json.load(open('$d/meta.json'))['property'])")
  if ! git -C /repo apply --check $d/patch.diff 2>/dev/null; then echo "N/A     $id ($prop): patch does not apply to the current tree"; continue; fi
  git -C /repo apply $d/patch.diff
  out=$(./run $prop $T 2>&1); rc=$?
  git -C /repo checkout -- . ; git -C /repo clean -fdq
  n=$(echo "$out" | grep -c '^VIOLATION')
  case $rc in 1) echo "CAUGHT  $id ($prop): $n violation lines shown";; 0) echo "MISSED  $id ($prop)";; *) echo "ERROR   $id ($prop): exit $rc: $(echo "$out" | tail -1 | cut -c1-150)";; esac
done
