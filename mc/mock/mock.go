// Package mock is a recording, fault-injecting data tree (xpath.Entry).
//
// The tree is virtual: every path resolves to a node whose identity is its
// normalised absolute path with keys, e.g. /a/l[j=2][k=v]/c.  In "identity"
// mode the value of a node is its identity string, so the value of a path
// expression reveals which node was addressed.  In "byname" mode the value is
// looked up by the node's name (typed leaf values for the scalar checks).
// The leafref target of node X is the node /d + X.
package mock

import (
	gocontext "context"
	"fmt"
	"sort"
	"strings"

	sdcpb "github.com/sdcio/sdc-protos/sdcpb"
	"github.com/sdcio/yang-parser/xpath"
	"github.com/sdcio/yang-parser/xpath/xutils"
)

type Elem struct {
	Name string
	Keys map[string]string
}

func (e Elem) String() string {
	var ks []string
	for k := range e.Keys {
		ks = append(ks, k)
	}
	sort.Strings(ks)
	s := e.Name
	for _, k := range ks {
		s += "[" + k + "=" + e.Keys[k] + "]"
	}
	return s
}

func Render(p []Elem) string {
	if len(p) == 0 {
		return "/"
	}
	var b strings.Builder
	for _, e := range p {
		b.WriteString("/" + e.String())
	}
	return b.String()
}

// Call is one recorded data-tree request.
type Call struct {
	Method string `json:"m"`
	From   string `json:"from"`           // identity of the entry the method was called on
	Root   bool   `json:"root,omitempty"` // Navigate: path.IsRootBased
	Path   string `json:"path,omitempty"` // Navigate: raw elements as given, e.g. "../x/l[k=v]"
	Target string `json:"target,omitempty"`
	Failed bool   `json:"failed,omitempty"`
}

func (c Call) String() string {
	s := c.Method + "@" + c.From
	if c.Method == "Navigate" {
		r := ""
		if c.Root {
			r = "ROOT:"
		}
		s += "(" + r + c.Path + ")->" + c.Target
	}
	if c.Failed {
		s += "!FAIL"
	}
	return s
}

type Tree struct {
	// Spare holds, for every leaf-list value handed out with spare capacity, the slice over its whole
	// capacity: the part behind the length must stay zero (SpareWritten).
	Spare [][]xpath.Datum
	ByName map[string]xpath.Datum // non-nil: byname mode
	// identity mode: nodes whose last element has one of these names have the empty string as value
	EmptyNames map[string]bool
	// identity mode: nodes whose last element has one of these names have this number as value
	NumNames map[string]float64
	// identity mode: nodes whose last element has one of these names are leaf-lists with these values
	ListNames  map[string][]string
	Calls      []Call
	FailAt     map[int]bool // 1-based callback indices that fail
	NCalls     int
	Faults     []error // injected errors, in order
	AfterFault int     // number of callbacks invoked after the first fault
}

func NewTree() *Tree { return &Tree{} }

// Reset forgets recorded calls and faults (the values stay).
func (t *Tree) Reset() {
	t.Calls, t.NCalls, t.Faults, t.AfterFault, t.FailAt = t.Calls[:0], 0, nil, 0, nil
}

type Entry struct {
	t    *Tree
	path []Elem
}

func (t *Tree) At(p ...Elem) *Entry { return &Entry{t: t, path: p} }

func (t *Tree) callback(c Call) error {
	t.NCalls++
	if len(t.Faults) > 0 {
		t.AfterFault++
	}
	if t.FailAt[t.NCalls] {
		err := fmt.Errorf("INJECTED-FAULT-%d-%s", t.NCalls, c.Method)
		t.Faults = append(t.Faults, err)
		c.Failed = true
		t.Calls = append(t.Calls, c)
		return err
	}
	t.Calls = append(t.Calls, c)
	return nil
}

func (e *Entry) Identity() string { return Render(e.path) }

func RawPath(p *sdcpb.Path) string {
	var parts []string
	for _, pe := range p.GetElem() {
		parts = append(parts, Elem{pe.GetName(), pe.GetKey()}.String())
	}
	return strings.Join(parts, "/")
}

// Resolve applies a request to a base path.
func Resolve(base []Elem, root bool, p *sdcpb.Path) []Elem {
	var cur []Elem
	if !root {
		cur = append(cur, base...)
	}
	for _, pe := range p.GetElem() {
		if pe.GetName() == ".." {
			if len(cur) > 0 {
				cur = cur[:len(cur)-1]
			}
			continue
		}
		ks := map[string]string{}
		for k, v := range pe.GetKey() {
			ks[k] = v
		}
		cur = append(cur, Elem{pe.GetName(), ks})
	}
	return cur
}

func (e *Entry) Navigate(p *sdcpb.Path) (xpath.Entry, error) {
	target := Resolve(e.path, p.GetIsRootBased(), p)
	c := Call{Method: "Navigate", From: e.Identity(), Root: p.GetIsRootBased(), Path: RawPath(p), Target: Render(target)}
	if err := e.t.callback(c); err != nil {
		return nil, err
	}
	return &Entry{t: e.t, path: target}, nil
}

func (e *Entry) GetValue() (xpath.Datum, error) {
	if err := e.t.callback(Call{Method: "GetValue", From: e.Identity()}); err != nil {
		return nil, err
	}
	if e.t.ByName != nil {
		name := ""
		if len(e.path) > 0 {
			name = e.path[len(e.path)-1].Name
		}
		if d, ok := e.t.ByName[name]; ok {
			return d, nil
		}
		return xpath.NewNodesetDatum([]xutils.XpathNode{}), nil
	}
	if len(e.path) > 0 && e.t.EmptyNames[e.path[len(e.path)-1].Name] {
		return xpath.NewLiteralDatum(""), nil
	}
	if len(e.path) > 0 {
		if v, ok := e.t.NumNames[e.path[len(e.path)-1].Name]; ok {
			return xpath.NewNumDatum(v), nil
		}
		if vs, ok := e.t.ListNames[e.path[len(e.path)-1].Name]; ok {
			var ds []xpath.Datum
			for _, v := range vs {
				ds = append(ds, xpath.NewLiteralDatum(v))
			}
			return xpath.NewDatumSliceDatum(ds), nil
		}
	}
	return xpath.NewLiteralDatum(e.Identity()), nil
}

func (e *Entry) Copy() xpath.Entry { return &Entry{t: e.t, path: append([]Elem(nil), e.path...)} }

func (e *Entry) FollowLeafRef() (xpath.Entry, error) {
	if err := e.t.callback(Call{Method: "FollowLeafRef", From: e.Identity()}); err != nil {
		return nil, err
	}
	return &Entry{t: e.t, path: append([]Elem{{Name: "d"}}, e.path...)}, nil
}

func (e *Entry) GetSdcpbPath() *sdcpb.Path {
	p := &sdcpb.Path{IsRootBased: true}
	for _, el := range e.path {
		ks := map[string]string{}
		for k, v := range el.Keys {
			ks[k] = v
		}
		p.Elem = append(p.Elem, sdcpb.NewPathElem(el.Name, ks))
	}
	return p
}

func (e *Entry) BreadthSearch(ctx gocontext.Context, p *sdcpb.Path) ([]xpath.Entry, error) {
	target := Resolve(e.path, p.GetIsRootBased(), p)
	if err := e.t.callback(Call{Method: "BreadthSearch", From: e.Identity(), Root: p.GetIsRootBased(), Path: RawPath(p), Target: Render(target)}); err != nil {
		return nil, err
	}
	return []xpath.Entry{&Entry{t: e.t, path: target}}, nil
}

// CallStrings renders the recorded calls.
func (t *Tree) CallStrings() []string {
	out := make([]string, len(t.Calls))
	for i, c := range t.Calls {
		out[i] = c.String()
	}
	return out
}

// SpareWritten reports the leaf-list values whose spare capacity (the backing array behind the
// slice's length, which belongs to the data tree) has been written to.
func (t *Tree) SpareWritten() []string {
	var out []string
	for i, full := range t.Spare {
		for j := len(full) - 4; j < len(full); j++ {
			if full[j] != nil {
				out = append(out, fmt.Sprintf("leaf-list %d: slot %d behind the length holds %v", i, j, full[j]))
			}
		}
	}
	return out
}
