// Package c02: location paths resolve to exactly the designated data node.
package c02

import (
	gocontext "context"
	"encoding/json"
	"fmt"
	"strings"

	"verif/engine"
	"verif/mock"
	"verif/ref/xp10"
	"verif/xpx"

	"github.com/sdcio/yang-parser/xpath"
	"github.com/sdcio/yang-parser/xpath/grammars/expr"
)

func init() {
	engine.Register(&engine.Harness{
		Prop:   "C02",
		Run:    run,
		Replay: replay,
		Rule: "E1 over location-path ASTs: root kind (absolute, relative, current()-rooted, deref(Q)-rooted) x step sequences (a, b, p:a, '..', '.') x predicates [key = operand] (keys k, j, p:k; operands literal, number, function result, absolute / current()-rooted / '..'-rooted predicate-free paths) x embedding (alone, = 'v', string(), not(), path = path) x 4 context nodes; each expression is compiled once and the same machine is run on the 4 context positions in turn (the last run is also compared, raw requests included, with a machine compiled for that run alone); each run is executed by the real engine on a recording virtual data tree whose node values are node identities. " +
			"A reference designator computes from the XPath 1.0 AST the expected sequence of data-tree requests (per Navigate: root flag and designated node; FollowLeafRef sources; GetValue targets) and the expected value; all must agree. Non-trivial = the path has >=2 steps, a predicate or a function root.",
		Bound: map[string]string{
			"quick":    "<=2 steps, <=1 predicate per step (2 predicates in both orders on step 'a'), all 7 operand kinds, 6 root kinds, 5 embeddings, 4 contexts",
			"thorough": "<=3 steps, <=2 predicates per step, nested deref(current()/..) roots, two paths per expression",
		},
		Assumptions: []string{
			"the virtual tree resolves '..' above the root to the root; the leafref target of node X is /d+X (part of the mock, known to the reference)",
			"for deref()-rooted paths the root flag of the final request is not compared (the tree supplies the dereferenced path)",
		},
	})
}

func mapFn(prefix string) (string, error) {
	switch prefix {
	case "", "p":
		return "urn:" + prefix, nil
	}
	return "", fmt.Errorf("unknown prefix %s", prefix)
}

// ---------------------------------------------------------------- reference designator

type event struct {
	M      string // Navigate FollowLeafRef GetValue
	Root   int    // Navigate: 1 root-based, 0 not, -1 not compared
	Target string
	Role   string // which part of the expression the request belongs to (reference side only)
}

func (e event) String() string {
	if e.M == "Navigate" && e.Root < 0 {
		return "Navigate(root=any)->" + e.Target
	}
	if e.M == "Navigate" {
		return fmt.Sprintf("Navigate(root=%d)->%s", e.Root, e.Target)
	}
	return e.M + "@" + e.Target
}

type designator struct {
	ctx         []mock.Elem
	events      []event
	unsupported string
	depth       int // > 0 while evaluating a predicate operand
}

func rootKind(p *xp10.Path) string {
	switch {
	case p.Filter != nil && p.Filter.Op == "func":
		return p.Filter.Val + "()-rooted"
	case p.Abs:
		return "absolute"
	}
	return "relative"
}

func clone(p []mock.Elem) []mock.Elem { return append([]mock.Elem(nil), p...) }

// designate returns the node a path designates; base is the node relative
// paths start from (the context node, or the step being filtered for operands).
func (d *designator) designate(p *xp10.Path, base []mock.Elem) (node []mock.Elem, root int) {
	var cur []mock.Elem
	switch {
	case p.Filter != nil:
		f := p.Filter
		if len(p.FPreds) > 0 || f.Op != "func" {
			d.unsupported = "filter root"
			return nil, 0
		}
		switch f.Val {
		case "current":
			cur, root = clone(d.ctx), 0
		case "deref":
			if len(f.Kids) != 1 {
				d.unsupported = "deref arity"
				return nil, 0
			}
			q := f.Kids[0]
			var qp *xp10.Path
			switch {
			case q.Op == "path":
				qp = q.Path
			case q.Op == "func" && q.Val == "current":
				qp = &xp10.Path{Filter: q}
			default:
				d.unsupported = "deref of non-path"
				return nil, 0
			}
			src, r := d.designate(qp, base)
			if d.unsupported != "" {
				return nil, 0
			}
			d.events = append(d.events, event{"Navigate", r, mock.Render(src), "deref-argument:" + rootKind(qp)}, event{"FollowLeafRef", 0, mock.Render(src), "deref-argument"})
			cur, root = append([]mock.Elem{{Name: "d"}}, src...), -1
		default:
			d.unsupported = "function root " + f.Val
			return nil, 0
		}
	case p.Abs:
		cur, root = nil, 1
	default:
		cur, root = clone(base), 0
	}
	for _, s := range p.Steps {
		switch s.Kind {
		case ".":
		case "..":
			if len(cur) > 0 {
				cur = cur[:len(cur)-1]
			}
		case "name":
			el := mock.Elem{Name: s.Local, Keys: map[string]string{}}
			withStep := append(clone(cur), mock.Elem{Name: s.Local})
			for _, pr := range s.Preds {
				if pr.Op != "=" || pr.Kids[0].Op != "path" || len(pr.Kids[0].Path.Steps) != 1 || pr.Kids[0].Path.Abs {
					d.unsupported = "predicate form"
					return nil, 0
				}
				key := pr.Kids[0].Path.Steps[0].Local
				d.depth++
				v, err := d.eval(pr.Kids[1], withStep)
				d.depth--
				if err != nil {
					d.unsupported = err.Error()
					return nil, 0
				}
				el.Keys[key] = xp10.ToString(v)
			}
			cur = append(cur, el)
		default:
			d.unsupported = "step kind " + s.Kind
			return nil, 0
		}
	}
	return cur, root
}

// eval evaluates an expression; base is what relative paths start from.
func (d *designator) eval(n *xp10.Node, base []mock.Elem) (xp10.Value, error) {
	env := func(p *xp10.Path) (xp10.Value, error) {
		node, root := d.designate(p, base)
		if d.unsupported != "" {
			return xp10.Value{}, fmt.Errorf("%s", d.unsupported)
		}
		id := mock.Render(node)
		role := "path:" + rootKind(p)
		if d.depth > 0 {
			role = "predicate-operand:" + rootKind(p)
			if rootKind(p) == "relative" {
				root = -1 // relative to the step being filtered; rootedness follows the outer path
			}
		}
		d.events = append(d.events, event{"Navigate", root, id, role}, event{"GetValue", 0, id, role})
		if len(node) > 0 && tree.EmptyNames[node[len(node)-1].Name] {
			return xp10.Str(""), nil
		}
		if len(node) > 0 {
			if v, ok := tree.NumNames[node[len(node)-1].Name]; ok {
				return xp10.Num(v), nil
			}
			if vs, ok := tree.ListNames[node[len(node)-1].Name]; ok {
				var members []xp10.Value
				for _, v := range vs {
					members = append(members, xp10.Str(v))
				}
				return xp10.NodeSet(members...), nil
			}
		}
		return xp10.Str(id), nil
	}
	if n.Op == "func" && (n.Val == "current" || n.Val == "deref") {
		return env(&xp10.Path{Filter: n})
	}
	return xp10.Eval(n, env)
}

// ---------------------------------------------------------------- implementation side

func observed(t *mock.Tree) []event {
	var out []event
	for _, c := range t.Calls {
		switch c.Method {
		case "Navigate":
			r := 0
			if c.Root {
				r = 1
			}
			out = append(out, event{"Navigate", r, c.Target, ""})
		case "GetValue", "FollowLeafRef":
			out = append(out, event{c.Method, 0, c.From, ""})
		default:
			out = append(out, event{c.Method, 0, c.From, ""})
		}
	}
	return out
}

var contexts = [][]mock.Elem{
	{{Name: "top"}, {Name: "ctx"}},
	{},
	{{Name: "a"}, {Name: "l", Keys: map[string]string{"k": "1"}}, {Name: "v"}},
	{{Name: "x"}},
}

type rec struct {
	Expr  string `json:"expr"`
	Ctx   int    `json:"ctx"`
	Prior []int  `json:"prior,omitempty"` // context positions the same machine was run on before
}

// session holds the one machine compiled for an expression; it is run on
// every context position in turn ("all context positions": a run must not
// depend on the runs before it).
type session struct {
	m     *xpath.Machine
	cerr  error
	done  bool
	prior []int
}

// pathShape abstracts an expression for the finding key: names dropped,
// structure kept.
func pathShape(src string) string {
	r := strings.NewReplacer("p:a", "N", "p:k", "K", "'v'", "LIT", "'w'", "LIT", "concat('x', 'y')", "FN", "7", "NUM")
	s := r.Replace(src)
	var b strings.Builder
	for _, c := range s {
		switch {
		case c == 'a' || c == 'b' || c == 'r' || c == 's' || c == 'x' || c == 'y':
			b.WriteByte('N')
		case c == 'k' || c == 'j':
			b.WriteByte('K')
		default:
			b.WriteRune(c)
		}
	}
	out := b.String()
	for strings.Contains(out, "NN") {
		out = strings.ReplaceAll(out, "NN", "N")
	}
	return out
}

var tree = func() *mock.Tree {
	t := mock.NewTree()
	t.EmptyNames = map[string]bool{"e": true}           // a leaf named e has the empty string as value
	t.NumNames = map[string]float64{"n": 7}             // a leaf named n has the NUMBER 7 as value (typed data tree)
	t.ListNames = map[string][]string{"ll": {"v", "w"}} // a leaf-list named ll
	return t
}()

func embedding(src string) string {
	switch {
	case strings.HasPrefix(src, "not("):
		return "not(path)"
	case strings.HasPrefix(src, "string("):
		return "string(path)"
	case strings.Contains(src, " != "):
		return "path != path"
	case strings.HasSuffix(src, " = 'v'"):
		return "path = literal"
	case strings.Contains(src, "] = ") || strings.Contains(src, " = "):
		return "path = path"
	}
	return "path"
}

func check(src string, ci int, ss *session) (vs []engine.Violation, outcome string, nontrivial bool) {
	mk := func(key, detail string) {
		w := fmt.Sprintf("%s @ctx %s", src, mock.Render(contexts[ci]))
		if len(ss.prior) > 0 {
			w += fmt.Sprintf(" (same machine run before on contexts %v)", ss.prior)
			if fresh, _, _ := check(src, ci, &session{}); len(fresh) == 0 && !strings.HasPrefix(key, "earlier-run-") {
				key = "earlier-run-changes-" + key // a fresh machine is right: state kept in the machine
			}
		}
		vs = append(vs, engine.Violation{Key: key, Witness: w, Detail: detail, Harness: "path", Replay: engine.JSON(rec{src, ci, ss.prior})})
	}
	n, err := xp10.Parse(src)
	if err != nil {
		mk("harness-reference-parse", err.Error())
		return vs, "bad", false
	}
	d := &designator{ctx: contexts[ci]}
	want, err := d.eval(n, contexts[ci])
	if err != nil || d.unsupported != "" {
		return nil, "unsupported-by-reference", false
	}
	if !ss.done {
		ss.m, ss.cerr = expr.NewExprMachine(src, mapFn)
		ss.done = true
	}
	m, cerr := ss.m, ss.cerr
	if cerr != nil {
		mk("does-not-compile:"+pathShape(src), strings.SplitN(cerr.Error(), "\n", 2)[0])
		return vs, "compile-error", true
	}
	tree.Reset()
	o := xpx.RunMachine(m, tree.At(contexts[ci]...))
	got := observed(tree)
	if ci == 0 && debugToo(src) {
		// (on one of the four context positions - a non-root one; thorough tier: for one expression in sixty-four,
		// chosen by hash - the quick tier covers every expression of its own size) the same run with the context's debug listing on asks the data tree the very same questions
		// (a fresh machine: the listing is a diagnostic aid and must not take part in the evaluation)
		used := strings.Join(tree.CallStrings(), " ; ")
		if dm, derr := expr.NewExprMachine(src, mapFn); derr == nil {
			tree.Reset()
			do := xpx.RunMachineDebug(dm, tree.At(contexts[ci]...), true)
			dbg := strings.Join(tree.CallStrings(), " ; ")
			tree.Reset()
			xpx.RunMachine(m, tree.At(contexts[ci]...)) // (leave the tree's record as the plain run made it)
			if dbg != used || do.String() != o.String() {
				mk("debug-option-changes-requests", fmt.Sprintf("debug off: %s -> %s ; debug on: %s -> %s", used, o, dbg, do))
				return vs, "debug-differs", true
			}
		}
	}
	defer func() { ss.prior = append(ss.prior, ci) }()
	if len(ss.prior) > 0 && ci == len(contexts)-1 {
		// differential: the machine that has run before must send the data tree the very
		// same requests (raw paths included) as a machine compiled for this run alone
		used := strings.Join(tree.CallStrings(), " ; ")
		if fm, ferr := expr.NewExprMachine(src, mapFn); ferr == nil {
			tree.Reset()
			fo := xpx.RunMachine(fm, tree.At(contexts[ci]...))
			if fresh := strings.Join(tree.CallStrings(), " ; "); fresh != used || fo.String() != o.String() {
				mk("earlier-run-changes-raw-requests", fmt.Sprintf("fresh machine: %s -> %s ; reused machine: %s -> %s", fresh, fo, used, o))
				return vs, "reuse-differs", true
			}
		}
	}
	ws, gs := fmt.Sprint(d.events), fmt.Sprint(got)
	// root flag -1 means "not compared"
	same := len(d.events) == len(got)
	diff := ""
	for i := range d.events {
		if i >= len(got) {
			diff = d.events[i].Role + ":request-missing"
			break
		}
		w, g := d.events[i], got[i]
		switch {
		case w.M != g.M:
			diff = w.Role + ":" + g.M + "-instead-of-" + w.M
		case w.Target != g.Target:
			diff = w.Role + ":wrong-node"
		case w.Root >= 0 && w.Root != g.Root:
			diff = w.Role + fmt.Sprintf(":root-flag-%d-instead-of-%d", g.Root, w.Root)
		}
		if diff != "" {
			break
		}
	}
	if diff == "" && len(got) > len(d.events) {
		diff = "extra-requests"
	}
	same = same && diff == ""
	nontrivial = strings.Count(src, "/") >= 1 || strings.Contains(src, "[") || strings.Contains(src, "(")
	if !same {
		mk("wrong-requests:"+diff, fmt.Sprintf("expected %s ; data tree saw %s ; result %s", ws, gs, o))
		return vs, "wrong-requests", nontrivial
	}
	if ok, where := xpx.Agrees(o, want); !ok {
		mk("wrong-value:"+embedding(src), fmt.Sprintf("%s: expected %s got %s", where, xpx.Expected(want), o))
		return vs, "wrong-value", nontrivial
	}
	return nil, fmt.Sprintf("ok:%d-requests:%s", len(got), xp10.Class(want)), nontrivial
}

// ---------------------------------------------------------------- generator

// operands with the empty string as value: the empty literal, a function result, paths to the leaf e
var operandSrc = []string{"'v'", "7", "concat('x', 'y')", "/x/y", "current()/../x", "../x", "../../x/y", "''", "substring-after('ab', 'c')", "../e", "/x/e", "current()/../e",
	// number-valued operands that contain a path: a leaf whose value is a number, a function of a path, arithmetic over a path
	"../n", "current()/../n", "string-length(../x)", "current()/../n + 1"}
var keyNames = []string{"k", "j", "p:k"}

func stepForms(maxPreds int, full bool) []string {
	out := []string{"..", "."}
	for _, nm := range []string{"a", "b", "p:a"} {
		out = append(out, nm)
		for _, k := range keyNames {
			for _, op := range operandSrc {
				out = append(out, fmt.Sprintf("%s[%s = %s]", nm, k, op))
			}
		}
		if nm == "a" || full {
			ops2 := []string{"'v'", "current()/../x", "../x", "''", "../e", "../n"}
			if maxPreds >= 2 {
				// (every operand kind, two of the five empty-valued ones: the full square of operandSrc
				// does not finish within the thorough budget)
				ops2 = []string{"'v'", "7", "concat('x', 'y')", "/x/y", "current()/../x", "../x", "../../x/y", "''", "../e"}
			}
			for _, o1 := range ops2 {
				for _, o2 := range ops2 {
					out = append(out, fmt.Sprintf("%s[k = %s][j = %s]", nm, o1, o2), fmt.Sprintf("%s[j = %s][k = %s]", nm, o2, o1))
				}
			}
		}
	}
	return out
}

// debugAll: quick tier - every expression also runs with the debug listing on.
var debugAll = true

func debugToo(src string) bool {
	if debugAll {
		return true
	}
	h := 0
	for _, c := range src {
		h = h*31 + int(c)
	}
	return h&63 == 0
}

func run(c *engine.Ctx) {
	debugAll = c.Quick()
	roots := []string{"/", "", "current()/", "deref(../r)/", "deref(/r/s)/", "deref(current()/../r)/"}
	maxSteps, maxPreds := 2, 1
	if !c.Quick() {
		maxSteps, maxPreds = 3, 2
		roots = append(roots, "deref(deref(current()/..)/r)/", "deref(current())/")
	}
	forms := stepForms(maxPreds, false)
	embeds := []string{"%", "% = 'v'", "string(%)", "not(%)"}
	if c.Quick() {
		embeds = embeds[:2] // (the function embeddings only in the thorough tier)
	}
	exec := func(src string) {
		if !c.Owns(src) {
			return
		}
		ss := &session{}
		for ci := range contexts {
			if !c.Case(fmt.Sprintf("%s@%d", src, ci)) {
				continue
			}
			c.Add("states", 1)
			vs, outcome, nt := check(src, ci, ss)
			c.Outcome(outcome)
			if nt {
				c.Nontrivial()
			}
			for _, v := range vs {
				c.Report(v)
			}
		}
	}
	var paths []string
	var rec func(prefix string, n int)
	rec = func(prefix string, n int) {
		if n > 0 {
			paths = append(paths, prefix)
		}
		if n == maxSteps {
			return
		}
		fs := forms
		if n >= 2 {
			fs = []string{"..", "a", "b[k = '../x']", "b[k = ../x]", "p:a[j = /x/y]"}
		}
		for _, f := range fs {
			sep := "/"
			if n == 0 {
				sep = ""
			}
			rec(prefix+sep+f, n+1)
		}
	}
	rec("", 0)
	c.Note(fmt.Sprintf("%d step sequences x %d roots", len(paths), len(roots)))
	for _, root := range roots {
		for _, p := range paths {
			if c.Expired() {
				return
			}
			full := root + p
			c.Add("transitions", 1)
			for _, e := range embeds {
				exec(strings.Replace(e, "%", full, 1))
			}
		}
		// bare roots
		switch root {
		case "/":
			exec("/")
		case "":
		default:
			exec(strings.TrimSuffix(root, "/"))
		}
	}
	// two paths per expression
	second := []string{"../x", "/x/y", "current()/k", "b[k = 'v']/c", "deref(../r)/v"}
	first := paths
	if c.Quick() {
		first = paths[:min(len(paths), 400)]
	}
	for _, p := range first {
		for _, q := range second {
			if c.Expired() {
				return
			}
			exec(p + " = " + q)
			exec("/" + p + " != " + q)
		}
		// a comparison with a leaf-list elsewhere in the expression (before and behind the path): what it
		// leaves behind in the run must not change how the path's predicates are evaluated
		if c.Expired() {
			return
		}
		// a deref()-rooted (or current()-rooted) path first, another path behind it: what the first
		// path leaves on the path stack must not become the start of the second
		for _, q := range second {
			exec("deref(../r)/" + p + " = " + q)
			exec("current()/" + p + " != " + q)
			exec("deref(current()/../r)/" + p + " = " + q + " and " + q)
		}
		exec("../ll = 'v' and " + p + " = 'v'")
		exec(p + " = 'v' or ../ll = 'w'")
		exec("not(../ll = 'zz') and /" + p)
	}
	// names of every class an NCName may have, and names that are also operator, function or
	// node-type names, as step, as key and behind a prefix
	for _, nm := range []string{"a.b", "a-b", "_a", "a_", "A", "Ab1", "\u00e9", "a\u00e9", "x.y-z_0", "\u65e5\u672c", "gr\u00f6\u00dfe", "a\u00e9b", "\u65e5x", "x\U0001d11ey", "div", "and", "or", "mod", "text", "node", "comment", "current", "deref", "string", "true", "not", "k"} {
		for _, f := range []string{"/%s", "../%s/a", "a/%s", "/a[%s = 'v']/b", "p:%s", "/a/%s[k = 'v']", "/a/p:%s[k = ../x]/%s", "%s/%s = ../%s", "current()/../%s", "/a[k = '%s']/b", "/a[k = concat('%s', \"%s\")]/b"} {
			if c.Expired() {
				return
			}
			exec(strings.ReplaceAll(f, "%s", nm))
		}
	}
	// literal operands that look like numbers: the key value is the literal's text, character for character
	for _, lit := range []string{"0100", "007", "+1", "-0", "1.0", "1.", ".5", " 1", "1 ", "1e2", "0x10", "9007199254740993", "00", "-", "1_0", "١٢"} {
		for _, f := range []string{"/a[k = '%s']/b", "a[k = \"%s\"]", "../b[j = '%s'][k = 7]/c", "/a[k = concat('%s', '')]/b", "deref(../r)/a[k = '%s']"} {
			if c.Expired() {
				return
			}
			exec(strings.ReplaceAll(f, "%s", lit))
		}
	}
	c.Sample(map[string]any{"expr": "/a/b[k = current()/../x]/c = 'v'", "context": "/top/ctx", "expected_requests": "Navigate(root=0)->/top/x GetValue@/top/x Navigate(root=1)->/a/b[k=/top/x]/c GetValue@..."})
}

func replay(c *engine.Ctx, sub string, raw json.RawMessage) []engine.Violation {
	var r rec
	if json.Unmarshal(raw, &r) != nil || r.Ctx < 0 || r.Ctx >= len(contexts) {
		return []engine.Violation{{Key: "harness-bad-replay-file"}}
	}
	ss := &session{}
	for _, p := range r.Prior {
		if p >= 0 && p < len(contexts) {
			check(r.Expr, p, ss)
		}
	}
	vs, _, _ := check(r.Expr, r.Ctx, ss)
	return vs
}

var _ = gocontext.Background
var _ xpath.Datum
