// Package c13: derived types narrow their base and inherit its default.
package c13

import (
	"encoding/json"
	"fmt"
	"math/big"
	"regexp"
	"strconv"
	"strings"
	"unicode/utf8"

	"verif/engine"
	"verif/gen"

	"github.com/sdcio/yang-parser/schema"
)

func init() {
	engine.Register(&engine.Harness{
		Prop:   "C13",
		Run:    run,
		Replay: replay,
		Rule: "E1 over typedef chains: base type (int8, uint8, int64, uint64, decimal64 with 1/2/18 fraction digits, string) x a restriction chosen independently at every level of the chain (typedef t1, typedef t2 (t3), leaf) from a lattice (none, min..max, 0..10, 2..8, parts with a gap, adjacent parts, a single value, unordered, overlapping, out of base, min..5, 5..max, a restriction kind that does not apply; lengths and 0-2 patterns for strings) x a default placed at the leaf, at one typedef or nowhere, valid or invalid. " +
			"A reference with math/big computes per level: applicable kind, parts ordered and disjoint, subset of the level below (adjacent integer parts merge, decimal parts do not), and the effective default (nearest definition) which must lie in the final value space. The compile verdict must match; on success Type.Validate on every boundary +-1 unit of every level and Default() must match. Non-trivial = a chain with >= 2 restricted levels or a default.",
		Bound: map[string]string{
			"quick":    "families: typedef chains of depth 1-5 (aliases, optionally restricted at the first level) used by 2 or 3 leaves of one module with different restrictions; chains: 2 typedef levels + leaf restriction, 11-entry lattice per numeric base, 6 default placements",
			"thorough": "3 typedef levels + leaf restriction, 14-entry lattice",
		},
		Assumptions: []string{
			"'min' and 'max' in a derived restriction denote the lowest and highest value of the type being restricted",
			"a default that is overridden by a nearer one is not required to be checked",
		},
	})
}

type iv struct{ lo, hi *big.Rat }

type level struct {
	Restr  string `json:"restr"` // range/length text; "" none; "pattern:x" ; "length:.." on a number = inapplicable
	Def    string `json:"def"`   // default at this level; "" none (use "\x00" never)
	HasDef bool   `json:"hasdef"`
}

type chain struct {
	Base   string  `json:"base"`   // int8 uint8 int64 uint64 decimal64/N string
	Levels []level `json:"levels"` // typedefs outermost first, last = leaf
}

func (c chain) fd() int {
	if strings.HasPrefix(c.Base, "decimal64/") {
		n, _ := strconv.Atoi(c.Base[10:])
		return n
	}
	return 0
}

func (c chain) yang() string {
	var b strings.Builder
	b.WriteString("module a { namespace \"urn:a\"; prefix a;")
	typ := c.Base
	extra := ""
	if c.fd() > 0 {
		typ = "decimal64"
		extra = fmt.Sprintf(" fraction-digits %d;", c.fd())
	}
	stmt := func(l level, typeName string, first bool) string {
		var body []string
		if first && extra != "" {
			body = append(body, strings.TrimSpace(extra))
		}
		switch {
		case l.Restr == "":
		case strings.HasPrefix(l.Restr, "pattern:"):
			for _, p := range strings.Split(l.Restr[8:], "&") {
				body = append(body, fmt.Sprintf("pattern '%s';", p))
			}
		case strings.HasPrefix(l.Restr, "length:"):
			body = append(body, fmt.Sprintf("length %q;", l.Restr[7:]))
		default:
			body = append(body, fmt.Sprintf("range %q;", l.Restr))
		}
		s := "type " + typeName
		if len(body) > 0 {
			s += " { " + strings.Join(body, " ") + " }"
		} else {
			s += ";"
		}
		if l.HasDef {
			s += fmt.Sprintf(" default %q;", l.Def)
		}
		return s
	}
	prev := typ
	for i, l := range c.Levels {
		if i == len(c.Levels)-1 {
			fmt.Fprintf(&b, " leaf l { %s }", stmt(l, prev, i == 0))
		} else {
			name := fmt.Sprintf("t%d", i+1)
			fmt.Fprintf(&b, " typedef %s { %s }", name, stmt(l, prev, i == 0))
			prev = name
		}
	}
	b.WriteString(" }")
	return b.String()
}

// ---------------------------------------------------------------- reference

type refResult struct {
	valid   bool
	why     string
	set     []iv     // numeric value space / length space
	pats    []string // accumulated patterns
	def     string
	hasDef  bool
	settled bool
}

func (c chain) isString() bool { return c.Base == "string" }

func typeBounds(base string) (lo, hi *big.Rat) {
	switch {
	case base == "int8":
		return big.NewRat(-128, 1), big.NewRat(127, 1)
	case base == "uint8":
		return big.NewRat(0, 1), big.NewRat(255, 1)
	case base == "int64":
		h := new(big.Int).Lsh(big.NewInt(1), 63)
		return new(big.Rat).SetInt(new(big.Int).Neg(h)), new(big.Rat).SetInt(new(big.Int).Sub(h, big.NewInt(1)))
	case base == "uint64":
		h := new(big.Int).Lsh(big.NewInt(1), 64)
		return new(big.Rat), new(big.Rat).SetInt(new(big.Int).Sub(h, big.NewInt(1)))
	case strings.HasPrefix(base, "decimal64/"):
		n, _ := strconv.Atoi(base[10:])
		h := new(big.Int).Lsh(big.NewInt(1), 63)
		d := new(big.Int).Exp(big.NewInt(10), big.NewInt(int64(n)), nil)
		return new(big.Rat).SetFrac(new(big.Int).Neg(h), d), new(big.Rat).SetFrac(new(big.Int).Sub(h, big.NewInt(1)), d)
	}
	// string: lengths
	return new(big.Rat), new(big.Rat).SetInt(new(big.Int).Lsh(big.NewInt(1), 62))
}

func parseParts(text string, cur []iv) ([]iv, string) {
	var out []iv
	for _, part := range strings.Split(text, "|") {
		part = strings.TrimSpace(part)
		bs := strings.Split(part, "..")
		get := func(b string) *big.Rat {
			b = strings.TrimSpace(b)
			switch b {
			case "min":
				return cur[0].lo
			case "max":
				return cur[len(cur)-1].hi
			}
			r, ok := new(big.Rat).SetString(b)
			if !ok {
				return nil
			}
			return r
		}
		lo := get(bs[0])
		hi := lo
		if len(bs) == 2 {
			hi = get(bs[1])
		}
		if lo == nil || hi == nil {
			return nil, "bad boundary"
		}
		if lo.Cmp(hi) > 0 {
			return nil, "boundary pair not ascending"
		}
		if len(out) > 0 && out[len(out)-1].hi.Cmp(lo) >= 0 {
			return nil, "parts not ascending and disjoint"
		}
		out = append(out, iv{lo, hi})
	}
	return out, ""
}

func subset(parts, base []iv, integral bool) bool {
	merged := []iv{}
	for _, b := range base {
		if integral && len(merged) > 0 {
			next := new(big.Rat).Add(merged[len(merged)-1].hi, big.NewRat(1, 1))
			if next.Cmp(b.lo) == 0 {
				merged[len(merged)-1].hi = b.hi
				continue
			}
		}
		merged = append(merged, iv{b.lo, b.hi})
	}
	for _, p := range parts {
		ok := false
		for _, m := range merged {
			if p.lo.Cmp(m.lo) >= 0 && p.hi.Cmp(m.hi) <= 0 {
				ok = true
			}
		}
		if !ok {
			return false
		}
	}
	return true
}

var reInt = regexp.MustCompile(`^[+-]?[0-9]+$`)
var reDec = regexp.MustCompile(`^[+-]?[0-9]+(\.[0-9]+)?$`)

func (c chain) member(r refResult, v string) bool {
	if c.isString() {
		n := new(big.Rat).SetInt64(int64(utf8.RuneCountInString(v)))
		in := false
		for _, i := range r.set {
			if n.Cmp(i.lo) >= 0 && n.Cmp(i.hi) <= 0 {
				in = true
			}
		}
		if !in {
			return false
		}
		for _, p := range r.pats {
			if !regexp.MustCompile(`^(?:` + p + `)$`).MatchString(v) {
				return false
			}
		}
		return true
	}
	fd := c.fd()
	if fd == 0 && !reInt.MatchString(v) || fd > 0 && !reDec.MatchString(v) {
		return false
	}
	if i := strings.IndexByte(v, '.'); i >= 0 && len(v)-i-1 > fd {
		return false
	}
	x, _ := new(big.Rat).SetString(strings.TrimPrefix(v, "+"))
	for _, i := range r.set {
		if x.Cmp(i.lo) >= 0 && x.Cmp(i.hi) <= 0 {
			return true
		}
	}
	return false
}

func (c chain) reference() refResult {
	lo, hi := typeBounds(c.Base)
	r := refResult{valid: true, settled: true, set: []iv{{lo, hi}}}
	integral := c.fd() == 0
	for _, l := range c.Levels {
		switch {
		case l.Restr == "":
		case strings.HasPrefix(l.Restr, "pattern:"):
			if !c.isString() {
				return refResult{valid: false, why: "pattern on a numeric type", settled: true}
			}
			r.pats = append(r.pats, strings.Split(l.Restr[8:], "&")...)
		case strings.HasPrefix(l.Restr, "length:"):
			if !c.isString() {
				return refResult{valid: false, why: "length on a numeric type", settled: true}
			}
			parts, why := parseParts(l.Restr[7:], r.set)
			if why != "" {
				return refResult{valid: false, why: why, settled: true}
			}
			if !subset(parts, r.set, true) {
				return refResult{valid: false, why: "length not within the base", settled: true}
			}
			r.set = parts
		default:
			if c.isString() {
				return refResult{valid: false, why: "range on a string", settled: true}
			}
			parts, why := parseParts(l.Restr, r.set)
			if why != "" {
				return refResult{valid: false, why: why, settled: true}
			}
			if !subset(parts, r.set, integral) {
				return refResult{valid: false, why: "range not within the base", settled: true}
			}
			r.set = parts
		}
		if l.HasDef {
			r.def, r.hasDef = l.Def, true
		}
	}
	if r.hasDef && !c.member(r, r.def) {
		return refResult{valid: false, why: "default not in the value space", settled: true}
	}
	// a default that is overridden further in: unsettled if it is invalid where it is defined
	return r
}

// ---------------------------------------------------------------- check

type valCtx struct{}

func (valCtx) ErrorHelpText() []string    { return nil }
func (valCtx) AllowIncompletePaths() bool { return false }

var reSingleMinMax = regexp.MustCompile(`(^|\|)\s*(min|max|min\s*\.\.\s*min|max\s*\.\.\s*max)\s*(\||$)`)

// singleMinMax: some restriction of the chain has a part that is just min or max (or min..min,
// max..max): the single smallest / largest value of the base.
func (c chain) singleMinMax() bool {
	for _, l := range c.Levels {
		if reSingleMinMax.MatchString(strings.TrimPrefix(l.Restr, "length:")) && !strings.HasPrefix(l.Restr, "pattern:") {
			return true
		}
	}
	return false
}

func (c chain) shape() string {
	if c.singleMinMax() {
		// one root cause whatever the base type and depth: one key
		return "part-that-is-just-min-or-max"
	}
	var p []string
	for _, l := range c.Levels {
		k := "-"
		switch {
		case strings.HasPrefix(l.Restr, "pattern:"):
			k = "P"
		case strings.HasPrefix(l.Restr, "length:"):
			k = "L"
		case l.Restr != "":
			k = "R"
		}
		if l.HasDef {
			k += "d"
		}
		p = append(p, k)
	}
	b := c.Base
	if i := strings.Index(b, "/"); i >= 0 {
		b = b[:i]
	}
	return b + ":" + strings.Join(p, ">")
}

func (c chain) probes(r refResult) []string {
	seen := map[string]bool{}
	var out []string
	add := func(s string) {
		if !seen[s] {
			seen[s] = true
			out = append(out, s)
		}
	}
	if c.isString() {
		for _, s := range []string{"", "a", "ab", "abc", "abcd", "abcde", "é", "éé", "ééé", "1", "12", "123", "a1", "b", "bb", "aaaaaaaaaaa", "0123456789"} {
			add(s)
		}
		return out
	}
	fd := c.fd()
	unit := new(big.Rat).SetFrac(big.NewInt(1), new(big.Int).Exp(big.NewInt(10), big.NewInt(int64(fd)), nil))
	lo, hi := typeBounds(c.Base)
	bounds := []*big.Rat{lo, hi, new(big.Rat)}
	for _, l := range c.Levels {
		if l.Restr == "" || strings.Contains(l.Restr, ":") {
			continue
		}
		for _, tok := range regexp.MustCompile(`-?[0-9]+(\.[0-9]+)?`).FindAllString(l.Restr, -1) {
			if x, ok := new(big.Rat).SetString(tok); ok {
				bounds = append(bounds, x)
			}
		}
	}
	for _, b := range bounds {
		for _, d := range []int64{-1, 0, 1} {
			x := new(big.Rat).Add(b, new(big.Rat).Mul(unit, big.NewRat(d, 1)))
			add(x.FloatString(fd))
		}
	}
	return out
}

func check(c chain) (vs []engine.Violation, outcome string) {
	mk := func(key, detail string) {
		vs = append(vs, engine.Violation{Key: key, Witness: c.yang(), Detail: detail, Harness: "chain", Replay: engine.JSON(c)})
	}
	ref := c.reference()
	res := gen.Compile(map[string]string{"a": c.yang()}, gen.Options{})
	switch res.Verdict() {
	case "panic":
		mk("panic:"+c.shape(), fmt.Sprint(res.Panic))
		return vs, "panic"
	case "nonterminating":
		mk("nonterminating:"+c.shape(), "")
		return vs, "nonterminating"
	case "error":
		if ref.valid {
			mk("valid-chain-rejected:"+c.shape(), res.Err.Error())
		}
		return vs, "error"
	}
	if !ref.valid {
		mk("invalid-chain-accepted:"+c.shape()+":"+ref.why, "reference: "+ref.why)
		return vs, "ok-but-invalid"
	}
	return append(vs, checkLeaf(c, ref, res.MS, "l", mk)...), "ok"
}

// checkLeaf compares Validate and Default of one compiled leaf with the reference of its chain.
func checkLeaf(c chain, ref refResult, ms schema.ModelSet, leaf string, mk func(key, detail string)) (vs []engine.Violation) {
	n := ms.Child(leaf)
	if n == nil {
		mk("leaf-missing", leaf)
		return nil
	}
	before := 0
	report := mk
	mk = func(key, detail string) { before++; report(key, detail) }
	var t schema.Type = n.Type()
	for _, p := range c.probes(ref) {
		want := c.member(ref, p)
		digits := len(strings.Trim(p, "-+.")) - strings.Count(p, ".")
		if c.fd() > 0 && digits >= 16 {
			continue // float64 comparison of decimal64 bounds: C16's finding
		}
		var err error
		var pn any
		func() {
			defer func() { pn = recover() }()
			err = t.Validate(valCtx{}, []string{"l", p}, p)
		}()
		switch {
		case pn != nil:
			mk("panic-in-validate:"+c.shape(), fmt.Sprint(pn))
		case want && err != nil:
			mk("member-rejected:"+c.shape(), fmt.Sprintf("%q is within every restriction of the chain; Validate: %v", p, err))
		case !want && err == nil:
			mk("non-member-accepted:"+c.shape(), fmt.Sprintf("%q violates a restriction of the chain; Validate accepts it", p))
		}
		if before > 0 {
			return nil
		}
	}
	if lf, ok := n.(schema.Leaf); ok {
		d, has := lf.Default()
		if has != ref.hasDef || (has && d != ref.def) {
			mk("wrong-default:"+c.shape(), fmt.Sprintf("expected default %q/%v, got %q/%v", ref.def, ref.hasDef, d, has))
		}
	}
	return nil
}

// family: one typedef chain used by several leaves of one module, each with its own restriction
// (every leaf must behave as if it were the only user of the chain).
type family struct {
	Base     string  `json:"base"`
	Typedefs []level `json:"typedefs"`
	Leaves   []level `json:"leaves"`
}

func (f family) chainOf(i int) chain {
	return chain{Base: f.Base, Levels: append(append([]level{}, f.Typedefs...), f.Leaves[i])}
}

func (f family) yang() string {
	// typedefs as in chain.yang(), then one leaf per entry
	first := f.chainOf(0).yang()
	cut := strings.Index(first, " leaf l {")
	var b strings.Builder
	b.WriteString(first[:cut])
	for i := range f.Leaves {
		one := f.chainOf(i).yang()
		lf := one[strings.Index(one, " leaf l {"):]
		lf = strings.TrimSuffix(lf, " }")
		b.WriteString(strings.Replace(lf, " leaf l {", fmt.Sprintf(" leaf l%d {", i), 1))
	}
	b.WriteString(" }")
	return b.String()
}

func checkFamily(f family) (vs []engine.Violation, outcome string) {
	mk := func(key, detail string) {
		vs = append(vs, engine.Violation{Key: key, Witness: f.yang(), Detail: detail, Harness: "family", Replay: engine.JSON(f)})
	}
	valid := true
	refs := make([]refResult, len(f.Leaves))
	for i := range f.Leaves {
		refs[i] = f.chainOf(i).reference()
		valid = valid && refs[i].valid
	}
	res := gen.Compile(map[string]string{"a": f.yang()}, gen.Options{})
	switch res.Verdict() {
	case "panic", "nonterminating":
		mk(res.Verdict()+":family", fmt.Sprint(res.Panic))
		return vs, res.Verdict()
	case "error":
		if valid {
			mk("valid-family-rejected:"+f.chainOf(0).shape(), res.Err.Error())
		}
		return vs, "error"
	}
	if !valid {
		mk("invalid-family-accepted:"+f.chainOf(0).shape(), "one of the leaves has an invalid chain")
		return vs, "ok-but-invalid"
	}
	for i := range f.Leaves {
		c := f.chainOf(i)
		checkLeaf(c, refs[i], res.MS, fmt.Sprintf("l%d", i), func(key, detail string) {
			mk("sibling-leaves:"+key+fmt.Sprintf(":leaf-%d-of-%d:typedefs=%d", i, len(f.Leaves), len(f.Typedefs)), detail)
		})
	}
	return vs, "ok"
}

func runFamilies(c *engine.Ctx) {
	leafRestr := map[string][]string{
		"string": {"", "pattern:[a-z]*", "pattern:[0-9]+", "length:2..8", "pattern:a.*&.*b"},
		"uint8":  {"", "0..10", "2..8", "5", "min..5"},
		"int64":  {"", "0..10", "-200..0"},
	}
	for _, base := range []string{"string", "uint8", "int64"} {
		first := map[string]string{"string": "length:0..10", "uint8": "0..10", "int64": "-200..10"}[base]
		for depth := 1; depth <= 5; depth++ {
			for _, restrictFirst := range []bool{false, true} {
				tds := make([]level, depth)
				if restrictFirst {
					tds[0].Restr = first
				}
				rs := leafRestr[base]
				var rec func(leaves []level)
				rec = func(leaves []level) {
					if len(leaves) >= 2 {
						f := family{Base: base, Typedefs: tds, Leaves: append([]level{}, leaves...)}
						id := "family:" + f.yang()
						if c.Owns(id) && c.Case(id) {
							c.Add("states", 1)
							c.Add("transitions", int64(len(leaves)))
							c.Nontrivial()
							vs, outcome := checkFamily(f)
							c.Outcome("family:" + outcome)
							for _, v := range vs {
								c.Report(v)
							}
						}
					}
					if len(leaves) == 3 || c.Expired() {
						return
					}
					for _, r := range rs {
						rec(append(append([]level{}, leaves...), level{Restr: r}))
					}
				}
				rec(nil)
			}
		}
	}
}

var numLattice = []string{"", "min..max", "0..10", "2..8", "0..4 | 6..10", "0..4 | 5..10", "5", "3..2", "0..5 | 5..8", "0..5 | 3..8", "-200..0", "min..5", "5..max", "length:1..2"}
var strLattice = []string{"", "length:min..max", "length:0..10", "length:2..8", "length:0..4 | 6..10", "length:1", "length:3..2", "length:0..2 | 2..5", "length:min..5", "pattern:[a-z]*", "pattern:a.*&.*b", "pattern:[0-9]+", "0..5"}

// runMinMaxSpellings: a typedef (unrestricted, one range, two parts) and a leaf restriction written
// with min and max in every position: as lower bound, as upper bound, as a part of their own.
func runMinMaxSpellings(c *engine.Ctx) {
	for _, base := range []string{"int8", "uint8", "int64", "uint64", "decimal64/2", "string"} {
		pre := ""
		if base == "string" {
			pre = "length:"
		}
		for _, r0 := range []string{"", "0..10", "0..4 | 6..10"} {
			for _, d := range []string{"min", "max", "min..min", "max..max", "min..max", "min..4", "6..max", "min | max", "min | 6..max", "0..4 | max", "min..2 | max", "min | 2..4 | max", "min..2 | 4..6", "min..2 | 4", "min..1 | 3..4 | 6..max", "0..2 | 4..max", "0 | 2..3 | 5..max"} {
				if r0 == "" && strings.ContainsAny(d, "0246") && strings.Contains(d, "0..4") && base == "int8" {
					// (0..4 is inside every base: nothing special)
				}
				ch := chain{Base: base, Levels: []level{{}, {Restr: pre + d}}}
				if r0 != "" {
					ch.Levels[0].Restr = pre + r0
				}
				id := "minmax:" + ch.yang()
				if !c.Owns(id) || !c.Case(id) {
					continue
				}
				c.Add("states", 1)
				c.Add("transitions", 2)
				c.Nontrivial()
				vs, outcome := check(ch)
				c.Outcome("minmax:" + outcome)
				for _, v := range vs {
					c.Report(v)
				}
			}
		}
	}
}

// runUnorderedSpellings: multi-part restrictions whose FIRST, middle or last part is reversed, whose
// parts descend, touch or repeat - at the typedef and at the leaf - for every base type.
func runUnorderedSpellings(c *engine.Ctx) {
	for _, base := range []string{"int8", "uint8", "int64", "uint64", "decimal64/2", "string"} {
		pre := ""
		if base == "string" {
			pre = "length:"
		}
		for _, d := range []string{"5..3 | 6..10", "0..4 | 8..6", "0..2 | 5..3 | 7..9", "6..10 | 0..4", "0..4 | 4..8", "1 | 1", "3..2", "0..4 | 6..10", "0..2 | 4..5 | 7..9", "10..0"} {
			for _, where := range []int{0, 1} {
				ch := chain{Base: base, Levels: []level{{}, {}}}
				ch.Levels[where].Restr = pre + d
				id := "unordered:" + ch.yang()
				if !c.Owns(id) || !c.Case(id) {
					continue
				}
				c.Add("states", 1)
				c.Add("transitions", 2)
				c.Nontrivial()
				vs, outcome := check(ch)
				c.Outcome("unordered:" + outcome)
				for _, v := range vs {
					c.Report(v)
				}
			}
		}
	}
}

// runWideBoundaries: 64-bit types around the values where a comparison in floating point (or in the
// other signedness) goes wrong: 2^53, -2^53, the ends of int64 and of uint64.  A typedef range that
// ends at the pivot and leaf restrictions made of the pivot and its neighbours in every arrangement.
func runWideBoundaries(c *engine.Ctx) {
	type pv struct{ base, pivot string }
	for _, p := range []pv{{"int64", "9007199254740992"}, {"int64", "-9007199254740992"}, {"int64", "9223372036854775806"}, {"int64", "-9223372036854775807"},
		{"uint64", "9007199254740992"}, {"uint64", "9223372036854775807"}, {"uint64", "18446744073709551614"}, {"uint64", "4294967296"}, {"int64", "4294967296"}, {"int64", "-2147483649"}} {
		v, _ := new(big.Int).SetString(p.pivot, 10)
		at := func(k int64) string { return new(big.Int).Add(v, big.NewInt(k)).String() }
		r0s := []string{"", "0.." + at(0), "0.." + at(-1)}
		if v.Sign() < 0 {
			r0s = []string{"", at(0) + "..0", at(1) + "..0"}
		}
		leafs := []string{at(-1), at(0), at(1), at(-1) + ".." + at(0), at(0) + ".." + at(1), at(-1) + ".." + at(1), at(1) + ".." + at(0), at(0) + ".." + at(-1),
			at(-1) + " | " + at(0), at(0) + " | " + at(1), at(-2) + ".." + at(-1) + " | " + at(0) + ".." + at(1), at(0) + " | " + at(0), at(0) + " | " + at(-1), at(-2) + ".." + at(0) + " | " + at(0) + ".." + at(1),
			at(-1) + ".." + at(0) + " | " + at(1), at(-3) + " | " + at(-1)}
		for _, r0 := range r0s {
			for _, d := range leafs {
				for _, where := range []int{0, 1} {
					if where == 0 && r0 != "" {
						continue
					}
					ch := chain{Base: p.base, Levels: []level{{Restr: r0}, {Restr: d}}}
					if where == 0 {
						ch = chain{Base: p.base, Levels: []level{{Restr: d}, {}}}
					}
					id := "wide:" + ch.yang()
					if !c.Owns(id) || !c.Case(id) {
						continue
					}
					c.Add("states", 1)
					c.Add("transitions", 2)
					c.Nontrivial()
					vs, outcome := check(ch)
					c.Outcome("wide:" + outcome)
					for _, v := range vs {
						c.Report(v)
					}
				}
			}
		}
	}
}

// runDefaultSpellings: "a default that the final type rejects is refused at compile time" read as a
// consistency statement that needs no reference: a chain with the default D compiles iff the leaf type of
// the same chain compiled without a default accepts D - for spellings on which a compile-time reading
// and the run-time reading of a number could differ (leading zeros, 0x, signs, blanks, underscores).
func runDefaultSpellings(c *engine.Ctx) {
	for _, base := range []string{"int8", "uint8", "int64", "uint64", "decimal64/2"} {
		for _, restr := range []string{"", "1..8", "9..20", "0..7 | 10..16"} {
			for _, d := range []string{"010", "-010", "0x10", "0X8", "08", "0b11", "1_0", "+5", "+010", " 5", "5 ", "5.0", "1e1", "0", "-0", "00", "8", "10", "16", "007"} {
				for _, where := range []int{0, 1} {
					with := chain{Base: base, Levels: []level{{Restr: restr}, {}}}
					with.Levels = append([]level{}, with.Levels...)
					with.Levels[where].Def, with.Levels[where].HasDef = d, true
					id := "defspell:" + with.yang()
					if !c.Owns(id) || !c.Case(id) {
						continue
					}
					c.Add("states", 1)
					c.Add("transitions", 2)
					c.Nontrivial()
					vs, outcome := checkDefaultSpelling(with, where)
					c.Outcome(outcome)
					for _, v := range vs {
						c.Report(v)
					}
				}
			}
		}
	}
}

// checkDefaultSpelling: where = the level that carries the default.
func checkDefaultSpelling(with chain, where int) (vs []engine.Violation, outcome string) {
	base, d := with.Base, with.Levels[where].Def
	without := chain{Base: with.Base, Levels: append([]level{}, with.Levels...)}
	without.Levels[where].Def, without.Levels[where].HasDef = "", false
	r0 := gen.Compile(map[string]string{"a": without.yang()}, gen.Options{})
	if !r0.OK() || r0.MS.Child("l") == nil {
		return nil, "defspell:base-chain-does-not-compile"
	}
	var verr error
	var pn any
	func() {
		defer func() { pn = recover() }()
		verr = r0.MS.Child("l").Type().Validate(valCtx{}, []string{"l", d}, d)
	}()
	r1 := gen.Compile(map[string]string{"a": with.yang()}, gen.Options{})
	outcome = fmt.Sprintf("defspell:type-accepts=%v:compiles=%v", verr == nil, r1.OK())
	switch {
	case pn != nil || r1.Verdict() == "panic" || r1.Verdict() == "nonterminating":
		vs = append(vs, engine.Violation{Key: "panic:default-spelling:" + base, Witness: with.yang(), Detail: fmt.Sprint(pn, r1.Panic), Harness: "defspell", Replay: engine.JSON(with)})
	case (verr == nil) != r1.OK():
		vs = append(vs, engine.Violation{Key: fmt.Sprintf("default-verdict-differs-from-the-final-type:%s:type-accepts=%v", strings.SplitN(base, "/", 2)[0], verr == nil), Witness: with.yang(),
			Detail: fmt.Sprintf("the type of the chain without default: Validate(%q) = %v; the chain with this default: %s %v", d, verr, r1.Verdict(), r1.Err), Harness: "defspell", Replay: engine.JSON(with)})
	}
	return vs, outcome
}

func run(c *engine.Ctx) {
	runFamilies(c)
	runDefaultSpellings(c)
	runMinMaxSpellings(c)
	runUnorderedSpellings(c)
	runWideBoundaries(c)
	runDefaultChains(c)
	bases := []string{"int8", "uint8", "int64", "uint64", "decimal64/1", "decimal64/2", "decimal64/12", "decimal64/18", "string"}
	nTypedefs := 2
	nlat := 11
	if !c.Quick() {
		nTypedefs, nlat = 3, 14
	}
	for _, base := range bases {
		lat := numLattice
		if base == "string" {
			lat = strLattice
		}
		if len(lat) > nlat {
			// keep the inapplicable kind (last entry) in the quick tier too
			lat = append(append([]string{}, lat[:nlat-1]...), lat[len(lat)-1])
			if base == "string" {
				// and a second, different pattern: patterns of several levels must ALL hold
				lat = append(lat, "pattern:[0-9]+", "pattern:.{3}")
			}
		}
		if strings.HasPrefix(base, "decimal64") {
			l2 := append([]string{}, lat...)
			for i, s := range l2 {
				if s == "0..4 | 5..10" {
					l2[i] = "0..4 | 4.1..10"
				}
			}
			lat = append(l2, "0.5..1.5")
		}
		levels := make([]level, nTypedefs+1)
		var rec func(i int)
		rec = func(i int) {
			if c.Expired() {
				return
			}
			if i == len(levels) {
				// default placements: none, leaf valid/invalid, each typedef valid
				defs := []struct {
					at  int
					val string
				}{{-1, ""}, {len(levels) - 1, "5"}, {len(levels) - 1, "100"}, {0, "5"}, {0, "3"}, {1, "7"}}
				if base == "string" {
					defs = []struct {
						at  int
						val string
					}{{-1, ""}, {len(levels) - 1, "ab"}, {len(levels) - 1, "abcdefghijkl"}, {0, "ab"}, {0, "1"}, {1, "abc"}}
				}
				for _, d := range defs {
					ch := chain{Base: base, Levels: append([]level{}, levels...)}
					if d.at >= 0 {
						ch.Levels[d.at].Def, ch.Levels[d.at].HasDef = d.val, true
					}
					id := ch.yang()
					if !c.Owns(id) || !c.Case(id) {
						continue
					}
					c.Add("states", 1)
					c.Add("transitions", int64(len(levels)))
					restricted := 0
					for _, l := range ch.Levels {
						if l.Restr != "" {
							restricted++
						}
					}
					if restricted >= 2 || d.at >= 0 {
						c.Nontrivial()
					}
					vs, outcome := check(ch)
					c.Outcome(outcome)
					for _, v := range vs {
						c.Report(v)
					}
				}
				return
			}
			for _, r := range lat {
				levels[i] = level{Restr: r}
				rec(i + 1)
			}
		}
		rec(0)
	}
	c.Sample(map[string]any{"module": chain{Base: "int8", Levels: []level{{Restr: "0..4 | 5..10"}, {Restr: "0..10", Def: "7", HasDef: true}, {Restr: "min..5"}}}.yang(), "expect": "rejected: default 7 outside min..5"})
}

func replay(c *engine.Ctx, sub string, raw json.RawMessage) []engine.Violation {
	if sub == "defchain" {
		return replayDefChain(raw)
	}
	if sub == "defspell" {
		var ch chain
		if json.Unmarshal(raw, &ch) != nil || len(ch.Levels) == 0 {
			return []engine.Violation{{Key: "harness-bad-replay-file"}}
		}
		for w, l := range ch.Levels {
			if l.HasDef {
				vs, _ := checkDefaultSpelling(ch, w)
				return vs
			}
		}
		return nil
	}
	if sub == "family" {
		var f family
		if json.Unmarshal(raw, &f) != nil || len(f.Leaves) == 0 {
			return []engine.Violation{{Key: "harness-bad-replay-file"}}
		}
		vs, _ := checkFamily(f)
		return vs
	}
	var ch chain
	if json.Unmarshal(raw, &ch) != nil {
		return []engine.Violation{{Key: "harness-bad-replay-file"}}
	}
	vs, _ := check(ch)
	return vs
}
