package c13

import (
	"encoding/json"
	"fmt"
	"strings"

	"verif/engine"
	"verif/gen"

	"github.com/sdcio/yang-parser/schema"
)

// Default inheritance for the base types that take no range / length / pattern: union,
// enumeration, boolean, identityref.  A chain of 1-3 typedefs and a leaf; a default may be given at
// any subset of the levels; the leaf has the default of the nearest level that gives one, and a
// default the type rejects is refused at compile time.

type defChain struct {
	Base  string   `json:"base"`  // union | enumeration | boolean | identityref
	Depth int      `json:"depth"` // number of typedefs
	Defs  []string `json:"defs"`  // per level (typedef t1 .. tN, leaf): "" none
}

var defBases = map[string][2]string{ // base -> type statement body, (valid default values are in defValues)
	"union":       {"type union { type int8; type enumeration { enum any; enum auto; } }", ""},
	"enumeration": {"type enumeration { enum any; enum auto; enum x7; }", ""},
	"boolean":     {"type boolean;", ""},
	"identityref": {"type identityref { base root; }", ""},
}

var defValues = map[string][]string{ // two valid values and one invalid
	"union":       {"any", "7", "zzz"},
	"enumeration": {"any", "x7", "zzz"},
	"boolean":     {"true", "false", "zzz"},
	"identityref": {"one", "two", "zzz"},
}

func (d defChain) yang() string {
	var b strings.Builder
	b.WriteString("module a { namespace \"urn:a\"; prefix a; identity root; identity one { base root; } identity two { base root; }")
	prev := defBases[d.Base][0]
	for i := 0; i < d.Depth; i++ {
		def := ""
		if d.Defs[i] != "" {
			def = fmt.Sprintf(" default %q;", d.Defs[i])
		}
		fmt.Fprintf(&b, " typedef t%d { %s%s }", i+1, prev, def)
		prev = fmt.Sprintf("type t%d;", i+1)
	}
	def := ""
	if d.Defs[d.Depth] != "" {
		def = fmt.Sprintf(" default %q;", d.Defs[d.Depth])
	}
	fmt.Fprintf(&b, " leaf l { %s%s } }", prev, def)
	return b.String()
}

func checkDefChain(d defChain) (vs []engine.Violation, outcome string) {
	mk := func(key, detail string) {
		vs = append(vs, engine.Violation{Key: key, Witness: d.yang(), Detail: detail, Harness: "defchain", Replay: engine.JSON(d)})
	}
	want, has, valid := "", false, true
	for i := d.Depth; i >= 0; i-- { // nearest first: leaf, then the typedefs outwards
		if d.Defs[i] != "" && !has {
			want, has = d.Defs[i], true
		}
	}
	for _, x := range d.Defs {
		if x == "zzz" {
			valid = false // a default that its own type rejects, at whatever level it is written
		}
	}
	res := gen.Compile(map[string]string{"a": d.yang()}, gen.Options{})
	cls := fmt.Sprintf("%s:depth=%d", d.Base, d.Depth)
	switch res.Verdict() {
	case "panic", "nonterminating":
		mk(res.Verdict()+":default-chain:"+cls, fmt.Sprint(res.Panic))
		return vs, res.Verdict()
	case "error":
		if valid {
			mk("valid-default-chain-rejected:"+cls, res.Err.Error())
		}
		return vs, "error"
	}
	if !valid {
		mk("invalid-default-accepted:"+cls, "a default the type rejects was accepted")
		return vs, "ok-but-invalid"
	}
	lf, ok := res.MS.Child("l").(schema.Leaf)
	if !ok {
		mk("harness-default-chain-leaf-missing", "")
		return vs, "harness"
	}
	got, gotHas := lf.Default()
	if gotHas != has || (has && got != want) {
		mk("wrong-default:default-chain:"+cls, fmt.Sprintf("expected default %q/%v (nearest definition), got %q/%v", want, has, got, gotHas))
	}
	return vs, "ok"
}

func runDefaultChains(c *engine.Ctx) {
	for _, base := range []string{"union", "enumeration", "boolean", "identityref"} {
		vals := append([]string{""}, defValues[base]...)
		for depth := 1; depth <= 3; depth++ {
			defs := make([]string, depth+1)
			var rec func(i int)
			rec = func(i int) {
				if i == len(defs) {
					d := defChain{Base: base, Depth: depth, Defs: append([]string{}, defs...)}
					id := "defchain:" + d.yang()
					if !c.Owns(id) || !c.Case(id) {
						return
					}
					c.Add("states", 1)
					c.Add("transitions", int64(depth+1))
					c.Nontrivial()
					vs, outcome := checkDefChain(d)
					c.Outcome("defchain:" + outcome)
					for _, v := range vs {
						c.Report(v)
					}
					return
				}
				for _, v := range vals {
					defs[i] = v
					rec(i + 1)
				}
			}
			rec(0)
		}
	}
}

func replayDefChain(raw json.RawMessage) []engine.Violation {
	var d defChain
	if json.Unmarshal(raw, &d) != nil || d.Base == "" || len(d.Defs) != d.Depth+1 {
		return []engine.Violation{{Key: "harness-bad-replay-file"}}
	}
	vs, _ := checkDefChain(d)
	return vs
}
