// Package c01: XPath scalar evaluation follows XPath 1.0 semantics.
package c01

import (
	"encoding/json"
	"fmt"
	"sort"
	"strings"

	"verif/engine"
	"verif/ref/xp10"
	"verif/xpx"
)

func init() {
	engine.Register(&engine.Harness{
		Prop:   "C01",
		Run:    run,
		Replay: replay,
		Rule: "E1 enumeration of expression trees level by level: P0 = leaf alphabet (number and string literals, true()/false(), data-tree operands); E(k+1) = every operator / core function applied to operands from P(k) with at least one operand new at level k; " +
			"P(k+1) = P(k) plus up to R representatives per value class (exact distinct values, first = simplest) chosen among the expressions on which the implementation already agrees with the reference, so a disagreement is always attributed to the outermost application. " +
			"Each expression is compiled and run by the real code on a typed mock data tree; native result type and the three accessors are compared with the XPath 1.0 reference evaluator. Non-trivial = the application involves an implicit or explicit type conversion, a special number (NaN, +-Inf, -0, >=1e21, <1e-6, >2^53) or a node-set operand.",
		Bound: map[string]string{
			"quick":    "expression depth 2 (operator/function over leaves, then over leaves + 2 representatives per reachable value class); 3-argument functions over type-restricted pools",
			"thorough": "expression depth 3 with 3 representatives per value class at each inner level",
		},
		Assumptions: []string{
			"typed leaf values reported by the data tree are treated as scalars of that type; absent nodes and leaf-lists are node-sets",
			"a leaf-list with several values is used as an operand of comparisons and of boolean conversions (boolean(), not(), and, or) only: what string() or number() of several values is, is not stated by the property (the implementation joins the values with blanks, XPath 1.0 would take the first); empty and single-valued leaf-lists and absent nodes are used everywhere",
			"declared arity of concat is 2 and of substring 3 (function table); other arities are not part of this property",
			"values outside the leaf alphabet and deeper nestings are not covered",
		},
	})
}

var numLeaves = []string{"0", "1", "2", "3", "0.5", "1.5", "2.5", "10", "1000000000000000000000", "0.000001", "123456789012345678", "9007199254740993", ".5", "1."}
var strLeaves = []string{"", " ", "a\u00a0b", "\f1\v", "\u2028", "a", "ab", "abc", "ba", "1", " 2 ", "-1.5", "+1", "1e3", ".5", "1.", "Infinity", "NaN", "é", "aéb", "a b", "tab\tnl\n", "  a  b ", "true", "false", "0", "-0", "1 2", "- 1", "0x10", "1,5"}
var treeLeaves = []string{"n5", "n0", "nneg", "sx", "s1", "sempty", "bt", "bf", "absent"}
var listLeaves = []string{"ll0", "ll1", "lls", "lln"}

var binOps = []string{"or", "and", "=", "!=", "<", "<=", ">", ">=", "+", "-", "*", "div", "mod"}
var fn1 = []string{"boolean", "not", "number", "string", "ceiling", "floor", "round", "string-length", "normalize-space"}
var fn2 = []string{"concat", "contains", "starts-with", "substring-before", "substring-after"}

type ex struct {
	n     *xp10.Node
	v     xp10.Value
	level int
	isSet bool // direct node-set operand (tree leaf)
	list  bool // leaf-list
	multi bool // leaf-list with more than one value: operand of comparisons and of boolean conversions only
}

func pathNode(name string) *xp10.Node {
	return &xp10.Node{Op: "path", Path: &xp10.Path{Steps: []xp10.Step{{Kind: "name", Local: name}}}}
}

func isCmp(op string) bool {
	switch op {
	case "=", "!=", "<", "<=", ">", ">=":
		return true
	}
	return false
}

// wrap parenthesises operands that are operator applications so that the
// rendered string parses back to the same tree.
func wrap(n *xp10.Node) *xp10.Node {
	switch n.Op {
	case "num", "lit", "func", "path", "paren":
		return n
	}
	return &xp10.Node{Op: "paren", Kids: []*xp10.Node{n}}
}

type checker struct {
	c        *engine.Ctx
	env      xp10.Env
	keys     map[string]int
	seenVal  map[string]int  // class -> number of representatives chosen
	exact    map[string]bool // exact values already in the pool
	reps     int
	maxLevel int
}

// wanted says whether an expression with value v would be taken as a class
// representative for the next level.
func (k *checker) wanted(v xp10.Value, level int) bool {
	if level >= k.maxLevel || v.Kind == 'S' {
		return false
	}
	return k.seenVal[xp10.Class(v)] < k.reps && !k.exact[v.String()]
}

// nontrivial: conversion, special value or node-set involved.
func nontrivial(op string, args []ex, res xp10.Value) bool {
	want := byte(0)
	switch op {
	case "+", "-", "*", "div", "mod", "neg", "ceiling", "floor", "round":
		want = 'n'
	case "or", "and", "not":
		want = 'b'
	case "concat", "contains", "starts-with", "substring-before", "substring-after", "string-length", "normalize-space", "translate":
		want = 's'
	case "boolean", "number", "string":
		return true
	}
	for _, a := range args {
		if a.v.Kind == 'S' {
			return true
		}
		if want != 0 && a.v.Kind != want {
			return true
		}
		if a.v.Kind == 'n' {
			switch xp10.NumClass(a.v.N) {
			case "+int", "-int", "+half", "-half", "+frac", "-frac", "+0":
			default:
				return true
			}
		}
	}
	if isCmp(op) && args[0].v.Kind != args[1].v.Kind {
		return true
	}
	if res.Kind == 'n' {
		switch xp10.NumClass(res.N) {
		case "NaN", "+Inf", "-Inf", "-0", "+huge", "-huge", "+tiny", "-tiny", "+bigint", "-bigint":
			return true
		}
	}
	return op == "substring"
}

func usesTree(n *xp10.Node) bool {
	if n.Op == "path" {
		return true
	}
	for _, k := range n.Kids {
		if usesTree(k) {
			return true
		}
	}
	return false
}

func findingKey(op string, args []ex, why string, v xp10.Value) string {
	if strings.HasPrefix(why, "accessor:") {
		// the native result is right, a result accessor converts it wrongly
		cl := xp10.Class(v)
		if i := strings.Index(cl, ":"); i >= 0 {
			cl = cl[i+1:]
		}
		return why + "(" + cl + ")"
	}
	var cl []string
	for _, a := range args {
		c := xp10.Class(a.v)
		if a.isSet && a.v.Kind != 'S' {
			c = "leaf-" + c
		}
		cl = append(cl, c)
	}
	return fmt.Sprintf("%s(%s)", op, strings.Join(cl, ","))
}

// apply builds op(args), evaluates both sides and reports a disagreement.
// It returns the new expression and whether the implementation agrees.
func (k *checker) apply(op string, args []ex, level int, _ bool) (ex, bool, bool) {
	var n *xp10.Node
	switch {
	case op == "neg":
		n = &xp10.Node{Op: "neg", Kids: []*xp10.Node{wrap(args[0].n)}}
	case len(args) == 2 && (isCmp(op) || op == "or" || op == "and" || op == "+" || op == "-" || op == "*" || op == "div" || op == "mod"):
		n = &xp10.Node{Op: op, Kids: []*xp10.Node{wrap(args[0].n), wrap(args[1].n)}}
	default:
		n = &xp10.Node{Op: "func", Val: op}
		for _, a := range args {
			n.Kids = append(n.Kids, a.n)
		}
	}
	if isCmp(op) && ((args[0].v.Kind == 'S' && args[1].v.Kind == 'b') || (args[0].v.Kind == 'b' && args[1].v.Kind == 'S')) {
		// UNSPECIFIED: XPath 1.0 compares boolean(node-set) with the boolean, the
		// property text says an absent node is false in every comparison
		k.c.Add("unspecified_skipped", 1)
		return ex{}, false, false
	}
	v, err := xp10.Eval(n, k.env)
	if err != nil {
		return ex{}, false, false
	}
	e := ex{n: n, v: v, level: level}
	src := n.String()
	if !k.c.Owns(src) {
		// another worker executes and reports this case; this worker only needs
		// to know whether the implementation agrees when the expression is a
		// candidate representative for the next pool
		if !k.wanted(v, level) {
			return e, false, true
		}
		o := xpx.Eval(src, tree)
		ok, _ := xpx.Agrees(o, v)
		return e, ok, true
	}
	k.c.Add("states", 1)
	if !k.c.Case(src) {
		return e, false, true
	}
	o := xpx.Eval(src, tree)
	ok, why := xpx.Agrees(o, v)
	if ok && !usesTree(n) {
		// an expression without location paths gives the same through the other context constructor
		if m, err, p := xpx.Compile(src, nil); err == nil && p == nil {
			if o2 := xpx.RunMachineFromMach(m); o2.String() != o.String() {
				k.c.Report(engine.Violation{Key: "context-constructors-disagree:" + op, Witness: src,
					Detail: fmt.Sprintf("NewCtxFromCurrent: %s ; NewCtxFromMach: %s", o, o2), Harness: "expr", Replay: engine.JSON(map[string]string{"expr": src})})
			}
		}
	}
	if nontrivial(op, args, v) {
		k.c.Nontrivial()
	}
	k.c.Outcome(fmt.Sprintf("%s->%s", op, xp10.Class(v)))
	if !ok {
		key := findingKey(op, args, why, v)
		if explainedByInfinitySpelling(n, k.env, o) {
			key = "string->number('Infinity')"
		}
		k.c.Report(engine.Violation{Key: key, Witness: src,
			Detail: fmt.Sprintf("%s: XPath 1.0 gives %s ; implementation gives %s", why, xpx.Expected(v), o), Harness: "expr", Replay: engine.JSON(map[string]string{"expr": src})})
	}
	return e, ok, true
}

var tree, refVals = xpx.ScalarTree()

// explainedByInfinitySpelling re-evaluates the reference with the single named
// deviation "the strings Infinity and -Infinity convert to infinite numbers"
// and reports whether the observation agrees with that variant.
func explainedByInfinitySpelling(n *xp10.Node, env xp10.Env, o xpx.Obs) bool {
	xp10.InfinitySpelling = true
	defer func() { xp10.InfinitySpelling = false }()
	v, err := xp10.Eval(n, env)
	if err != nil {
		return false
	}
	ok, _ := xpx.Agrees(o, v)
	return ok
}

func run(c *engine.Ctx) {
	maxLevel, reps := 2, 2
	if !c.Quick() {
		maxLevel, reps = 3, 3
	}
	k := &checker{c: c, env: xpx.ScalarEnv(refVals), keys: map[string]int{}, seenVal: map[string]int{}, exact: map[string]bool{}, reps: reps, maxLevel: maxLevel}
	// P0
	var pool []ex
	for _, s := range numLeaves {
		n := &xp10.Node{Op: "num", Val: s}
		v, _ := xp10.Eval(n, nil)
		pool = append(pool, ex{n: n, v: v})
	}
	for _, s := range strLeaves {
		n := &xp10.Node{Op: "lit", Val: s}
		pool = append(pool, ex{n: n, v: xp10.Str(s)})
	}
	// the context position and size outside every predicate (1 of 1), through whichever constructor
	// the context was built
	for _, f := range []string{"position", "last"} {
		pool = append(pool, ex{n: &xp10.Node{Op: "func", Val: f}, v: xp10.Num(1)})
	}
	for _, f := range []string{"true", "false"} {
		n := &xp10.Node{Op: "func", Val: f}
		pool = append(pool, ex{n: n, v: xp10.Bool(f == "true")})
	}
	for _, s := range treeLeaves {
		pool = append(pool, ex{n: pathNode(s), v: refVals[s], isSet: true})
	}
	for _, s := range listLeaves {
		pool = append(pool, ex{n: pathNode(s), v: refVals[s], isSet: true, list: true, multi: s == "lls" || s == "lln"})
	}
	// the leaves themselves are level-0 cases
	for _, e := range pool {
		src := e.n.String()
		if c.Owns(src) && c.Case(src) && !e.list {
			c.Add("states", 1)
			o := xpx.Eval(src, tree)
			if ok, why := xpx.Agrees(o, e.v); !ok {
				key := findingKey("leaf", []ex{e}, why, e.v)
				if explainedByInfinitySpelling(e.n, k.env, o) {
					key = "string->number('Infinity')"
				}
				c.Report(engine.Violation{Key: key, Witness: src, Detail: fmt.Sprintf("%s: XPath 1.0 gives %s ; implementation gives %s", why, xpx.Expected(e.v), o), Harness: "expr", Replay: engine.JSON(map[string]string{"expr": src})})
			}
		}
	}
	c.Sample(map[string]any{"expr": "number(' 2 ') div (0 * - 1)", "kind": "depth-2 expression"})

	seenVal, exact := k.seenVal, k.exact
	for _, e := range pool {
		exact[e.v.String()] = true
	}
	for level := 1; level <= maxLevel; level++ {
		var fresh []ex
		consider := func(e ex, ok, valid bool) {
			if !valid || !ok || !k.wanted(e.v, level) {
				return
			}
			exact[e.v.String()] = true
			seenVal[xp10.Class(e.v)]++
			fresh = append(fresh, e)
		}
		isNew := func(e ex) bool { return e.level == level-1 }
		scalar := func(p []ex) []ex { // no multi-valued leaf-lists
			var out []ex
			for _, e := range p {
				if !e.multi {
					out = append(out, e)
				}
			}
			return out
		}
		sp := scalar(pool)
		// typed sub-pools for 3-argument functions
		var strs, nums []ex
		for _, e := range sp {
			switch e.v.Kind {
			case 's':
				strs = append(strs, e)
			case 'n':
				nums = append(nums, e)
			default:
				strs = append(strs, e)
				nums = append(nums, e)
			}
		}
		c.Add("transitions", int64(len(pool)))
		// unary
		for _, a := range sp {
			if c.Expired() {
				return
			}
			if !isNew(a) && level > 1 {
				continue
			}
			consider(k.apply("neg", []ex{a}, level, true))
			for _, f := range fn1 {
				consider(k.apply(f, []ex{a}, level, true))
			}
		}
		// (XPath 1.0: a node-set converts to true iff it is not empty, whatever its size)
		for _, a := range pool {
			if a.multi && (isNew(a) || level == 1) {
				consider(k.apply("boolean", []ex{a}, level, true))
				consider(k.apply("not", []ex{a}, level, true))
			}
		}
		// binary operators and 2-argument functions
		for _, a := range pool {
			for _, b := range pool {
				if c.Expired() {
					return
				}
				if level > 1 && !isNew(a) && !isNew(b) {
					continue
				}
				for _, op := range binOps {
					if (a.multi || b.multi) && !isCmp(op) && op != "or" && op != "and" {
						continue
					}
					consider(k.apply(op, []ex{a, b}, level, true))
				}
				if a.multi || b.multi {
					continue
				}
				for _, f := range fn2 {
					consider(k.apply(f, []ex{a, b}, level, true))
				}
			}
		}
		// 3-argument functions over typed pools (strings where a string is wanted,
		// numbers where a number is wanted; booleans and tree leaves in both)
		small := func(p []ex, n int) []ex {
			// keep all new members and the first n old ones
			var out []ex
			old := 0
			for _, e := range p {
				if isNew(e) && level > 1 {
					out = append(out, e)
				} else if old < n {
					out = append(out, e)
					old++
				}
			}
			return out
		}
		s3, n3 := small(strs, 14), small(nums, 12)
		if level == 1 {
			s3, n3 = strs, nums
		}
		for _, a := range s3 {
			for _, b := range n3 {
				for _, d := range n3 {
					if c.Expired() {
						return
					}
					if level > 1 && !isNew(a) && !isNew(b) && !isNew(d) {
						continue
					}
					consider(k.apply("substring", []ex{a, b, d}, level, true))
				}
			}
		}
		t3 := small(strs, 12)
		for _, a := range t3 {
			for _, b := range t3 {
				for _, d := range t3 {
					if c.Expired() {
						return
					}
					if level > 1 && !isNew(a) && !isNew(b) && !isNew(d) {
						continue
					}
					consider(k.apply("translate", []ex{a, b, d}, level, true))
				}
			}
		}
		sort.SliceStable(fresh, func(i, j int) bool { return len(fresh[i].n.String()) < len(fresh[j].n.String()) })
		pool = append(pool, fresh...)
		c.Note(fmt.Sprintf("level %d: pool grows by %d class representatives to %d", level, len(fresh), len(pool)))
	}
}

func replay(c *engine.Ctx, sub string, raw json.RawMessage) []engine.Violation {
	var r struct {
		Expr string `json:"expr"`
	}
	if json.Unmarshal(raw, &r) != nil {
		return []engine.Violation{{Key: "harness-bad-replay-file"}}
	}
	n, err := xp10.Parse(r.Expr)
	if err != nil {
		return []engine.Violation{{Key: "harness-bad-replay-file", Detail: err.Error()}}
	}
	v, err := xp10.Eval(n, xpx.ScalarEnv(refVals))
	if err != nil {
		return []engine.Violation{{Key: "harness-bad-replay-file", Detail: err.Error()}}
	}
	o := xpx.Eval(r.Expr, tree)
	if ok, why := xpx.Agrees(o, v); !ok {
		return []engine.Violation{{Key: "replayed", Witness: r.Expr, Detail: fmt.Sprintf("%s: XPath 1.0 gives %s ; implementation gives %s", why, xpx.Expected(v), o)}}
	}
	return nil
}
