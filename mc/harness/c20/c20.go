// Package c20: schema filters prune top-down and change nothing else.
package c20

import (
	"encoding/json"
	"fmt"
	"strings"

	"verif/engine"
	"verif/harness/c18"
	"verif/gen"

	"github.com/sdcio/yang-parser/compile"
)

func init() {
	engine.Register(&engine.Harness{
		Prop:   "C20",
		Run:    run,
		Replay: replay,
		Rule: "E1 over module sets x all filter combinations with a differential oracle: (1) every schema forest of the C18 generator with <= 2 (thorough: <= 3) nodes with config false on no node, each single node (thorough: each pair of nodes); (2) a generator places config true/false/absent at every position of tree skeletons (containers, lists, leaves, leaf-lists, choices with cases and default cases under containers, lists, nested lists, cases and at the module top, up to 3 levels), plus fixed sets with opd:command/option/argument nodes, lists whose key is the only configuration node, choices whose default case is state-only, groupings/augments/rpcs; each set is compiled without a filter and with each of 21 filters (nil, IsConfig, IsState, IsOpd, IsConfigOrState, Include and Exclude of every subset of the three predicates, IncludeState true/false). " +
			"The dump of the filtered compile must equal the dump of the unfiltered compile after removing every node that fails the filter together with its subtree (the predicates are re-implemented on the dump's own kind/config fields); a filter must never turn a compilable set into an error. Non-trivial = the filter removes at least one node but not all.",
		Bound: map[string]string{
			"quick":    "10 skeletons with 4 config positions x 3 values + 16 fixed sets, x 21 filters",
			"thorough": "skeletons with <= 6 config positions",
		},
		Assumptions: []string{"defchildren/hasdefault of a parent legitimately change when a child carrying a default is pruned: these two derived fields are recomputed by the pruning reference"},
	})
}

type filt struct {
	Name string
	F    compile.SchemaFilter
	Keep func(kind string, config bool) bool
}

func isOpdKind(k string) bool {
	return k == "opd:command" || k == "opd:option" || k == "opd:argument"
}

func filters() []filt {
	pc := func(k string, c bool) bool { return c }
	po := func(k string, c bool) bool { return isOpdKind(k) }
	ps := func(k string, c bool) bool { return !c && !isOpdKind(k) }
	preds := []struct {
		n string
		f compile.SchemaFilter
		p func(string, bool) bool
	}{{"IsConfig", compile.IsConfig, pc}, {"IsState", compile.IsState, ps}, {"IsOpd", compile.IsOpd, po}}
	out := []filt{
		{"nil", nil, func(string, bool) bool { return true }},
		{"IsConfig", compile.IsConfig, pc}, {"IsState", compile.IsState, ps}, {"IsOpd", compile.IsOpd, po},
		{"IsConfigOrState()", compile.IsConfigOrState(), func(k string, c bool) bool { return pc(k, c) || ps(k, c) }},
		{"IncludeState(true)", compile.IncludeState(true), ps},
		{"IncludeState(false)", compile.IncludeState(false), func(k string, c bool) bool { return !ps(k, c) }},
	}
	for mask := 0; mask < 8; mask++ {
		var fs []compile.SchemaFilter
		var ps2 []func(string, bool) bool
		var names []string
		for i, p := range preds {
			if mask&(1<<i) != 0 {
				fs = append(fs, p.f)
				ps2 = append(ps2, p.p)
				names = append(names, p.n)
			}
		}
		ps3 := ps2
		out = append(out, filt{"Include(" + strings.Join(names, ",") + ")", compile.Include(fs...), func(k string, c bool) bool {
			for _, p := range ps3 {
				if p(k, c) {
					return true
				}
			}
			return false
		}})
		if mask != 0 {
			out = append(out, filt{"Exclude(" + strings.Join(names, ",") + ")", compile.Exclude(fs...), func(k string, c bool) bool {
				for _, p := range ps3 {
					if p(k, c) {
						return false
					}
				}
				return true
			}})
		}
	}
	return out
}

// prune removes every record whose node fails keep, with its subtree.  The dump
// lists a node under several alias paths (the data view, in which choices and
// cases are transparent, and the structural view through {choice ...} elements):
// a node that is removed under one alias is removed under all of them.
func prune(recs []gen.Rec, keep func(kind string, config bool) bool) []gen.Rec {
	kindAt := map[string]string{}
	for _, r := range recs {
		kindAt[r.Path] = r.Fields["kind"]
	}
	// canonical data path of a record: choice and case elements dropped, a data
	// node reached through a {choice name} element called by its name
	canon := func(path string) string {
		parts := strings.Split(path, "/")
		var out []string
		for i, el := range parts {
			if strings.HasPrefix(el, "{choice ") {
				k := kindAt[strings.Join(parts[:i+1], "/")]
				if (k == "choice" || k == "case") && i != len(parts)-1 {
					continue
				}
				if k != "choice" && k != "case" {
					el = strings.TrimSuffix(strings.TrimPrefix(el, "{choice "), "}")
				}
			}
			out = append(out, el)
		}
		return strings.Join(out, "/")
	}
	isTree := func(p string) bool { return strings.HasPrefix(p, "/") || strings.Contains(p, "/") }
	var cut []string
	under := func(p string, set []string) bool {
		for _, c := range set {
			if p == c || strings.HasPrefix(p, c+"/") {
				return true
			}
		}
		return false
	}
	for _, r := range recs {
		if !isTree(r.Path) || under(r.Path, cut) {
			continue
		}
		if kind, ok := r.Fields["kind"]; ok && !keep(kind, r.Fields["config"] == "true") {
			cut = append(cut, r.Path)
		}
	}
	var dead []string
	for _, r := range recs {
		if isTree(r.Path) && under(r.Path, cut) {
			dead = append(dead, canon(r.Path))
		}
	}
	var out []gen.Rec
	for _, r := range recs {
		if isTree(r.Path) && (under(r.Path, cut) || under(canon(r.Path), dead)) {
			continue
		}
		out = append(out, r)
	}
	return out
}

// strip removes fields that legitimately depend on the presence of children.
func render(recs []gen.Rec) string {
	var b strings.Builder
	for _, r := range recs {
		f := map[string]string{}
		for k, v := range r.Fields {
			if k == "defchildren" || k == "hasdefault" {
				continue
			}
			f[k] = v
		}
		b.WriteString(gen.Rec{Path: r.Path, Fields: f}.String())
		b.WriteByte('\n')
	}
	return b.String()
}

type rec struct {
	Mods   map[string]string `json:"mods"`
	Name   string            `json:"name"`
	Filter string            `json:"filter"`
}

func entryPointsToo(name string) bool {
	if strings.HasPrefix(name, "fixed:") {
		return true
	}
	h := 0
	for _, c := range name {
		h = h*31 + int(c)
	}
	return h&entryMask == 0
}

// entryMask: which generated / skeleton schemas also go through the other entry points (a deterministic
// subset chosen by name: one in 64 in the quick tier, one in 16 in the thorough tier; the fixed sets: all)
var entryMask = 63

func check(name string, mods map[string]string, f filt, base []gen.Rec) (vs []engine.Violation, removed, total int) {
	mk := func(key, detail string) {
		vs = append(vs, engine.Violation{Key: key, Witness: name + " filter=" + f.Name, Detail: detail + "\n" + fmt.Sprint(mods), Harness: "filter", Replay: engine.JSON(rec{mods, name, f.Name})})
	}
	r := gen.Compile(mods, gen.Options{Filter: f.F})
	switch r.Verdict() {
	case "panic", "nonterminating":
		mk("filtered-compile-"+r.Verdict()+":"+f.Name, fmt.Sprint(r.Panic))
		return
	case "error":
		mk("filter-makes-compile-fail:"+f.Name, r.Err.Error())
		return
	}
	// the same filter through every other public entry point: same filtered schema (the fixed
	// sets: all; generated and skeleton schemas: one in 64, chosen by name)
	if entryPointsToo(name) {
		for _, d := range gen.EntryPointDisagreements(mods, gen.Options{Filter: f.F}, r) {
			mk("filter-entry-points-disagree:"+strings.SplitN(d, ":", 2)[0]+":"+f.Name, d)
		}
	}
	// the filtered compile leaves the parse trees as it found them: the SAME trees compiled once more
	// without a filter give the unfiltered schema
	if r2 := gen.CompileTwice(mods, gen.Options{Filter: f.F}); !r2.OK() {
		mk("unfiltered-compile-after-a-filtered-one-fails:"+f.Name, fmt.Sprint(r2.Stage, ": ", r2.Err, r2.Panic))
	} else if d2 := render(gen.Dump(r2.MS, gen.DumpOpts{})); d2 != render(base) {
		mk("filtered-compile-changes-the-parse-trees:"+f.Name, gen.FirstDiff(render(base), d2))
	}
	want := prune(base, f.Keep)
	got := gen.Dump(r.MS, gen.DumpOpts{})
	total, removed = len(base), len(base)-len(want)
	ws, gs := render(want), render(got)
	if ws != gs {
		kind := "different-node"
		if len(got) > len(want) {
			kind = "node-survives-that-fails-the-filter-or-lies-below-one"
		} else if len(got) < len(want) {
			kind = "node-removed-that-passes-the-filter"
		}
		mk("filtered-schema-differs:"+kind+":"+f.Name, gen.FirstDiff(ws, gs))
	}
	return
}

// ---------------------------------------------------------------- module sets

type skel struct {
	render func(cfg []string) string
	n      int
}

func cfgStmt(v string) string {
	if v == "" {
		return ""
	}
	return " config " + v + ";"
}

func skeletons() []skel {
	return []skel{
		{func(c []string) string {
			return fmt.Sprintf("container a {%s leaf l1 { type string;%s } container b {%s leaf l2 { type string;%s default d; } } }", cfgStmt(c[0]), cfgStmt(c[1]), cfgStmt(c[2]), cfgStmt(c[3]))
		}, 4},
		{func(c []string) string {
			return fmt.Sprintf("list li {%s key k; leaf k { type string; } leaf v { type string;%s } leaf-list ll { type string;%s } container in {%s leaf x { type string; } } }", cfgStmt(c[0]), cfgStmt(c[1]), cfgStmt(c[2]), cfgStmt(c[3]))
		}, 4},
		{func(c []string) string {
			return fmt.Sprintf("container c {%s choice ch {%s default c1; case c1 { leaf a1 { type string;%s } } case c2 { leaf b1 { type string;%s } } } }", cfgStmt(c[0]), cfgStmt(c[1]), cfgStmt(c[2]), cfgStmt(c[3]))
		}, 4},
		{func(c []string) string {
			return fmt.Sprintf("container top {%s container mid {%s container low {%s leaf deep { type string;%s } } leaf m { type string; } } leaf t { type string; } }", cfgStmt(c[0]), cfgStmt(c[1]), cfgStmt(c[2]), cfgStmt(c[3]))
		}, 4},
		// config on the key leaf itself (a read-only key in a configuration list compiles here), key not first
		{func(c []string) string {
			return fmt.Sprintf("list li {%s key k; leaf v { type string;%s } leaf k { type string;%s } container in {%s leaf x { type string; } } leaf-list ll { type string; } }", cfgStmt(c[0]), cfgStmt(c[1]), cfgStmt(c[2]), cfgStmt(c[3]))
		}, 4},
		{func(c []string) string {
			return fmt.Sprintf("container o {%s list li { key \"k1 k2\"; leaf k1 { type string;%s } leaf k2 { type string;%s } leaf v { type string;%s } leaf w { type string; } } }", cfgStmt(c[0]), cfgStmt(c[1]), cfgStmt(c[2]), cfgStmt(c[3]))
		}, 4},
		// a choice with a default case directly under a list / at the top of the module /
		// inside a case of another choice / under a list inside a list
		{func(c []string) string {
			return fmt.Sprintf("list li {%s key k; leaf k { type string; } choice ch {%s default c1; case c1 { leaf a1 { type string;%s } } case c2 { leaf b1 { type string;%s } } } }", cfgStmt(c[0]), cfgStmt(c[1]), cfgStmt(c[2]), cfgStmt(c[3]))
		}, 4},
		{func(c []string) string {
			return fmt.Sprintf("choice ch {%s default c1; case c1 { leaf a1 { type string;%s } } case c2 { container b {%s leaf b1 { type string;%s } } } }", cfgStmt(c[0]), cfgStmt(c[1]), cfgStmt(c[2]), cfgStmt(c[3]))
		}, 4},
		{func(c []string) string {
			return fmt.Sprintf("container o {%s choice outer { case oc { choice ch {%s default c1; case c1 { leaf a1 { type string;%s } } case c2 { leaf b1 { type string;%s } } } } leaf alt { type string; } } }", cfgStmt(c[0]), cfgStmt(c[1]), cfgStmt(c[2]), cfgStmt(c[3]))
		}, 4},
		{func(c []string) string {
			return fmt.Sprintf("list lo {%s key k; leaf k { type string; } list li {%s key j; leaf j { type string; } choice ch {%s default c1; leaf c1 { type string; } leaf c2 { type string;%s } } leaf-list ll { type string; } } }", cfgStmt(c[0]), cfgStmt(c[1]), cfgStmt(c[2]), cfgStmt(c[3]))
		}, 4},
	}
}

func fixedSets() map[string]map[string]string {
	h := func(m, body string) string {
		return fmt.Sprintf("module %s { namespace \"urn:%s\"; prefix %s; %s }", m, m, m, body)
	}
	return map[string]map[string]string{
		"key-only-config":      {"a": h("a", "list li { key k; leaf k { type string; } leaf s1 { type string; config false; } container sc { config false; leaf s2 { type string; } } }")},
		"default-case-state":   {"a": h("a", "container c { choice ch { default st; case st { leaf s { type string; config false; default x; } } case cf { leaf cl { type string; } } } }")},
		"state-choice":         {"a": h("a", "container c { choice ch { config false; default st; case st { leaf s { type string; } } leaf other { type string; } } leaf cfg { type string; } }")},
		"opd":                  {"a": h("a", "opd:command cmd { opd:argument arg { type string; } opd:option opt { type string; opd:command sub; } } container c { leaf l { type string; } leaf s { type string; config false; } }")},
		"opd-only":             {"a": h("a", "opd:command show { opd:command interfaces { opd:argument name { type string; } } }")},
		// opd nodes below state and below config nodes (directly, through a grouping, through a list): they
		// are neither config nor state, wherever they stand
		"opd-below-state":      {"a": h("a", "grouping og { opd:command show { opd:option detail { type string; } } leaf gl { type string; } } container oper { config false; uses og; leaf s { type string; } list peer { key k; leaf k { type string; } container inner { uses og; } } } container cfg { uses og; leaf c { type string; } container st { config false; container in2 { uses og; } } }")},
		"all-state":            {"a": h("a", "container c { config false; leaf l { type string; } list li { key k; leaf k { type string; } } }")},
		"all-config":           {"a": h("a", "container c { leaf l { type string; default d; } list li { key k; leaf k { type string; } } }")},
		"grouping-state":       {"a": h("a", "grouping g { leaf gs { type string; config false; } leaf gc { type string; } } container c { uses g; } container sc { config false; uses g { refine gc { description x; } } }")},
		"augment-state":        {"a": h("a", "container c { leaf l { type string; } }"), "b": "module b { namespace \"urn:b\"; prefix b; import a { prefix a; } augment /a:c { leaf bs { type string; config false; } leaf bc { type string; } } }"},
		"rpc-notification":     {"a": h("a", "rpc r { input { leaf i { type string; } } output { leaf o { type string; } } } notification n { leaf nl { type string; } } container c { leaf l { type string; config false; } }")},
		"mixed-depth":          {"a": h("a", "container a1 { container a2 { config false; container a3 { leaf a4 { type string; } } } leaf b2 { type string; } container c2 { leaf c3 { type string; config false; } leaf c4 { type string; } } }")},
		"leaflist-and-defaults": {"a": h("a", "container c { leaf-list ll { type string; config false; } leaf d1 { type string; default a; } leaf d2 { type string; config false; default b; } container n { leaf d3 { type string; config false; default c; } } }")},
		"must-when":            {"a": h("a", "container c { must \"l = 'x'\"; leaf l { type string; } leaf s { type string; config false; when \"../l\"; } }")},
		"choice-default-in-rpc-and-grouping": {"a": h("a", "grouping g { choice gch { default g1; leaf g1 { type string; } leaf g2 { type string; config false; } } } list li { key k; leaf k { type string; } uses g; } rpc r { input { choice ich { default i1; leaf i1 { type string; } leaf i2 { type string; } } } } container st { config false; list sl { key k; leaf k { type string; } uses g; } }")},
		"choice-default-augmented-into-list": {"a": h("a", "list li { key k; leaf k { type string; } }"), "b": "module b { namespace \"urn:b\"; prefix b; import a { prefix a; } augment /a:li { choice bch { config false; default b1; leaf b1 { type string; } leaf b2 { type string; } } } }"},
		"two-modules":          {"a": h("a", "container ca { leaf l { type string; } leaf s { type string; config false; } }"), "b": "module b { namespace \"urn:b\"; prefix b; container cb { config false; leaf l { type string; } } leaf top { type string; } }"},
	}
}

// runGenerated: every schema forest of the C18 generator, with "config false" placed on no node, on
// each single node, and (thorough) on each pair of nodes, x every filter.
func runGenerated(c *engine.Ctx, doSet func(name string, mods map[string]string)) {
	sb := 2
	if !c.Quick() {
		sb = 3
	}
	all := c18.GenSchemas(sb)
	// every schema a second time with names that are unique among siblings only
	for _, g := range all[:len(all):len(all)] {
		all = append(all, c18.RenameShared(g))
	}
	n := 0
	for gi, g := range all {
		if c.Expired() {
			return
		}
		nodes := len(c18.Nodes(g))
		var placements [][]int
		placements = append(placements, nil)
		for i := 0; i < nodes; i++ {
			placements = append(placements, []int{i})
			if !c.Quick() {
				for j := i + 1; j < nodes; j++ {
					placements = append(placements, []int{i, j})
				}
			}
		}
		for _, pl := range placements {
			k := c18.Clone(g)
			ns := c18.Nodes(k)
			for _, i := range pl {
				ns[i].Config = "false"
			}
			text := "module a { namespace \"urn:a\"; prefix a; " + c18.SchemaText(k) + " }"
			doSet(fmt.Sprintf("gen%d:%v:%s", gi, pl, c18.SchemaText(k)), map[string]string{"a": text})
			n++
		}
	}
	c.Note(fmt.Sprintf("generated schemas of <= %d nodes with config false on 0, 1%s nodes: %d module sets", sb, map[bool]string{true: "", false: ", 2"}[c.Quick()], n))
}

func run(c *engine.Ctx) {
	if !c.Quick() {
		entryMask = 15
	}
	fs := filters()
	c.Note(fmt.Sprintf("%d filters", len(fs)))
	doSet := func(name string, mods map[string]string) {
		if !c.Owns(name) {
			return
		}
		base := gen.Compile(mods, gen.Options{})
		if !base.OK() {
			c.Add("unfiltered_compile_fails_skipped", 1)
			c.Outcome("base:" + base.Verdict())
			if strings.HasPrefix(name, "fixed:") {
				// the hand-written sets are meant to compile: not to be skipped silently
				c.Report(engine.Violation{Key: "harness-fixed-set-does-not-compile", Witness: name, Detail: fmt.Sprint(base.Err, base.Panic)})
			}
			return
		}
		recs := gen.Dump(base.MS, gen.DumpOpts{})
		for _, f := range fs {
			if c.Expired() {
				return
			}
			if !c.Case(name + ":" + f.Name) {
				continue
			}
			c.Add("states", 1)
			c.Add("transitions", 1)
			vs, removed, total := check(name, mods, f, recs)
			if removed > 0 && removed < total {
				c.Nontrivial()
			}
			c.Outcome(fmt.Sprintf("removed-some=%v:viol=%v", removed > 0, len(vs) > 0))
			for _, v := range vs {
				c.Report(v)
			}
		}
	}
	for name, mods := range fixedSets() {
		doSet("fixed:"+name, mods)
	}
	runGenerated(c, doSet)
	vals := []string{"", "true", "false"}
	for si, sk := range skeletons() {
		cfg := make([]string, sk.n)
		var rec func(i int)
		rec = func(i int) {
			if c.Expired() {
				return
			}
			if i == sk.n {
				body := sk.render(cfg)
				doSet(fmt.Sprintf("skel%d:%v", si, cfg), map[string]string{"a": "module a { namespace \"urn:a\"; prefix a; " + body + " }"})
				return
			}
			for _, v := range vals {
				cfg[i] = v
				rec(i + 1)
			}
		}
		rec(0)
	}
	if !c.Quick() {
		// two skeletons side by side: 6-8 positions
		sks := skeletons()
		for i := range sks {
			for j := i + 1; j < len(sks); j++ {
				cfg := make([]string, 6)
				var rec func(k int)
				rec = func(k int) {
					if c.Expired() {
						return
					}
					if k == 6 {
						c1 := append(append([]string{}, cfg[:3]...), "")
						c2 := append(append([]string{}, cfg[3:]...), "")
						doSet(fmt.Sprintf("pair%d-%d:%v", i, j, cfg), map[string]string{"a": "module a { namespace \"urn:a\"; prefix a; " + sks[i].render(c1) + " " + sks[j].render(c2) + " }"})
						return
					}
					for _, v := range vals {
						cfg[k] = v
						rec(k + 1)
					}
				}
				rec(0)
			}
		}
	}
	c.Sample(map[string]any{"set": "fixed:key-only-config", "filter": "IsState", "expect": "the whole list is removed (the list node is config true)"})
}

func replay(c *engine.Ctx, sub string, raw json.RawMessage) []engine.Violation {
	var r rec
	if json.Unmarshal(raw, &r) != nil {
		return []engine.Violation{{Key: "harness-bad-replay-file"}}
	}
	base := gen.Compile(r.Mods, gen.Options{})
	if !base.OK() {
		return nil
	}
	for _, f := range filters() {
		if f.Name == r.Filter {
			vs, _, _ := check(r.Name, r.Mods, f, gen.Dump(base.MS, gen.DumpOpts{}))
			return vs
		}
	}
	return []engine.Violation{{Key: "harness-bad-replay-file"}}
}
