// Package c04: exactly the supported XPath and leafref path syntax is accepted.
package c04

import (
	"encoding/json"
	"fmt"
	"regexp"
	"sort"
	"strconv"
	"strings"

	"verif/engine"
	"verif/ref/patharg"
	"verif/ref/xp10"

	"github.com/sdcio/yang-parser/xpath/grammars/expr"
	"github.com/sdcio/yang-parser/xpath/grammars/leafref"
)

func init() {
	engine.Register(&engine.Harness{
		Prop:   "C04",
		Run:    run,
		Replay: replay,
		Rule: "E1 over token sequences: every sequence up to the length bound over the token alphabet, rendered blank-separated and concatenated, is given to expr.NewExprMachine / leafref.NewLeafrefMachine and to a three-valued reference (XPath 1.0 tokenizer+parser with the section 3.7 rules, core-subset classifier; RFC 6020 path-arg recogniser); " +
			"plus every single-token deletion, replacement and insertion (whole alphabet, every position) on a corpus of well-formed expressions and on all path-arg derivations of bounded size. UNSPECIFIED strings are counted and skipped. Non-trivial = the reference decides MUST_ACCEPT, or MUST_REJECT for a reason other than a lexical error in the first token.",
		Bound: map[string]string{
			"quick":    "expr: all sequences of <=3 tokens over 63 tokens (2 renderings) and <=4 over a 24-token structural sub-alphabet; corpus x single-token mutations. leafref: all sequences of <=5 over 20 tokens and <=4 over all 26; all path-arg derivations with <=2 steps, <=1 predicate x single-token mutations",
			"thorough": "expr: <=4 tokens over 63 tokens, <=5 over the structural sub-alphabet; leafref: <=6 over 26 tokens, <=8 over the 9 structural tokens; derivations with <=3 steps, <=2 predicates x single-token mutations",
		},
		Assumptions: []string{
			"prefix map knows only 'p'",
			"valid XPath 1.0 outside the core subset (filter predicates, paths rooted at arbitrary filter expressions, unions of non-paths, deref of a non-path) is UNSPECIFIED",
			"declared arities are transcribed from the function table documentation",
		},
	})
}

func mapFn(prefix string) (string, error) {
	switch prefix {
	case "":
		return "", nil
	case "p":
		return "urn:p", nil
	case "xmlp", "XMLq":
		// known to the prefix map, so that only the "identifier must not start with xml" rule can reject it
		return "urn:x", nil
	}
	return "", fmt.Errorf("unknown import %s", prefix)
}

func knownPrefix(p string) bool { return p == "p" || p == "xmlp" || p == "XMLq" }

var exprTokens = []string{
	"a", "(", ")", "/", "[", "]", "=", "'s'", "1", ",", ".", "..", "*", "-", "+", "|", "div", "and", "or", "mod",
	"concat", "current", "deref", "true", "string", "count", "p:a", "p:*", "p", ":", "q:a", "foo", "node", "text", "child", "::", "@", "//",
	"!=", "<", "<=", ">", ">=", "$", "!", "\"s\"", "'s", "1.5", ".5", "1.", "1e5", "\x00", "\xff", "#", "é", "'\xff'", "''", "comment", "self", "ancestor", "xml",
	"'", "\"", // a lone quote: an unterminated literal, empty when it is the last character
	"AND", "Div", "oR", "Concat", "Current", // names are case-sensitive: these are ordinary names, not operators or functions
	"\u00a0", "\f", // white space that is not ExprWhitespace (XPath 1.0 [39] S: #x20 #x9 #xD #xA)
}
var exprStructural = []string{"a", "(", ")", "/", "[", "]", "=", "'s'", "1", ",", ".", "..", "*", "-", "div", "and", "concat", "current", "deref", "true", "p:a", "|", "string", "<"}

var exprCorpus = [][]string{
	{"a", "=", "'s'"}, {"/", "a", "/", "p:a", "[", "a", "=", "'s'", "]", "/", "a"}, {"..", "/", "a"}, {"current", "(", ")", "/", "..", "/", "a"},
	{"deref", "(", "current", "(", ")", "/", "..", "/", "a", ")", "/", "..", "/", "a"}, {"concat", "(", "a", ",", "'s'", ")"},
	{"string", "(", "a", ")", "=", "'s'", "or", "true", "(", ")"}, {"a", "[", "a", "=", "1", "]", "[", "p:a", "=", "current", "(", ")", "/", "a", "]"},
	{"-", "a", "*", "1", "div", "(", "1", "+", "1", ")"}, {"a", "|", "/", "a"}, {"count", "(", "a", ")", ">=", "1"}, {"a", "/", "*"}, {"div", "div", "div"},
	{"substring", "(", "a", ",", "1", ",", "1", ")"}, {"not", "(", "a", "<", "1", ")", "and", "a", "!=", "\"s\""},
	// prefixed names written as three tokens, so that single-token mutations fall inside the QName
	{"p", ":", "a"}, {"/", "p", ":", "a", "[", "p", ":", "a", "=", "1", "]", "/", "p", ":", "*"}, {"concat", "(", "p", ":", "a", ",", "'s'", ")"},
}

var lrTokens = []string{"/", "a", "..", "[", "]", "=", "current", "(", ")", "p:a", "b", "q:a", "xmla", "*", ".", "1", "'x'", "!=", "|", "\u00a0", "bé", "a·b", "é", "xmlp:a", "p:xmla", "XMLq:a",
	"p:current", "q:current"} // a prefixed function name: no path-arg has one, whatever the prefix

// leafref paths whose prefixed names are written as three tokens (mutation bases)
var lrSplitCorpus = [][]string{{"..", "/", "p", ":", "a"}, {"/", "p", ":", "a", "/", "a", "[", "p", ":", "a", "=", "current", "(", ")", "/", "..", "/", "p", ":", "a", "]", "/", "a"}}
var lrStructural = []string{"/", "a", "..", "[", "]", "=", "current", "(", ")"}

type rec struct {
	Lang string `json:"lang"`
	Src  string `json:"src_quoted"`
}

func implAccepts(lang, src string) (ok bool, msg string, panicked any) {
	defer func() {
		if r := recover(); r != nil {
			panicked = r
		}
	}()
	var err error
	if lang == "expr" {
		_, err = expr.NewExprMachine(src, mapFn)
	} else {
		_, err = leafref.NewLeafrefMachine(src, mapFn)
	}
	if err != nil {
		return false, err.Error(), nil
	}
	return true, "", nil
}

func customAccepts(src string) (ok bool, msg string, panicked any) {
	defer func() {
		if r := recover(); r != nil {
			panicked = r
		}
	}()
	if _, err := expr.NewExprMachineWithCustomFunctions(src, mapFn); err != nil {
		return false, err.Error(), nil
	}
	return true, "", nil
}

func classify(lang, src string) (int, string) {
	if lang == "expr" {
		v, why := xp10.ClassifyCore(src, knownPrefix)
		return int(v), why
	}
	if src == "" {
		return int(patharg.MustReject), "empty"
	}
	v, why := patharg.Classify(src, map[string]bool{"p": true, "xmlp": true, "XMLq": true})
	return int(v), why
}

const (
	unspecified = 0
	mustAccept  = 1
	mustReject  = 2
)

// disagreement returns "" when implementation and reference agree (or the
// reference is silent), else "accepts" / "rejects" / "panics".
func disagreement(lang, src string) (string, string) {
	v, why := classify(lang, src)
	ok, msg, p := implAccepts(lang, src)
	switch {
	case p != nil:
		return "panics", fmt.Sprint(p)
	case v == mustAccept && !ok:
		return "rejects", "reference: MUST_ACCEPT; implementation: " + firstLines(msg)
	case v == mustReject && ok:
		return "accepts", "reference: MUST_REJECT (" + why + "); implementation compiles it"
	}
	return "", ""
}

func firstLines(s string) string {
	s = strings.ReplaceAll(strings.TrimSpace(s), "\n", " | ")
	if len(s) > 200 {
		s = s[:200]
	}
	return s
}

func render(toks []string, sep string) string { return strings.Join(toks, sep) }

// shrink deletes tokens while the same kind of disagreement persists.
func shrink(lang string, toks []string, sep, kind string) []string {
	cur := append([]string{}, toks...)
	for changed := true; changed; {
		changed = false
		for i := range cur {
			cand := append(append([]string{}, cur[:i]...), cur[i+1:]...)
			if len(cand) == 0 {
				continue
			}
			if k, _ := disagreement(lang, render(cand, sep)); k == kind {
				cur, changed = cand, true
				break
			}
		}
	}
	return cur
}

type runner struct {
	c *engine.Ctx
}

func (r *runner) one(lang string, toks []string, sep string) {
	src := render(toks, sep)
	id := lang + ":" + strconv.Quote(src)
	if !r.c.Case(id) {
		return
	}
	v, why := classify(lang, src)
	ok, msg, p := implAccepts(lang, src)
	cls := [...]string{"unspecified", "must-accept", "must-reject"}[v]
	r.c.Outcome(fmt.Sprintf("%s:%s:impl-accepts=%v", lang, cls, ok))
	if v == unspecified {
		r.c.Add("unspecified_skipped", 1)
	}
	if v == mustAccept || (v == mustReject && len(toks) > 1) {
		r.c.Nontrivial()
	}
	if lang == "expr" && p == nil {
		// the constructor that also admits registered custom functions decides the same way (no custom
		// function is registered here): same verdict for every string
		ok2, msg2, p2 := customAccepts(src)
		if p2 != nil || ok2 != ok {
			r.c.Report(engine.Violation{Key: fmt.Sprintf("constructors-disagree:NewExprMachineWithCustomFunctions:plain=%v:custom=%v", ok, ok2), Witness: lang + ":" + strconv.Quote(src),
				Detail: fmt.Sprintf("NewExprMachine accepts=%v (%s); NewExprMachineWithCustomFunctions accepts=%v panic=%v (%s)", ok, firstLines(msg), ok2, p2, firstLines(msg2)), Harness: "c04", Replay: engine.JSON(rec{lang, strconv.Quote(src)})})
		}
	}
	kind, detail := "", ""
	switch {
	case p != nil:
		kind, detail = "panics", fmt.Sprint(p)
	case v == mustAccept && !ok:
		kind, detail = "rejects", "reference: MUST_ACCEPT; implementation: "+firstLines(msg)
	case v == mustReject && ok:
		kind, detail = "accepts", "reference: MUST_REJECT ("+why+"); implementation compiles it"
	}
	if kind == "" {
		return
	}
	var keys []string
	if lang == "expr" {
		keys = explainedByVariants(src, ok)
	}
	if len(keys) == 0 {
		core := shrink(lang, toks, sep, kind)
		keys = []string{fmt.Sprintf("%s-%s:%s", lang, kind, strconv.Quote(render(core, sepName(sep))))}
	}
	for _, key := range keys {
		r.c.Report(engine.Violation{Key: key, Witness: lang + ":" + strconv.Quote(src), Detail: detail, Harness: "c04", Replay: engine.JSON(rec{lang, strconv.Quote(src)})})
	}
}

// explainedByVariants re-runs the reference with named deviations switched on
// (singly first, then in combination); when the implementation's verdict then
// agrees, the disagreement is attributed to exactly those deviations.
func explainedByVariants(src string, implOK bool) []string {
	names := []string{"expr-accepts:number-with-exponent", "expr-accepts:empty-parentheses", "expr-accepts:white-space-inside-qname"}
	agrees := func(mask int) bool {
		xp10.VariantExponentNumbers = mask&1 != 0
		xp10.VariantEmptyParens = mask&2 != 0
		defer func() { xp10.VariantExponentNumbers, xp10.VariantEmptyParens = false, false }()
		text := src
		if mask&4 != 0 {
			// white space around the ':' of a QName
			text = qnameWS.ReplaceAllString(src, "$1:$2")
			if text == src {
				return false
			}
		}
		v, _ := xp10.ClassifyCore(text, knownPrefix)
		if mask&4 != 0 && mask == 4 {
			return (v == xp10.MustAccept && implOK) || v == xp10.Unspecified
		}
		return (v == xp10.MustAccept && implOK) || (v == xp10.MustReject && !implOK) || v == xp10.Unspecified
	}
	for _, mask := range []int{1, 2, 4, 3, 5, 6, 7} { // smallest sets first
		if agrees(mask) {
			var ks []string
			for i, n := range names {
				if mask&(1<<i) != 0 {
					ks = append(ks, n)
				}
			}
			return ks
		}
	}
	return nil
}

var qnameWS = regexp.MustCompile(`([^ \t\r\n:])[ \t\r\n]*:[ \t\r\n]*([^ \t\r\n:])`)

func sepName(sep string) string {
	if sep == "" {
		return "·"
	}
	return " "
}

func (r *runner) sequences(lang string, alpha []string, maxLen int, tag string) {
	c := r.c
	var rec func(toks []string)
	rec = func(toks []string) {
		if c.Expired() {
			return
		}
		if len(toks) >= 2 || c.Shard == 0 {
			if len(toks) > 0 {
				c.Add("states", 1)
				r.one(lang, toks, " ")
				if len(toks) > 1 {
					r.one(lang, toks, "")
				}
			}
		}
		if len(toks) == maxLen {
			return
		}
		for _, a := range alpha {
			next := append(append([]string{}, toks...), a)
			if len(next) == 2 && !c.Owns(tag+strings.Join(next, "\x01")) {
				continue
			}
			c.Add("transitions", 1)
			rec(next)
		}
	}
	rec(nil)
}

func (r *runner) mutations(lang string, base []string, alpha []string, tag string) {
	c := r.c
	try := func(id string, toks []string) {
		if c.Expired() || !c.Owns(id) {
			return
		}
		c.Add("states", 1)
		c.Add("transitions", 1)
		r.one(lang, toks, " ")
		r.one(lang, toks, "")
	}
	try(tag+":base", base)
	for i := 0; i <= len(base); i++ {
		for ai, a := range alpha {
			ins := append(append(append([]string{}, base[:i]...), a), base[i:]...)
			try(fmt.Sprintf("%s:ins:%d:%d", tag, i, ai), ins)
			if i < len(base) {
				rep := append(append(append([]string{}, base[:i]...), a), base[i+1:]...)
				try(fmt.Sprintf("%s:rep:%d:%d", tag, i, ai), rep)
			}
		}
		if i < len(base) {
			del := append(append([]string{}, base[:i]...), base[i+1:]...)
			try(fmt.Sprintf("%s:del:%d", tag, i), del)
		}
		if i+1 < len(base) {
			sw := append([]string{}, base...)
			sw[i], sw[i+1] = sw[i+1], sw[i]
			try(fmt.Sprintf("%s:swap:%d", tag, i), sw)
		}
	}
}

// derivations enumerates path-arg derivations of bounded size as token lists.
func derivations(maxSteps, maxPreds int) [][]string {
	names := []string{"a", "p:a"}
	var keyPaths [][]string
	for ups := 1; ups <= 2; ups++ {
		for n := 1; n <= 2; n++ {
			kp := []string{"current", "(", ")", "/"}
			for i := 0; i < ups; i++ {
				kp = append(kp, "..", "/")
			}
			for i := 0; i < n; i++ {
				if i > 0 {
					kp = append(kp, "/")
				}
				kp = append(kp, "a")
			}
			keyPaths = append(keyPaths, kp)
		}
	}
	var preds [][]string // one predicate
	for _, kp := range keyPaths {
		preds = append(preds, append(append([]string{"[", "a", "="}, kp...), "]"))
	}
	var stepForms [][]string // node-identifier *predicate
	for _, nm := range names {
		stepForms = append(stepForms, []string{nm})
		if maxPreds >= 1 {
			for _, p := range preds {
				stepForms = append(stepForms, append([]string{nm}, p...))
			}
		}
		if maxPreds >= 2 {
			stepForms = append(stepForms, append(append([]string{nm}, preds[0]...), preds[2]...))
		}
	}
	var out [][]string
	var abs func(prefix []string, n int)
	abs = func(prefix []string, n int) {
		if n > 0 {
			out = append(out, prefix)
		}
		if n == maxSteps {
			return
		}
		for _, sf := range stepForms {
			abs(append(append(append([]string{}, prefix...), "/"), sf...), n+1)
		}
	}
	abs(nil, 0)
	for ups := 1; ups <= 2; ups++ {
		var pre []string
		for i := 0; i < ups; i++ {
			pre = append(pre, "..", "/")
		}
		absTail := func(first []string) {
			var rec func(prefix []string, n int)
			rec = func(prefix []string, n int) {
				out = append(out, prefix)
				if n == maxSteps {
					return
				}
				for _, sf := range stepForms[:3] {
					rec(append(append(append([]string{}, prefix...), "/"), sf...), n+1)
				}
			}
			rec(first, 1)
		}
		for _, nm := range names {
			absTail(append(append([]string{}, pre...), nm))
		}
		// descendant with predicates must be followed by an absolute path
		first := append(append(append([]string{}, pre...), "a"), preds[0]...)
		out = append(out, append(append([]string{}, first...), "/", "a"))
	}
	return out
}

// byteSweep puts every byte value (and every two-byte sequence that starts with a
// UTF-8 lead byte) into each lexical position of a few frames: bare, inside a
// name, inside either kind of literal, after a valid multi-byte character, and
// as the last byte of a three- and four-byte sequence.  The reference decides
// (well-formed UTF-8 or not, legal character for the position or not).
func (r *runner) byteSweep() {
	exprFrames := [][2]string{{"", ""}, {"a", ""}, {"'", "'"}, {"'x", "y'"}, {"\"", "\""}, {"a = '", "'"}, {"'\u00e9", "'"}, {"concat(a, '", "')"},
		{"'\xe2\x82", "'"}, {"'\xf0\x9f\x98", "'"}, {"a[b = '", "']"}}
	lrFrames := [][2]string{{"", ""}, {"../a", ""}, {"../", "a"}, {"../a[b = current()/../c", "]"}, {"/p:a", ""}}
	var seqs []string
	for b := 1; b < 256; b++ {
		seqs = append(seqs, string([]byte{byte(b)}))
	}
	for b1 := 0xc0; b1 < 256; b1++ {
		for b2 := 0; b2 < 256; b2++ {
			seqs = append(seqs, string([]byte{byte(b1), byte(b2)}))
		}
	}
	// number tokens: every string of <= 4 symbols over {'.', '0', '5'} in the number position of the
	// same kind of frames (Number ::= Digits ('.' Digits?)? | '.' Digits)
	var nums []string
	var gen func(p string, n int)
	gen = func(p string, n int) {
		if p != "" {
			nums = append(nums, p)
		}
		if n == 4 {
			return
		}
		for _, a := range []string{".", "0", "5"} {
			gen(p+a, n+1)
		}
	}
	gen("", 0)
	for _, q := range nums {
		if !r.c.Owns("num" + q) {
			continue
		}
		for _, f := range [][2]string{{"", ""}, {"a = ", ""}, {"", " + 1"}, {"a[", " < 1]"}, {"1 + ", ""}, {"-", ""}, {"../a * ", ""}, {"concat(", ", 'x')"}} {
			r.one("expr", []string{f[0] + q + f[1]}, "")
		}
	}
	for _, q := range seqs {
		if r.c.Expired() {
			return
		}
		if !r.c.Owns("bs" + q) {
			continue
		}
		for _, f := range exprFrames {
			r.one("expr", []string{f[0] + q + f[1]}, "")
		}
		for _, f := range lrFrames {
			r.one("leafref", []string{f[0] + q + f[1]}, "")
		}
	}
}

func nestedCalls() [][]string {
	outers := map[string]int{"not": 1, "string-length": 1, "string": 1, "contains": 2, "concat": 2, "starts-with": 2, "substring": 3, "translate": 3}
	inners := [][]string{{"string", "(", "a", ")"}, {"concat", "(", "a", ",", "'s'", ")"}, {"true", "(", ")"}, {"current", "(", ")"}, {"contains", "(", "a", ")"}, {"string", "(", "a", ",", "a", ")"},
		{"substring", "(", "a", ",", "1", ",", "string-length", "(", "a", ")", ")"}, {"a", "[", "starts-with", "(", "a", ",", "'s'", ")", "]"}}
	var names []string
	for n := range outers {
		names = append(names, n)
	}
	sort.Strings(names)
	var out [][]string
	for _, f := range names {
		n := outers[f]
		for m := n - 1; m <= n+1; m++ {
			if m < 1 {
				continue
			}
			for p := 0; p < m; p++ {
				for _, in := range inners {
					q := []string{f, "("}
					for i := 0; i < m; i++ {
						if i > 0 {
							q = append(q, ",")
						}
						if i == p {
							q = append(q, in...)
						} else {
							q = append(q, "a")
						}
					}
					out = append(out, append(q, ")"))
				}
			}
		}
	}
	return out
}

func run(c *engine.Ctx) {
	r := &runner{c: c}
	r.byteSweep()
	if c.Quick() {
		r.sequences("expr", exprTokens, 3, "e3")
		r.sequences("expr", exprStructural, 4, "es4")
		r.sequences("leafref", lrTokens[:20], 5, "l5")
		r.sequences("leafref", lrTokens, 4, "l4x")
	} else {
		r.sequences("expr", exprTokens, 4, "e4")
		r.sequences("expr", exprStructural, 5, "es5")
		r.sequences("leafref", lrTokens, 6, "l6")
		r.sequences("leafref", lrStructural, 8, "ls8")
	}
	c.Sample(map[string]any{"lang": "expr", "tokens": []string{"a", "[", "div", "=", "1", "]"}, "rendered": "a [ div = 1 ]"})
	for i, base := range exprCorpus {
		r.mutations("expr", base, exprTokens, fmt.Sprintf("ec%d", i))
	}
	// nested calls: every function of arity 1..3 with one argument too few, the right number and one too
	// many, and in every argument position an inner call (right and wrong arity, with and without
	// arguments of its own): the arity of a call is counted per call
	for _, q := range nestedCalls() {
		if r.c.Expired() {
			return
		}
		if r.c.Owns("nc" + strings.Join(q, " ")) {
			r.one("expr", q, " ")
			r.one("expr", q, "")
		}
	}
	steps, preds := 2, 1
	if !c.Quick() {
		steps, preds = 3, 2
	}
	ders := derivations(steps, preds)
	c.Note(fmt.Sprintf("%d path-arg derivations", len(ders)))
	for i, base := range ders {
		if len(base) > 40 {
			continue
		}
		r.mutations("leafref", base, lrTokens, fmt.Sprintf("ld%d", i))
	}
	for i, base := range lrSplitCorpus {
		r.mutations("leafref", base, append(append([]string{}, lrTokens...), "p", ":", "\f"), fmt.Sprintf("ls%d", i))
	}
	if len(ders) > 5 {
		c.Sample(map[string]any{"lang": "leafref", "derivation": strings.Join(ders[len(ders)/2], " ")})
	}
}

func replay(c *engine.Ctx, sub string, raw json.RawMessage) []engine.Violation {
	var r rec
	if json.Unmarshal(raw, &r) != nil {
		return []engine.Violation{{Key: "harness-bad-replay-file"}}
	}
	src, err := strconv.Unquote(r.Src)
	if err != nil {
		return []engine.Violation{{Key: "harness-bad-replay-file"}}
	}
	if kind, detail := disagreement(r.Lang, src); kind != "" {
		return []engine.Violation{{Key: r.Lang + "-" + kind, Witness: r.Src, Detail: detail}}
	}
	return nil
}
