// Package c06: compiled machines are immutable and safe under concurrency.
package c06

import (
	"encoding/json"
	"fmt"
	"github.com/sdcio/yang-parser/xpath/grammars/expr"
	"sort"
	"strings"

	"verif/engine"
	"verif/mock"
	"verif/xpx"

	"github.com/sdcio/yang-parser/verifrt"
	"github.com/sdcio/yang-parser/xpath"
)

func init() {
	engine.Register(&engine.Harness{
		Prop:   "C06",
		Run:    run,
		Replay: replay,
		Rule: "E3: every multiset of 3 thread programs (1-2 operations each: compile an expression, or run a shared pre-compiled machine on an independent data tree) in which at least two threads touch the function table or share a machine is executed under the cooperative scheduler for every schedule within the preemption bound; visible operations are mutex lock/unlock and every read/write of a mutable package-level variable of /repo (found by the instrumenter); each execution starts from the same global state with the lazy plugin load still pending. " +
			"A second group runs 2-3 threads on shared machines with every tick (function entry, loop iteration) as a scheduling point. Oracle per execution: every thread observes what it observes when run alone from the initial state, no vector-clock data race, no deadlock/livelock, no panic. " +
			"E1 histories: every operation sequence up to the bound over compile/run/run-with-failing-tree in one process without resets; after every prefix every machine gives its isolated result and listing. Non-trivial = an execution with at least one context switch between operations on the same variable or machine.",
		Bound: map[string]string{
			"quick":    "3 threads, preemption bound 2 at lock/variable granularity; 2 threads on a shared machine with preemption bound 1 at tick granularity; histories of length <=4 over 11 operations",
			"thorough": "preemption bound 3 (unbounded where an execution has <=24 visible operations); 3 threads at tick granularity with bound 2; histories of length <=5; free-running -race pass of the same thread bodies (supporting evidence)",
		},
		Assumptions: []string{
			"heap-level races through shared pointers are visible only at tick granularity (results) or to the free-running -race pass; the vector-clock detector covers package-level variables",
			"scheduler hand-offs are sequentially consistent; weaker memory orderings are not modelled",
		},
	})
}

var compileExprs = []string{"1", "concat('a', 'b')", "contains(a, 'x')", "not(true())", "1 +", "foo(1)"}
var machineExprs = []string{"a = 'x'", "/l[k = current()/../x]/v", "string-length(concat(a, b))", "l[k = ../x][j = 'c']/v", "vf-probe(string(a))",
	// a predicate inside a predicate (not evaluated correctly by this code base - consistently so: what
	// matters here is that every run of the machine gives the same answer)
	"/l[k = /l3[j = current()/../x]/r]/v",
	// a leafref is followed (two more kinds of data-tree callback that can fail)
	"deref(current()/../r)/../v = 'x'",
	// two runs that fail inside the engine itself (not in the data tree), each with a text of its own:
	// the error a run reports is part of its result
	"count('x') = 1", "count(7) = 1",
	// two expressions without location paths: they can also be run through the other context
	// constructor, NewCtxFromMach (operation runmach)
	"concat('left-', 'hold') = 'left-hold'", "string-length('abcdef') * 2 + 1"}

// coreMachines: machines 0..6 take part in every generic scenario and history; the later ones (added
// for particular questions) in their own scenarios, one generic tick scenario each and the histories.
const coreMachines = 7

// customMachine is the index of the machine that calls a registered custom (plugin) function.
const customMachine = 4

// registerCustom (re-)registers the custom function used by machine 4.  It panics on the values
// of context position 0 - after an explicit scheduling point, so that another run can complete
// in between - and returns normally on those of position 1; a panicking custom function must
// yield its default value, whatever other runs do.
func registerCustom() {
	xpath.RegisterCustomFunctions([]xpath.CustomFunctionInfo{{
		Name: "vf-probe",
		FnPtr: func(args []xpath.Datum) xpath.Datum {
			v := args[0].Literal("vf-probe")
			if strings.HasPrefix(v, "/alt/") {
				return xpath.NewLiteralDatum("OK:" + v)
			}
			verifrt.Yield()
			panic("vf-probe: boom on " + v)
		},
		Args:          []xpath.DatumTypeChecker{xpath.TypeIsLiteral},
		RetType:       xpath.TypeIsLiteral,
		DefaultRetVal: xpath.NewLiteralDatum("DEFAULT"),
	}})
}

func compileMachine(i int) *xpath.Machine {
	if i == customMachine {
		registerCustom()
		m, err := expr.NewExprMachineWithCustomFunctions(machineExprs[i], nil)
		if err != nil {
			panic(fmt.Sprint("c06: cannot compile ", machineExprs[i], err))
		}
		return m
	}
	m, err, p := xpx.Compile(machineExprs[i], nil)
	if err != nil || p != nil {
		panic(fmt.Sprint("c06: cannot compile ", machineExprs[i], err, p))
	}
	return m
}

type op struct {
	Kind  string `json:"kind"` // compile | run | runfail
	Arg   int    `json:"arg"`
	Ctx   int    `json:"ctx,omitempty"`   // run: which context position (the data values depend on it)
	Fault int    `json:"fault,omitempty"` // runfail: which data-tree callback fails (0 = the first)
}

func (o op) String() string {
	if o.Kind == "register" {
		return fmt.Sprintf("register(vf-probe, other definition %d)", o.Arg)
	}
	if o.Kind == "compile" {
		return "compile(" + compileExprs[o.Arg] + ")"
	}
	if o.Fault > 0 {
		return fmt.Sprintf("%s(%s @ctx%d, callback %d fails)", o.Kind, machineExprs[o.Arg], o.Ctx, 1+o.Fault)
	}
	return fmt.Sprintf("%s(%s @ctx%d)", o.Kind, machineExprs[o.Arg], o.Ctx)
}

var machines []*xpath.Machine

func ensureMachines() {
	if machines != nil {
		return
	}
	for i := range machineExprs {
		machines = append(machines, compileMachine(i))
	}
	verifrt.RestoreAll() // (the registration of the custom function is not part of the initial state)
	// the snapshot of global state is the one taken at process start (plugins not loaded)
}

// perform executes one operation on the shared machines and returns its observation.
func perform(o op) string { return performOn(o, machines) }

// performFresh is the isolated reference: the machine is compiled for this one run.
func performFresh(o op) string {
	if o.Kind == "compile" {
		return performOn(o, nil)
	}
	if o.Kind == "register" {
		defer verifrt.RestoreAll()
		return performOn(o, nil)
	}
	ms := make([]*xpath.Machine, len(machineExprs))
	ms[o.Arg] = compileMachine(o.Arg)
	if o.Arg == customMachine {
		defer verifrt.RestoreAll()
	}
	return performOn(o, ms)
}

var ctxPositions = [][]mock.Elem{{{Name: "top"}, {Name: "ctx"}}, {{Name: "alt"}, {Name: "other"}}}

// registerOther registers the custom function of machine 4 again with ANOTHER definition (another
// implementation, and for Arg 1 another arity): machines compiled before keep the definition they
// were compiled with.
func registerOther(variant int) {
	args := []xpath.DatumTypeChecker{xpath.TypeIsLiteral}
	if variant == 1 {
		args = []xpath.DatumTypeChecker{xpath.TypeIsLiteral, xpath.TypeIsLiteral}
	}
	xpath.RegisterCustomFunctions([]xpath.CustomFunctionInfo{{
		Name:          "vf-probe",
		FnPtr:         func(args []xpath.Datum) xpath.Datum { return xpath.NewLiteralDatum("OTHER-DEFINITION") },
		Args:          args,
		RetType:       xpath.TypeIsLiteral,
		DefaultRetVal: xpath.NewLiteralDatum("OTHER-DEFAULT"),
	}})
}

func performOn(o op, machines []*xpath.Machine) string {
	switch o.Kind {
	case "register":
		registerOther(o.Arg)
		return "registered"
	case "compile":
		m, err, p := xpx.Compile(compileExprs[o.Arg], nil)
		switch {
		case p != nil:
			return fmt.Sprint("PANIC ", p)
		case err != nil:
			return "error: " + err.Error()
		}
		return m.PrintMachine()
	case "runmach":
		obs := xpx.RunMachineFromMach(machines[o.Arg])
		return obs.String() + " listing=" + machines[o.Arg].PrintMachine()
	default:
		t := mock.NewTree()
		if o.Kind == "runfail" {
			t.FailAt = map[int]bool{1 + o.Fault: true}
		}
		if o.Kind == "runvalid" {
			// the context's validation mode: every function call is checked against its signature
			obs := xpx.RunMachineValidating(machines[o.Arg], t.At(ctxPositions[o.Ctx]...))
			return obs.String() + " calls=" + strings.Join(t.CallStrings(), ",") + " listing=" + machines[o.Arg].PrintMachine()
		}
		obs := xpx.RunMachineDebug(machines[o.Arg], t.At(ctxPositions[o.Ctx]...), o.Kind == "rundebug")
		return obs.String() + " calls=" + strings.Join(t.CallStrings(), ",") + " listing=" + machines[o.Arg].PrintMachine()
	}
}

type scenario struct {
	Threads [][]op `json:"threads"`
	Tick    bool   `json:"tick"`
	Bound   int    `json:"bound"`
}

func (s scenario) String() string {
	var ts []string
	for _, t := range s.Threads {
		var os []string
		for _, o := range t {
			os = append(os, o.String())
		}
		ts = append(ts, "["+strings.Join(os, "; ")+"]")
	}
	g := "lock/var"
	if s.Tick {
		g = "tick"
	}
	return fmt.Sprintf("%s granularity=%s bound=%d", strings.Join(ts, " || "), g, s.Bound)
}

// isolated observations of a thread program from the initial state
func isolated(prog []op) []string {
	verifrt.RestoreAll()
	var out []string
	for _, o := range prog {
		out = append(out, performFresh(o))
	}
	return out
}

func execute(sc scenario, choices []int) (*verifrt.Sched, [][]string) {
	verifrt.RestoreAll()
	obs := make([][]string, len(sc.Threads))
	verifrt.TickYield = sc.Tick
	if sc.Tick {
		verifrt.SetHorizon(1 << 40)
	}
	s := verifrt.RunControlled(choices, 200000, func() {
		for i := range sc.Threads {
			i := i
			verifrt.Go(func() {
				for _, o := range sc.Threads[i] {
					obs[i] = append(obs[i], perform(o))
				}
			})
		}
	})
	verifrt.TickYield = false
	verifrt.SetHorizon(0)
	return s, obs
}

type rec struct {
	Scenario scenario `json:"scenario"`
	Choices  []int    `json:"choices"`
	History  []op     `json:"history,omitempty"`
}

func judge(sc scenario, s *verifrt.Sched, obs [][]string, want [][]string, choices []int) []engine.Violation {
	var vs []engine.Violation
	mk := func(key, detail string) {
		vs = append(vs, engine.Violation{Key: key, Witness: sc.String() + fmt.Sprintf(" schedule=%v", choices), Detail: detail, Harness: "schedule", Replay: engine.JSON(rec{Scenario: sc, Choices: choices})})
	}
	if s.BadReplay != "" {
		mk("harness-bad-replay", s.BadReplay)
		return vs
	}
	for _, r := range s.Races {
		mk("data-race:"+r.Var+":"+r.Detail, fmt.Sprintf("unordered accesses to %s: %s and %s", r.Var, r.A, r.B))
	}
	if s.Deadlock || len(s.Blocked) > 0 {
		mk("deadlock", strings.Join(s.Blocked, "; "))
	}
	if s.Livelock {
		mk("livelock", "step cap exceeded")
	}
	for _, p := range s.Panics {
		mk("panic", p)
	}
	if len(vs) == 0 {
		for i := range want {
			if fmt.Sprint(obs[i]) != fmt.Sprint(want[i]) {
				mk("result-differs-from-isolated-run:"+sc.Threads[i][0].Kind, fmt.Sprintf("thread %d observed %q, alone it observes %q", i, obs[i], want[i]))
				break
			}
		}
	}
	return vs
}

func touchesTable(p []op) bool {
	for _, o := range p {
		if (o.Kind == "compile" && o.Arg != 0) || o.Kind == "register" {
			return true
		}
	}
	return false
}

func sharesMachine(a, b []op) bool {
	for _, x := range a {
		for _, y := range b {
			if x.Kind != "compile" && y.Kind != "compile" && x.Kind != "register" && y.Kind != "register" && x.Arg == y.Arg {
				return true
			}
		}
	}
	return false
}

func programs() [][]op {
	return [][]op{
		{{Kind: "compile", Arg: 1}},
		{{Kind: "compile", Arg: 2}},
		{{Kind: "compile", Arg: 3}, {Kind: "compile", Arg: 1}},
		{{Kind: "compile", Arg: 4}},
		{{Kind: "compile", Arg: 5}, {Kind: "compile", Arg: 2}},
		{{Kind: "compile", Arg: 0}, {Kind: "run", Arg: 2}},
		{{Kind: "run", Arg: 0}},
		{{Kind: "run", Arg: 1}, {Kind: "compile", Arg: 1}},
		{{Kind: "run", Arg: 2}, {Kind: "run", Arg: 0}},
		{{Kind: "runfail", Arg: 1}},
		{{Kind: "run", Arg: 1, Ctx: 1}, {Kind: "run", Arg: 3}},
		{{Kind: "run", Arg: 3, Ctx: 1}},
		{{Kind: "rundebug", Arg: 0}, {Kind: "rundebug", Arg: 2}},
		// (registering a custom function is a sequential, start-up time operation - it takes no lock
		// of its own - and is therefore exercised in the histories only, not concurrently)
		{{Kind: "run", Arg: customMachine, Ctx: 1}, {Kind: "run", Arg: customMachine}},
	}
}

func run(c *engine.Ctx) {
	ensureMachines()
	if c.Shard == 0 {
		// the channel / select model of the scheduler is checked against Go's semantics first
		for _, problem := range engine.SchedSelfCheck() {
			c.Report(engine.Violation{Key: "harness-scheduler-selfcheck", Witness: problem, Detail: problem})
		}
		c.Note("scheduler self-check: 8 concurrent toy programs explored without preemption bound, outcome sets as Go specifies")
	}
	progs := programs()
	bound := 2
	if !c.Quick() {
		bound = 3
	}
	var scenarios []scenario
	for i := 0; i < len(progs); i++ {
		for j := i; j < len(progs); j++ {
			for k := j; k < len(progs); k++ {
				ps := [][]op{progs[i], progs[j], progs[k]}
				n := 0
				for _, p := range ps {
					if touchesTable(p) {
						n++
					}
				}
				if n >= 2 || sharesMachine(ps[0], ps[1]) || sharesMachine(ps[1], ps[2]) || sharesMachine(ps[0], ps[2]) {
					scenarios = append(scenarios, scenario{Threads: ps, Bound: bound})
				}
			}
		}
	}
	// tick granularity on shared machines
	tb := 1
	if !c.Quick() {
		tb = 2
	}
	for m := range machineExprs {
		if m >= coreMachines {
			// (the later machines have scenarios of their own below)
			scenarios = append(scenarios, scenario{Threads: [][]op{{{Kind: "run", Arg: m}}, {{Kind: "run", Arg: m}}}, Tick: true, Bound: 1})
			continue
		}
		scenarios = append(scenarios, scenario{Threads: [][]op{{{Kind: "run", Arg: m}}, {{Kind: "run", Arg: m}}}, Tick: true, Bound: tb})
		scenarios = append(scenarios, scenario{Threads: [][]op{{{Kind: "run", Arg: m}}, {{Kind: "run", Arg: m, Ctx: 1}}}, Tick: true, Bound: tb})
		scenarios = append(scenarios, scenario{Threads: [][]op{{{Kind: "run", Arg: m}}, {{Kind: "runfail", Arg: m}}}, Tick: true, Bound: tb})
		scenarios = append(scenarios, scenario{Threads: [][]op{{{Kind: "run", Arg: m}}, {{Kind: "rundebug", Arg: m}}}, Tick: true, Bound: tb})
		scenarios = append(scenarios, scenario{Threads: [][]op{{{Kind: "run", Arg: m}}, {{Kind: "compile", Arg: 1}}}, Tick: true, Bound: tb})
		if !c.Quick() {
			scenarios = append(scenarios, scenario{Threads: [][]op{{{Kind: "run", Arg: m}}, {{Kind: "run", Arg: m, Ctx: 1}}, {{Kind: "run", Arg: (m + 1) % len(machineExprs)}}}, Tick: true, Bound: 1})
		}
	}
	// contexts built by NewCtxFromMach (no data tree) next to each other and next to contexts built from
	// a current node: every context has its own evaluation stack
	ef := []int{len(machineExprs) - 4, len(machineExprs) - 3}
	scenarios = append(scenarios, scenario{Threads: [][]op{{{Kind: "run", Arg: ef[0]}}, {{Kind: "run", Arg: ef[1]}}}, Tick: true, Bound: tb})
	scenarios = append(scenarios, scenario{Threads: [][]op{{{Kind: "run", Arg: ef[0]}}, {{Kind: "run", Arg: ef[1]}}, {{Kind: "run", Arg: ef[0], Ctx: 1}}}, Tick: true, Bound: 1})
	scenarios = append(scenarios, scenario{Threads: [][]op{{{Kind: "run", Arg: ef[0]}, {Kind: "run", Arg: 0}}, {{Kind: "run", Arg: ef[1]}}}, Bound: bound})
	pf := []int{len(machineExprs) - 2, len(machineExprs) - 1}
	for _, a := range pf {
		for _, b := range pf {
			scenarios = append(scenarios, scenario{Threads: [][]op{{{Kind: "runmach", Arg: a}}, {{Kind: "runmach", Arg: b}}}, Tick: true, Bound: tb})
			scenarios = append(scenarios, scenario{Threads: [][]op{{{Kind: "runmach", Arg: a}}, {{Kind: "run", Arg: b}}}, Tick: true, Bound: tb})
		}
		scenarios = append(scenarios, scenario{Threads: [][]op{{{Kind: "runmach", Arg: a}}, {{Kind: "runmach", Arg: pf[0]}}, {{Kind: "runmach", Arg: pf[1]}}}, Tick: true, Bound: 1})
	}
	// contexts in validation mode next to each other, next to a plain run of the same machine and next to
	// a compilation (scenarios of their own: as a thread program they would pair with every other program)
	rv := []op{{Kind: "runvalid", Arg: 2}}
	scenarios = append(scenarios, scenario{Threads: [][]op{rv, rv}, Bound: bound})
	scenarios = append(scenarios, scenario{Threads: [][]op{rv, {{Kind: "compile", Arg: 1}}}, Bound: bound})
	scenarios = append(scenarios, scenario{Threads: [][]op{rv, {{Kind: "run", Arg: 2}}}, Tick: true, Bound: tb})
	c.Note(fmt.Sprintf("%d scenarios; instrumented mutable package variables: %v", len(scenarios), verifrt.StateVars()))
	for si, sc := range scenarios {
		if c.Expired() {
			break
		}
		if !c.Owns(fmt.Sprintf("scenario:%d", si)) {
			continue
		}
		sc := sc
		want := make([][]string, len(sc.Threads))
		for i, p := range sc.Threads {
			want[i] = isolated(p)
		}
		interleavings := map[string]bool{}
		first := true
		st := engine.ExploreSchedules(sc.Bound, 400000, func(ch []int) *verifrt.Sched {
			s, obs := execute(sc, ch)
			lastObs = obs
			return s
		}, func(s *verifrt.Sched, ch []int) {
			c.Case(fmt.Sprintf("sc%d:%v", si, ch))
			c.Add("states", int64(len(s.Points)))
			c.Add("transitions", int64(len(s.Points)))
			// signature of the interleaving: order of lock acquisitions and variable accesses
			var sig strings.Builder
			switches := 0
			for i, p := range s.Points {
				if p.Op.Kind == verifrt.OpLock || p.Op.Kind == verifrt.OpWrite {
					fmt.Fprintf(&sig, "%d", p.Enabled[p.Chosen])
				}
				if i > 0 && p.Enabled[p.Chosen] != s.Points[i-1].Enabled[s.Points[i-1].Chosen] {
					switches++
				}
			}
			interleavings[sig.String()] = true
			if switches > len(sc.Threads) {
				c.Nontrivial()
			}
			if first {
				// replay determinism: the same schedule twice gives identical observations
				first = false
				o1 := fmt.Sprint(lastObs)
				_, o2 := execute(sc, ch)
				if o1 != fmt.Sprint(o2) {
					c.Report(engine.Violation{Key: "harness-nondeterministic-replay", Witness: sc.String(), Detail: o1 + " vs " + fmt.Sprint(o2)})
				}
			}
			for _, v := range judge(sc, s, lastObs, want, ch) {
				c.Report(v)
			}
		})
		c.Add("schedules", st.Executions)
		c.Add("scenarios", 1)
		if st.Truncated {
			c.Note("execution cap hit in scenario " + sc.String())
			c.Add("scenarios_truncated", 1)
		}
		c.Outcome(fmt.Sprintf("interleavings:%d", len(interleavings)))
		if si == 0 || sc.Tick {
			c.Sample(map[string]any{"scenario": sc.String(), "schedules": st.Executions, "max_points": st.MaxPoints, "distinct_lock_orders": len(interleavings)})
		}
	}
	histories(c)
	functionMatrix(c)
}

var lastObs [][]string

// ---------------------------------------------------------------- histories

func historyAlphabet() []op {
	var a []op
	for i := range compileExprs {
		a = append(a, op{Kind: "compile", Arg: i})
	}
	for i := range machineExprs {
		a = append(a, op{Kind: "run", Arg: i})
		if i < coreMachines {
			// (the machines added for particular scenarios take part with one context position)
			a = append(a, op{Kind: "run", Arg: i, Ctx: 1})
		}
	}
	a = append(a, op{Kind: "runfail", Arg: 0}, op{Kind: "runfail", Arg: 1}, op{Kind: "runfail", Arg: 3, Ctx: 1})
	a = append(a, op{Kind: "runmach", Arg: len(machineExprs) - 2}, op{Kind: "runmach", Arg: len(machineExprs) - 1})
	// runs that die at a later callback: between the predicates of a step, between an inner and an outer ']'
	a = append(a, op{Kind: "runfail", Arg: 3, Fault: 2}, op{Kind: "runfail", Arg: 5, Fault: 1}, op{Kind: "runfail", Arg: 5, Fault: 2}, op{Kind: "runfail", Arg: 5, Fault: 3})
	// runs with the context's debug listing on: a diagnostic aid that must leave the machine as it was
	a = append(a, op{Kind: "rundebug", Arg: 0}, op{Kind: "rundebug", Arg: 2}, op{Kind: "rundebug", Arg: 3, Ctx: 1})
	// runs with the context's validation mode on
	a = append(a, op{Kind: "runvalid", Arg: 2})
	// the custom function of machine 4 is registered again with another definition (other arity too)
	a = append(a, op{Kind: "register", Arg: 0}, op{Kind: "register", Arg: 1})
	return a
}

func checkHistory(h []op) []engine.Violation {
	verifrt.RestoreAll()
	var vs []engine.Violation
	for i, o := range h {
		got := perform(o)
		want := isolatedCache(o)
		if got != want {
			vs = append(vs, engine.Violation{Key: "history-changes-result:" + o.Kind, Witness: fmt.Sprint(h[:i+1]),
				Detail: fmt.Sprintf("after %v, %s gives %q; in isolation %q", h[:i], o, got, want), Harness: "history", Replay: engine.JSON(rec{History: h[:i+1]})})
			return vs
		}
	}
	// after the whole history every machine still behaves as in isolation
	for m := range machineExprs {
		o := op{Kind: "run", Arg: m}
		if got, want := perform(o), isolatedCache(o); got != want {
			vs = append(vs, engine.Violation{Key: "history-changes-result:run", Witness: fmt.Sprint(h) + " then " + o.String(),
				Detail: fmt.Sprintf("got %q; in isolation %q", got, want), Harness: "history", Replay: engine.JSON(rec{History: append(append([]op{}, h...), o)})})
			return vs
		}
	}
	return nil
}

var isoCache = map[op]string{}

func isolatedCache(o op) string {
	if v, ok := isoCache[o]; ok {
		return v
	}
	verifrt.RestoreAll()
	v := performFresh(o)
	isoCache[o] = v
	return v
}

func histories(c *engine.Ctx) {
	alpha := historyAlphabet()
	for _, o := range alpha {
		isolatedCache(o)
	}
	maxLen := 4
	if !c.Quick() {
		maxLen = 5
	}
	var coreAlpha []op
	for _, o := range alpha {
		if o.Kind == "compile" || o.Kind == "register" || (o.Kind != "runmach" && o.Arg < coreMachines) {
			coreAlpha = append(coreAlpha, o)
		}
	}
	var rec func(h []op)
	classes := map[string]bool{}
	rec = func(h []op) {
		if c.Expired() {
			return
		}
		if len(h) >= 2 || (len(h) == 1 && c.Shard == 0) {
			c.Case("history:" + fmt.Sprint(h))
			c.Add("states", 1)
			vs := checkHistory(h)
			kinds := map[string]bool{}
			for _, o := range h {
				kinds[o.Kind] = true
			}
			var ks []string
			for k := range kinds {
				ks = append(ks, k)
			}
			sort.Strings(ks)
			classes[strings.Join(ks, "+")] = true
			c.Outcome("history:" + strings.Join(ks, "+"))
			if len(kinds) > 1 {
				c.Nontrivial()
			}
			for _, v := range vs {
				c.Report(v)
			}
		}
		if len(h) == maxLen {
			return
		}
		ext := alpha
		if len(h) >= 4 {
			// (the fifth operation of a thorough history comes from the core alphabet: operations on
			// machines 0..6 and compilations; the quick tier's length-4 histories use the whole alphabet)
			ext = coreAlpha
		}
		for _, o := range ext {
			next := append(append([]op{}, h...), o)
			if len(next) == 2 && !c.Owns("h:"+fmt.Sprint(next)) {
				continue
			}
			c.Add("transitions", 1)
			rec(next)
		}
	}
	rec(nil)
	// long histories: one operation - every one of the alphabet, and every machine dying at each of its
	// first five data-tree callbacks - twelve times in a row, then every machine once more (what a
	// run leaves behind when it ends early may add up)
	long := append([]op{}, alpha...)
	for m := range machineExprs {
		for f := 0; f < 5; f++ {
			long = append(long, op{Kind: "runfail", Arg: m, Fault: f}, op{Kind: "runfail", Arg: m, Ctx: 1, Fault: f})
		}
	}
	for li, o := range long {
		id := fmt.Sprintf("history-long:%d:%v", li, o)
		if c.Expired() {
			return
		}
		if !c.Owns(id) || !c.Case(id) {
			continue
		}
		var h []op
		for i := 0; i < 12; i++ {
			h = append(h, o)
		}
		isolatedCache(o)
		c.Add("states", 1)
		c.Add("transitions", 12)
		c.Nontrivial()
		c.Outcome("history-long:" + o.Kind)
		for _, v := range checkHistory(h) {
			c.Report(v)
		}
	}
	c.Sample(map[string]any{"history": "compile(foo(1)); runfail(a = 'x'); run(a = 'x'); compile(concat('a', 'b'))"})
}

// ---------------------------------------------------------------- function table matrix

// One machine per function of the table (a call the function accepts), and
// every function called with 0..4 arguments as the "other expression" that is
// compiled afterwards (most arities are refused - refusing is a compilation
// too).  Oracles: (a) a machine compiled earlier gives the same observation and
// listing after any one later compilation as before it; (b) the outcome of a
// compilation (listing or error text) does not depend on which compilation came
// before it.
var fnCalls = []string{
	"boolean(a)", "ceiling(1.5)", "concat('a', 'b')", "contains('abc', 'b')", "re-match('abc', 'a.c')", "count(a)", "current()/a", "false()", "floor(1.5)",
	"last()", "local-name(a)", "normalize-space(' a  b ')", "not(a)", "number('12')", "round(2.5)", "position()", "starts-with('abc', 'a')", "string(a)",
	"string-length('abc')", "substring('12345', 2, 3)", "substring-after('a:b', ':')", "substring-before('a:b', ':')", "sum(a)", "translate('abc', 'ab', 'xy')", "true()",
}

func fnArityMenu() []string {
	args := []string{"'12345'", "2", "3", "4"}
	var out []string
	for _, call := range fnCalls {
		name := call[:strings.Index(call, "(")]
		for k := 0; k <= len(args); k++ {
			out = append(out, name+"("+strings.Join(args[:k], ", ")+")")
		}
	}
	return out
}

func compileOutcome(src string) string {
	m, err, p := xpx.Compile(src, nil)
	switch {
	case p != nil:
		return fmt.Sprint("PANIC ", p)
	case err != nil:
		return "error: " + err.Error()
	}
	return m.PrintMachine()
}

func runObs(m *xpath.Machine) string {
	t := mock.NewTree()
	obs := xpx.RunMachine(m, t.At(ctxPositions[0]...))
	return obs.String() + " listing=" + m.PrintMachine()
}

type matrixRec struct {
	Machine string `json:"machine,omitempty"`
	First   string `json:"compiled_first,omitempty"`
	Then    string `json:"compiled_then"`
}

func checkMachineAfterCompile(machineSrc, other string) []engine.Violation {
	verifrt.RestoreAll()
	m, err, p := xpx.Compile(machineSrc, nil)
	if err != nil || p != nil {
		return nil // the table does not accept this call: nothing to keep immutable
	}
	before := runObs(m)
	compileOutcome(other)
	after := runObs(m)
	if before != after {
		return []engine.Violation{{Key: "compilation-changes-compiled-machine:" + machineSrc[:strings.Index(machineSrc, "(")], Witness: fmt.Sprintf("machine %s; then compile %s", machineSrc, other),
			Detail: fmt.Sprintf("before the compilation the machine gives %q, after it %q", before, after), Harness: "matrix", Replay: engine.JSON(matrixRec{Machine: machineSrc, Then: other})}}
	}
	return nil
}

func checkCompileAfterCompile(first, then string) []engine.Violation {
	verifrt.RestoreAll()
	alone := compileOutcome(then)
	verifrt.RestoreAll()
	compileOutcome(first)
	got := compileOutcome(then)
	if got != alone {
		return []engine.Violation{{Key: "compilation-depends-on-earlier-compilation:" + then[:strings.Index(then, "(")], Witness: fmt.Sprintf("compile %s; then compile %s", first, then),
			Detail: fmt.Sprintf("alone %q, after the other compilation %q", alone, got), Harness: "matrix", Replay: engine.JSON(matrixRec{First: first, Then: then})}}
	}
	return nil
}

// Oracle (c): a run does not change the data it reads.  The typed tree hands out the very same
// datum objects (leaf-list slices included) on every GetValue, as a caching data tree would: after
// machine A has run on it, machine B must observe what it observes on a freshly built tree.
var sharedValueExprs = []string{"lls < 4", "lls = 'a'", "lln > 1", "lln <= lls", "count(lls)", "string(lls)", "lls != lln", "sum(lln)", "lls", "string-length(lls)", "ll1 >= 'a'", "- lln < 0", "lls + 1", "not(lls < lln)", "lls | sx", "(lln | n5) = 5", "(ll1 | lls) = 'b'", "(ll0 | s1) = 1"}

func runShared(m *xpath.Machine, t *mock.Tree) string {
	t.Reset()
	return xpx.RunMachine(m, t.At(mock.Elem{Name: "ctx"})).String()
}

func checkInputsUnchanged(a, b string) []engine.Violation {
	verifrt.RestoreAll()
	ma, errA, pa := xpx.Compile(a, nil)
	mb, errB, pb := xpx.Compile(b, nil)
	if errA != nil || errB != nil || pa != nil || pb != nil {
		return []engine.Violation{{Key: "harness-shared-value-expression-does-not-compile", Witness: a + " ; " + b}}
	}
	fresh, _ := xpx.ScalarTree()
	alone := runShared(mb, fresh)
	shared, _ := xpx.ScalarTree()
	runShared(ma, shared)
	after := runShared(mb, shared)
	if w := shared.SpareWritten(); len(w) > 0 {
		return []engine.Violation{{Key: "run-writes-into-the-data-tree's-memory", Witness: fmt.Sprintf("run %s, then %s on the same data tree", a, b),
			Detail: strings.Join(w, "; "), Harness: "matrix", Replay: engine.JSON(matrixRec{Machine: "shared:" + a, Then: b})}}
	}
	if after != alone {
		return []engine.Violation{{Key: "run-changes-the-data-it-reads", Witness: fmt.Sprintf("run %s, then %s on the same data tree", a, b),
			Detail: fmt.Sprintf("on a fresh tree %q; after the other run %q", alone, after), Harness: "matrix", Replay: engine.JSON(matrixRec{Machine: "shared:" + a, Then: b})}}
	}
	return nil
}

// Oracle (d): registering a function again (a newer plugin, another arity, a plugin that takes the
// name of a core function) does not change machines that were compiled before.
func checkReRegistration(name, machineSrc string, variant int) []engine.Violation {
	verifrt.RestoreAll()
	defer verifrt.RestoreAll()
	custom := name == "vf-probe"
	if custom {
		registerCustom()
	}
	var m *xpath.Machine
	var err error
	if custom {
		m, err = expr.NewExprMachineWithCustomFunctions(machineSrc, nil)
	} else {
		m, err, _ = xpx.Compile(machineSrc, nil)
	}
	if err != nil || m == nil {
		return []engine.Violation{{Key: "harness-reregistration-machine-does-not-compile", Witness: machineSrc, Detail: fmt.Sprint(err)}}
	}
	t := mock.NewTree()
	run := func() string {
		t.Reset()
		plain := xpx.RunMachine(m, t.At(ctxPositions[1]...)).String()
		t.Reset()
		// and with the context's validation mode on: the signature a call is checked against is the one
		// the machine was compiled with
		return plain + " validating=" + xpx.RunMachineValidating(m, t.At(ctxPositions[1]...)).String() + " listing=" + m.PrintMachine()
	}
	before := run()
	args := []xpath.DatumTypeChecker{xpath.TypeIsLiteral}
	for i := 0; i < variant; i++ {
		args = append(args, xpath.TypeIsLiteral)
	}
	xpath.RegisterCustomFunctions([]xpath.CustomFunctionInfo{{Name: name,
		FnPtr: func(args []xpath.Datum) xpath.Datum { return xpath.NewLiteralDatum("OTHER-DEFINITION") },
		Args:  args, RetType: xpath.TypeIsLiteral, DefaultRetVal: xpath.NewLiteralDatum("OTHER-DEFAULT")}})
	after := run()
	if before != after {
		return []engine.Violation{{Key: "registration-changes-compiled-machine:" + name, Witness: fmt.Sprintf("machine %s; then %s is registered again with %d argument(s)", machineSrc, name, len(args)),
			Detail: fmt.Sprintf("before %q, after %q", before, after), Harness: "matrix", Replay: engine.JSON(matrixRec{Machine: "rereg:" + name + ":" + fmt.Sprint(variant) + ":" + machineSrc})}}
	}
	return nil
}

func functionMatrix(c *engine.Ctx) {
	for _, rr := range [][2]string{{"vf-probe", "vf-probe(string(a))"}, {"contains", "contains(a, 'alt')"}, {"string-length", "string-length(a) > 2"}, {"concat", "concat(a, 'x')"}, {"starts-with", "starts-with(a, 'al')"}, {"not", "not(a = 'x')"}, {"count", "count(l) > 1"}, {"substring", "substring(a, 2, 1)"}, {"translate", "translate(a, 'a', 'b')"}} {
		for variant := 0; variant < 3; variant++ {
			id := fmt.Sprintf("matrix:r:%s:%d", rr[0], variant)
			if !c.Owns(id) || !c.Case(id) {
				continue
			}
			c.Add("states", 1)
			c.Nontrivial()
			vs := checkReRegistration(rr[0], rr[1], variant)
			c.Outcome(fmt.Sprintf("matrix:re-registration:viol=%v", len(vs) > 0))
			for _, v := range vs {
				c.Report(v)
			}
		}
	}
	for _, a := range sharedValueExprs {
		for _, b := range sharedValueExprs {
			id := "matrix:s:" + a + "|" + b
			if !c.Owns(id) || !c.Case(id) {
				continue
			}
			c.Add("states", 1)
			c.Nontrivial()
			vs := checkInputsUnchanged(a, b)
			c.Outcome(fmt.Sprintf("matrix:inputs-unchanged:viol=%v", len(vs) > 0))
			for _, v := range vs {
				c.Report(v)
			}
		}
	}
	menu := fnArityMenu()
	accepted := 0
	for _, call := range fnCalls {
		if _, err, p := xpx.Compile(call, nil); err == nil && p == nil {
			accepted++
		}
	}
	verifrt.RestoreAll()
	c.Note(fmt.Sprintf("function matrix: %d of %d sample calls compile; %d compilations in the arity menu", accepted, len(fnCalls), len(menu)))
	for _, call := range fnCalls {
		for _, other := range menu {
			if c.Expired() {
				return
			}
			id := "matrix:m:" + call + "|" + other
			if !c.Owns(id) || !c.Case(id) {
				continue
			}
			c.Add("states", 1)
			c.Nontrivial()
			vs := checkMachineAfterCompile(call, other)
			c.Outcome(fmt.Sprintf("matrix:machine-after-compile:changed=%v", len(vs) > 0))
			for _, v := range vs {
				c.Report(v)
			}
		}
	}
	for _, first := range menu {
		for _, then := range menu {
			if c.Expired() {
				return
			}
			id := "matrix:c:" + first + "|" + then
			if !c.Owns(id) || !c.Case(id) {
				continue
			}
			c.Add("states", 1)
			vs := checkCompileAfterCompile(first, then)
			c.Outcome(fmt.Sprintf("matrix:compile-after-compile:changed=%v", len(vs) > 0))
			for _, v := range vs {
				c.Report(v)
			}
		}
	}
}

func replay(c *engine.Ctx, sub string, raw json.RawMessage) []engine.Violation {
	ensureMachines()
	var r rec
	if json.Unmarshal(raw, &r) != nil {
		return []engine.Violation{{Key: "harness-bad-replay-file"}}
	}
	if len(r.History) > 0 {
		return checkHistory(r.History)
	}
	if sub == "matrix" {
		var mr matrixRec
		if json.Unmarshal(raw, &mr) != nil {
			return []engine.Violation{{Key: "harness-bad-replay-file"}}
		}
		if strings.HasPrefix(mr.Machine, "rereg:") {
			parts := strings.SplitN(mr.Machine, ":", 4)
			v := 0
			fmt.Sscanf(parts[2], "%d", &v)
			return checkReRegistration(parts[1], parts[3], v)
		}
		if strings.HasPrefix(mr.Machine, "shared:") {
			return checkInputsUnchanged(strings.TrimPrefix(mr.Machine, "shared:"), mr.Then)
		}
		if mr.Machine != "" {
			return checkMachineAfterCompile(mr.Machine, mr.Then)
		}
		return checkCompileAfterCompile(mr.First, mr.Then)
	}
	want := make([][]string, len(r.Scenario.Threads))
	for i, p := range r.Scenario.Threads {
		want[i] = isolated(p)
	}
	s, obs := execute(r.Scenario, r.Choices)
	return judge(r.Scenario, s, obs, want, r.Choices)
}

// FreeRun executes the thread bodies of every scenario with real goroutines
// and no scheduler (for the -race build).  It returns the number of executions.
func FreeRun(reps int) int {
	ensureMachines()
	progs := programs()
	n := 0
	for r := 0; r < reps; r++ {
		for i := 0; i < len(progs); i++ {
			for j := i; j < len(progs); j++ {
				verifrt.RestoreAll()
				done := make(chan bool, 3)
				for _, p := range [][]op{progs[i], progs[j], progs[(i+j)%len(progs)]} {
					p := p
					go func() {
						for _, o := range p {
							perform(o)
						}
						done <- true
					}()
				}
				<-done
				<-done
				<-done
				n++
			}
		}
	}
	// contexts in validation mode side by side
	for r := 0; r < reps; r++ {
		verifrt.RestoreAll()
		done := make(chan bool, 3)
		for _, p := range [][]op{{{Kind: "runvalid", Arg: 2}}, {{Kind: "runvalid", Arg: 2}, {Kind: "runvalid", Arg: customMachine, Ctx: 1}}, {{Kind: "compile", Arg: 1}}} {
			p := p
			go func() {
				for _, o := range p {
					perform(o)
				}
				done <- true
			}()
		}
		<-done
		<-done
		<-done
		n++
	}
	return n
}
