package c18

import (
	"fmt"
	"sort"
	"strings"

	"github.com/sdcio/yang-parser/data/datanode"
)

// S is the generator's own description of a schema node.
type S struct {
	Kind      string `json:"kind"` // container list leaf leaf-list choice case
	Name      string `json:"name"`
	Presence  bool   `json:"presence,omitempty"`
	Mandatory bool   `json:"mandatory,omitempty"`
	Default   string `json:"default,omitempty"` // leaf default / choice default case
	Min       int    `json:"min,omitempty"`
	Max       int    `json:"max,omitempty"` // 0 = unbounded
	Key       string `json:"key,omitempty"`
	Unique    [][]string `json:"unique,omitempty"` // unique statements, each a set of descendant paths "a" or "c/a"
	UniqVals  bool   `json:"uniqvals,omitempty"` // leaf takes values from {a,b}
	Config    string `json:"config,omitempty"`   // "", "true", "false" (used by other harnesses; no influence on validation)
	// leaf: the type is the typedef td, which has the default "tdflt"; it is the leaf's default
	// unless the leaf has one of its own or is mandatory (RFC 6020 7.6.1)
	TypedefDefault bool `json:"typedef_default,omitempty"`
	Kids      []*S   `json:"kids,omitempty"`
}

// effDefault: the default value of a leaf ("" none).
func (s *S) effDefault() string {
	switch {
	case s.Kind != "leaf":
		return ""
	case s.Default != "":
		return s.Default
	case s.TypedefDefault && !s.Mandatory:
		return "tdflt"
	}
	return ""
}

func usesTypedef(kids []*S) bool {
	for _, k := range kids {
		if k.TypedefDefault || usesTypedef(k.Kids) {
			return true
		}
	}
	return false
}

func (s *S) yang() string {
	var b strings.Builder
	switch s.Kind {
	case "leaf":
		if s.TypedefDefault {
			fmt.Fprintf(&b, "leaf %s { type td;", s.Name)
		} else {
			fmt.Fprintf(&b, "leaf %s { type string;", s.Name)
		}
		if s.Config != "" {
			fmt.Fprintf(&b, " config %s;", s.Config)
		}
		if s.Mandatory {
			b.WriteString(" mandatory true;")
		}
		if s.Default != "" {
			fmt.Fprintf(&b, " default %q;", s.Default)
		}
		b.WriteString(" }")
		return b.String()
	case "leaf-list":
		fmt.Fprintf(&b, "leaf-list %s { type string;", s.Name)
		if s.Config != "" {
			fmt.Fprintf(&b, " config %s;", s.Config)
		}
		if s.Min > 0 {
			fmt.Fprintf(&b, " min-elements %d;", s.Min)
		}
		if s.Max > 0 {
			fmt.Fprintf(&b, " max-elements %d;", s.Max)
		}
		b.WriteString(" }")
		return b.String()
	}
	fmt.Fprintf(&b, "%s %s {", s.Kind, s.Name)
	if s.Config != "" && s.Kind != "case" {
		fmt.Fprintf(&b, " config %s;", s.Config)
	}
	switch s.Kind {
	case "container":
		if s.Presence {
			b.WriteString(" presence \"p\";")
		}
	case "list":
		fmt.Fprintf(&b, " key %s;", s.Key)
		if s.Min > 0 {
			fmt.Fprintf(&b, " min-elements %d;", s.Min)
		}
		if s.Max > 0 {
			fmt.Fprintf(&b, " max-elements %d;", s.Max)
		}
		for _, u := range s.Unique {
			fmt.Fprintf(&b, " unique %q;", strings.Join(u, " "))
		}
	case "choice":
		if s.Mandatory {
			b.WriteString(" mandatory true;")
		}
		if s.Default != "" {
			fmt.Fprintf(&b, " default %s;", s.Default)
		}
	}
	for _, k := range s.Kids {
		b.WriteString(" " + k.yang())
	}
	b.WriteString(" }")
	return b.String()
}

// D is a data node.
type D struct {
	Name   string   `json:"name"`
	Values []string `json:"values,omitempty"`
	Kids   []*D     `json:"kids,omitempty"`
}

func (d *D) node() datanode.DataNode {
	var ch []datanode.DataNode
	for _, k := range d.Kids {
		ch = append(ch, k.node())
	}
	return datanode.CreateDataNode(d.Name, ch, d.Values)
}

func (d *D) count() int {
	n := 1
	for _, k := range d.Kids {
		n += k.count()
	}
	return n
}

func (d *D) String() string {
	if len(d.Kids) == 0 {
		return d.Name + "=" + strings.Join(d.Values, ",")
	}
	var p []string
	for _, k := range d.Kids {
		p = append(p, k.String())
	}
	return d.Name + "{" + strings.Join(p, " ") + "}"
}

func (d *D) kid(name string) *D {
	for _, k := range d.Kids {
		if k.Name == name {
			return k
		}
	}
	return nil
}

// dataNodes flattens choices/cases: the data-visible children of a schema node.
func dataNodes(kids []*S) []*S {
	var out []*S
	for _, k := range kids {
		if k.Kind == "choice" || k.Kind == "case" {
			out = append(out, dataNodes(k.Kids)...)
		} else {
			out = append(out, k)
		}
	}
	return out
}

// ---------------------------------------------------------------- data enumeration

// variants returns every possible data subtree for schema node s (nil = absent), cost <= budget.
func variants(s *S, budget int) []*D {
	out := []*D{nil}
	if budget < 1 {
		return out
	}
	switch s.Kind {
	case "leaf":
		vals := []string{"v"}
		if s.UniqVals {
			vals = []string{"a", "b"}
		}
		if s.effDefault() != "" {
			vals = []string{"v", s.effDefault()}
		}
		for _, v := range vals {
			out = append(out, &D{Name: s.Name, Values: []string{v}})
		}
	case "leaf-list":
		for n := 1; n <= 3; n++ {
			out = append(out, &D{Name: s.Name, Values: []string{"1", "2", "3"}[:n]})
		}
		out = append(out, &D{Name: s.Name}) // present but empty
	case "container":
		for _, kids := range combos(dataNodes(s.Kids), budget-1) {
			out = append(out, &D{Name: s.Name, Kids: kids})
		}
	case "list":
		// entries k1..kn; each entry: key leaf + any combination of the other children
		others := []*S{}
		for _, k := range dataNodes(s.Kids) {
			if k.Name != s.Key {
				others = append(others, k)
			}
		}
		var entryVariants func(key string, budget int) []*D
		entryVariants = func(key string, budget int) []*D {
			var es []*D
			for _, kids := range combos(others, budget-2) {
				es = append(es, &D{Name: key, Kids: append([]*D{{Name: s.Key, Values: []string{key}}}, kids...)})
			}
			return es
		}
		out = append(out, &D{Name: s.Name}) // list node without entries
		var rec func(i int, acc []*D, left int)
		rec = func(i int, acc []*D, left int) {
			if i > 0 {
				out = append(out, &D{Name: s.Name, Kids: append([]*D{}, acc...)})
			}
			if i == 3 || left < 2 {
				return
			}
			for _, e := range entryVariants(fmt.Sprintf("k%d", i+1), left) {
				rec(i+1, append(acc, e), left-e.count())
			}
		}
		rec(0, nil, budget-1)
	}
	var fit []*D
	for _, d := range out {
		if d == nil || d.count() <= budget {
			fit = append(fit, d)
		}
	}
	return fit
}

// combos returns every combination of child subtrees with total cost <= budget.
func combos(kids []*S, budget int) [][]*D {
	if len(kids) == 0 {
		return [][]*D{nil}
	}
	var out [][]*D
	for _, v := range variants(kids[0], budget) {
		c := 0
		if v != nil {
			c = v.count()
		}
		for _, rest := range combos(kids[1:], budget-c) {
			if v == nil {
				out = append(out, rest)
			} else {
				out = append(out, append([]*D{v}, rest...))
			}
		}
	}
	return out
}

// ---------------------------------------------------------------- reference: validation

// missing collects "path: name" for every mandatory node missing under the
// (existing) data node d whose schema children are kids.
func missingUnder(kids []*S, d *D, path string, out *[]string) {
	present := func(name string) bool { return d != nil && d.kid(name) != nil }
	anyPresent := func(nodes []*S) bool {
		for _, n := range dataNodes([]*S{{Kind: "case", Kids: nodes}}) {
			if present(n.Name) {
				return true
			}
		}
		return false
	}
	for _, k := range kids {
		switch k.Kind {
		case "leaf":
			if k.Mandatory && !present(k.Name) {
				*out = append(*out, path+": "+k.Name)
			}
		case "list", "leaf-list":
			if k.Min > 0 && !present(k.Name) {
				*out = append(*out, path+": "+k.Name)
			}
		case "container":
			if !k.Presence && !present(k.Name) {
				// look through the non-presence container
				missingUnder(k.Kids, nil, path+"/"+k.Name, out)
			}
		case "choice":
			if !anyPresent(k.Kids) {
				if k.Mandatory {
					*out = append(*out, path+": choice "+k.Name)
				}
				continue
			}
			// the active case(s): every case with a present node
			for _, ca := range k.Kids {
				nodes := []*S{ca}
				if ca.Kind == "case" {
					nodes = ca.Kids
				}
				if anyPresent(nodes) {
					missingUnder(nodes, d, path, out)
				}
			}
		case "case":
			missingUnder(k.Kids, d, path, out)
		}
	}
}

// validateRef returns the sorted list of complaints.
func validateRef(kids []*S, d *D, path string, out *[]string) {
	missingUnder(kids, d, path, out)
	for _, k := range dataNodes(kids) {
		c := d.kid(k.Name)
		if c == nil {
			continue
		}
		p := path + "/" + k.Name
		switch k.Kind {
		case "leaf-list":
			if n := len(c.Values); (k.Min > 0 && n < k.Min) || (k.Max > 0 && n > k.Max) {
				*out = append(*out, p+": cardinality")
			}
		case "list":
			n := len(c.Kids)
			if (k.Min > 0 && n < k.Min) || (k.Max > 0 && n > k.Max) {
				*out = append(*out, p+": cardinality")
				continue // the implementation stops at the cardinality error of a list
			}
			for _, u := range k.Unique {
				seen := map[string][]string{}
				for _, e := range c.Kids {
					var vals []string
					complete := true
					for _, up := range u {
						cur := e
						for _, el := range strings.Split(up, "/") {
							if cur != nil {
								cur = cur.kid(el)
							}
						}
						if cur == nil || len(cur.Values) == 0 {
							complete = false
							break
						}
						vals = append(vals, cur.Values[0])
					}
					if complete {
						key := strings.Join(vals, "\x00")
						seen[key] = append(seen[key], e.Name)
					}
				}
				for _, es := range seen {
					if len(es) > 1 {
						*out = append(*out, p+": unique")
					}
				}
			}
			for _, e := range c.Kids {
				validateRef(k.Kids, e, p+"/"+e.Name, out)
			}
		case "container":
			validateRef(k.Kids, c, p, out)
		}
	}
}

// ---------------------------------------------------------------- reference: defaults

func hasDefaults(kids []*S) bool {
	for _, k := range kids {
		switch k.Kind {
		case "leaf":
			if k.effDefault() != "" {
				return true
			}
		case "container":
			if !k.Presence && hasDefaults(k.Kids) {
				return true
			}
		case "choice":
			if k.Default != "" {
				for _, ca := range k.Kids {
					if ca.Name == k.Default {
						nodes := []*S{ca}
						if ca.Kind == "case" {
							nodes = ca.Kids
						}
						if hasDefaults(nodes) {
							return true
						}
					}
				}
			}
		case "case":
			if hasDefaults(k.Kids) {
				return true
			}
		}
	}
	return false
}

// decorate returns the default-decorated children of an existing node.
func decorate(kids []*S, d *D) []*D {
	var out []*D
	present := func(name string) bool { return d != nil && d.kid(name) != nil }
	var add func(kids []*S)
	add = func(kids []*S) {
		for _, k := range kids {
			switch k.Kind {
			case "leaf":
				if !present(k.Name) && k.effDefault() != "" {
					out = append(out, &D{Name: k.Name, Values: []string{k.effDefault()}})
				}
			case "container":
				if !present(k.Name) && !k.Presence && hasDefaults(k.Kids) {
					out = append(out, &D{Name: k.Name, Kids: decorate(k.Kids, nil)})
				}
			case "choice":
				active := ""
				for _, ca := range k.Kids {
					nodes := []*S{ca}
					if ca.Kind == "case" {
						nodes = ca.Kids
					}
					for _, n := range dataNodes(nodes) {
						if present(n.Name) {
							active = ca.Name
						}
					}
				}
				if active == "" {
					active = k.Default
				}
				for _, ca := range k.Kids {
					if ca.Name == active && active != "" {
						if ca.Kind == "case" {
							add(ca.Kids)
						} else {
							add([]*S{ca})
						}
					}
				}
			case "case":
				add(k.Kids)
			}
		}
	}
	// explicit data first (decorated recursively), in data order
	if d != nil {
		for _, c := range d.Kids {
			var sk *S
			for _, k := range dataNodes(kids) {
				if k.Name == c.Name {
					sk = k
				}
			}
			out = append(out, decorateNode(sk, c))
		}
	}
	add(kids)
	return out
}

func decorateNode(s *S, d *D) *D {
	if s == nil {
		return d
	}
	switch s.Kind {
	case "container":
		return &D{Name: d.Name, Kids: decorate(s.Kids, d)}
	case "list":
		n := &D{Name: d.Name}
		for _, e := range d.Kids {
			n.Kids = append(n.Kids, &D{Name: e.Name, Kids: decorate(s.Kids, e)})
		}
		return n
	}
	return d
}

// canon renders a tree with siblings sorted.
func canon(kids []*D, path string, out *[]string) {
	sorted := append([]*D{}, kids...)
	sort.SliceStable(sorted, func(i, j int) bool { return sorted[i].Name < sorted[j].Name })
	for _, k := range sorted {
		p := path + "/" + k.Name
		if len(k.Kids) == 0 {
			*out = append(*out, p+"="+strings.Join(k.Values, ","))
		} else {
			*out = append(*out, p)
		}
		canon(k.Kids, p, out)
	}
}

// twoCases reports whether the data has nodes of two different cases of one
// choice somewhere (not a valid data tree: unspecified).
func twoCases(kids []*S, d *D) bool {
	if d == nil {
		return false
	}
	present := func(nodes []*S) bool {
		for _, n := range dataNodes(nodes) {
			if d.kid(n.Name) != nil {
				return true
			}
		}
		return false
	}
	var chk func(kids []*S) bool
	chk = func(kids []*S) bool {
		for _, k := range kids {
			switch k.Kind {
			case "choice":
				n := 0
				for _, ca := range k.Kids {
					nodes := []*S{ca}
					if ca.Kind == "case" {
						nodes = ca.Kids
					}
					if present(nodes) {
						n++
						if chk(nodes) {
							return true
						}
					}
				}
				if n > 1 {
					return true
				}
			case "case":
				if chk(k.Kids) {
					return true
				}
			}
		}
		return false
	}
	if chk(kids) {
		return true
	}
	for _, k := range dataNodes(kids) {
		c := d.kid(k.Name)
		if c == nil {
			continue
		}
		switch k.Kind {
		case "container":
			if twoCases(k.Kids, c) {
				return true
			}
		case "list":
			for _, e := range c.Kids {
				if twoCases(k.Kids, e) {
					return true
				}
			}
		}
	}
	return false
}
