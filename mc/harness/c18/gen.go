package c18

import (
	"fmt"
	"sort"
	"strings"
)

// Schema generator: every schema forest up to a node budget over the grammar
//
//	node   := leaf(plain|mandatory|default) | leaf-list(plain|min1|min2max2|max1)
//	        | container(np|presence){forest} | list(plain|min1|max1|min1max2 ; unique variants){forest}
//	        | choice(plain|mandatory|default=first case){case+}
//	case   := shorthand leaf/leaf-list/container/list | case{forest with >= 1 node}
//
// A leaf, leaf-list, container, list or choice costs 1; key leaves and explicit
// case wrappers are free.  Siblings are generated as multisets (non-decreasing
// rank), names are assigned afterwards in pre-order.

type gtree struct {
	s    *S
	cost int
	rank int
	sig  string
}

func cloneS(s *S) *S {
	c := *s
	c.Kids = nil
	for _, k := range s.Kids {
		c.Kids = append(c.Kids, cloneS(k))
	}
	c.Unique = nil
	for _, u := range s.Unique {
		c.Unique = append(c.Unique, append([]string{}, u...))
	}
	return &c
}

func sigOf(s *S) string {
	var b strings.Builder
	fmt.Fprintf(&b, "%s:%v:%v:%s:%d:%d:%v(", s.Kind, s.Presence, s.Mandatory, s.Default, s.Min, s.Max, s.Unique)
	for _, k := range s.Kids {
		b.WriteString(sigOf(k))
	}
	b.WriteString(")")
	return b.String()
}

func hasMandatoryDirect(kids []*S) bool {
	for _, k := range kids {
		switch k.Kind {
		case "leaf":
			if k.Mandatory {
				return true
			}
		case "leaf-list", "list":
			if k.Min > 0 {
				return true
			}
		case "choice":
			if k.Mandatory {
				return true
			}
		case "container":
			if !k.Presence && hasMandatoryDirect(k.Kids) {
				return true
			}
		case "case":
			if hasMandatoryDirect(k.Kids) {
				return true
			}
		}
	}
	return false
}

// genTrees returns all trees of cost <= budget (ranked), built bottom-up.
func genTrees(budget int) []gtree {
	var all []gtree
	seen := map[string]bool{}
	add := func(s *S, cost int) {
		sg := sigOf(s)
		if seen[sg] {
			return
		}
		seen[sg] = true
		all = append(all, gtree{s: s, cost: cost, sig: sg})
	}
	for b := 1; b <= budget; b++ {
		prev := append([]gtree{}, all...) // trees of cost < b
		// forests of total cost exactly n from prev (multisets by index)
		var forests func(start, left int, acc []*S, out *[][]*S)
		forests = func(start, left int, acc []*S, out *[][]*S) {
			if left == 0 {
				*out = append(*out, append([]*S{}, acc...))
				return
			}
			for i := start; i < len(prev); i++ {
				if prev[i].cost <= left {
					forests(i, left-prev[i].cost, append(acc, prev[i].s), out)
				}
			}
		}
		if b == 1 {
			add(&S{Kind: "leaf"}, 1)
			add(&S{Kind: "leaf", Mandatory: true}, 1)
			add(&S{Kind: "leaf", Default: "dflt"}, 1)
			add(&S{Kind: "leaf-list"}, 1)
			add(&S{Kind: "leaf-list", Min: 1}, 1)
			add(&S{Kind: "leaf-list", Min: 2, Max: 2}, 1)
			add(&S{Kind: "leaf-list", Max: 1}, 1)
		}
		var fs [][]*S
		forests(0, b-1, nil, &fs)
		for _, f := range fs {
			// containers
			add(&S{Kind: "container", Kids: f}, b)
			add(&S{Kind: "container", Presence: true, Kids: f}, b)
			// lists
			for _, mm := range [][2]int{{0, 0}, {1, 0}, {0, 1}, {1, 2}} {
				add(&S{Kind: "list", Key: "k", Min: mm[0], Max: mm[1], Kids: f}, b)
			}
			for _, u := range []string{"U1", "U12", "U1U2"} {
				if n := len(uniqueCandidates(f, "")); (u == "U1" && n >= 1) || n >= 2 {
					add(&S{Kind: "list", Key: "k", Kids: f, Unique: [][]string{{u}}}, b)
				}
			}
			// choices: every non-empty forest is a set of cases; each member is a shorthand case
			// unless it is a choice (needs an explicit case); additionally the whole forest as
			// one explicit case, and the first member wrapped explicitly
			if len(f) == 0 {
				continue
			}
			var shorthand []*S
			ok := true
			for _, m := range f {
				if m.Kind == "choice" {
					shorthand = append(shorthand, &S{Kind: "case", Kids: []*S{m}})
				} else {
					shorthand = append(shorthand, m)
				}
			}
			_ = ok
			caseSets := [][]*S{shorthand, {{Kind: "case", Kids: f}}}
			if len(f) >= 2 {
				caseSets = append(caseSets, append([]*S{{Kind: "case", Kids: f[:1]}}, shorthand[1:]...))
				caseSets = append(caseSets, []*S{{Kind: "case", Kids: f[:1]}, {Kind: "case", Kids: f[1:]}})
			}
			for _, cs := range caseSets {
				add(&S{Kind: "choice", Kids: cs}, b)
				add(&S{Kind: "choice", Mandatory: true, Kids: cs}, b)
				for di := range cs {
					nodes := []*S{cs[di]}
					if cs[di].Kind == "case" {
						nodes = cs[di].Kids
					}
					if hasMandatoryDirect(nodes) {
						continue // RFC 6020 7.9.3: no mandatory nodes directly under the default case
					}
					add(&S{Kind: "choice", Default: fmt.Sprintf("#%d", di), Kids: cs}, b)
				}
			}
		}
	}
	for i := range all {
		all[i].rank = i
	}
	return all
}

// uniqueCandidates lists the descendant-path (by position) of leaves a unique
// statement may name: direct leaves without default, then leaves inside
// non-presence containers.  Paths are slash-joined child indices.
func uniqueCandidates(kids []*S, prefix string) []string {
	var out []string
	for i, k := range kids {
		if k.Kind == "leaf" && k.effDefault() == "" {
			out = append(out, fmt.Sprintf("%s%d", prefix, i))
		}
	}
	for i, k := range kids {
		if k.Kind == "container" && !k.Presence {
			out = append(out, uniqueCandidates(k.Kids, fmt.Sprintf("%s%d/", prefix, i))...)
		}
	}
	return out
}

// genSchemas returns every schema (forest of top-level nodes) of total cost <= budget,
// finalised: deep-copied, named, unique statements and default cases resolved.
func genSchemas(budget int) [][]*S {
	trees := genTrees(budget)
	var out [][]*S
	var rec func(start, left int, acc []*S)
	rec = func(start, left int, acc []*S) {
		if len(acc) > 0 {
			out = append(out, finalise(acc))
		}
		for i := start; i < len(trees); i++ {
			if trees[i].cost <= left {
				rec(i, left-trees[i].cost, append(acc, trees[i].s))
			}
		}
	}
	rec(0, budget, nil)
	return out
}

func finalise(forest []*S) []*S {
	var out []*S
	n := 0
	var name func(s *S)
	name = func(s *S) {
		n++
		prefix := map[string]string{"leaf": "l", "leaf-list": "ll", "container": "c", "list": "li", "choice": "ch", "case": "ca"}[s.Kind]
		s.Name = fmt.Sprintf("%s%d", prefix, n)
		for _, k := range s.Kids {
			name(k)
		}
		switch s.Kind {
		case "choice":
			if strings.HasPrefix(s.Default, "#") {
				var di int
				fmt.Sscanf(s.Default, "#%d", &di)
				s.Default = s.Kids[di].Name
			}
		case "list":
			if len(s.Unique) == 1 && len(s.Unique[0]) == 1 && strings.HasPrefix(s.Unique[0][0], "U") {
				spec := s.Unique[0][0]
				cands := uniqueCandidates(s.Kids, "")
				resolve := func(pos string) string {
					var parts []string
					cur := s.Kids
					for _, ix := range strings.Split(pos, "/") {
						var i int
						fmt.Sscanf(ix, "%d", &i)
						parts = append(parts, cur[i].Name)
						cur[i].UniqVals = cur[i].Kind == "leaf"
						cur = cur[i].Kids
					}
					return strings.Join(parts, "/")
				}
				switch spec {
				case "U1":
					s.Unique = [][]string{{resolve(cands[0])}}
				case "U12":
					s.Unique = [][]string{{resolve(cands[0]), resolve(cands[1])}}
				case "U1U2":
					s.Unique = [][]string{{resolve(cands[0])}, {resolve(cands[1])}}
				}
			}
			s.Kids = append([]*S{{Kind: "leaf", Name: "k"}}, s.Kids...)
		}
	}
	for _, t := range forest {
		c := cloneS(t)
		name(c)
		out = append(out, c)
	}
	return out
}

// schemaText renders a generated schema for reports.
func schemaText(kids []*S) string {
	var parts []string
	if usesTypedef(kids) {
		parts = append(parts, "typedef td { type string; default \"tdflt\"; }")
	}
	for _, k := range kids {
		parts = append(parts, k.yang())
	}
	return strings.Join(parts, " ")
}

var _ = sort.Strings
