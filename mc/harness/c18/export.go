package c18

import (
	"fmt"
	"strings"

	"github.com/sdcio/yang-parser/data/datanode"
)

// Exports for other harnesses that quantify over "all schemas x all valid data trees".

func GenSchemas(budget int) [][]*S { return genSchemas(budget) }

func SchemaText(kids []*S) string { return schemaText(kids) }

// DataTrees returns every data tree (as the children of a root) of at most budget nodes.
func DataTrees(kids []*S, budget int) [][]*D { return combos(dataNodes(kids), budget) }

func (d *D) Node() datanode.DataNode { return d.node() }

// ValidTree: the reference has no complaint about the tree, it has no nodes of two cases of one
// choice, no list node without entries, no leaf-list without values and no empty non-presence container.
func ValidTree(kids []*S, root *D) bool {
	var complaints []string
	validateRef(kids, root, "", &complaints)
	return len(complaints) == 0 && !twoCases(kids, root) && wellFormed(kids, root)
}

func wellFormed(kids []*S, d *D) bool {
	for _, k := range dataNodes(kids) {
		c := d.kid(k.Name)
		if c == nil {
			continue
		}
		switch k.Kind {
		case "leaf-list":
			if len(c.Values) == 0 {
				return false
			}
		case "list":
			if len(c.Kids) == 0 {
				return false
			}
			for _, e := range c.Kids {
				if !wellFormed(k.Kids, e) {
					return false
				}
			}
		case "container":
			if len(c.Kids) == 0 && !k.Presence {
				return false
			}
			if !wellFormed(k.Kids, c) {
				return false
			}
		}
	}
	return true
}

// Clone returns a deep copy of a schema forest.
func Clone(kids []*S) []*S {
	var out []*S
	for _, k := range kids {
		out = append(out, cloneS(k))
	}
	return out
}

// Nodes lists every node of the forest in pre-order (key leaves and case wrappers excepted).
func Nodes(kids []*S) []*S { return nodesExcept(kids, nil) }

// (the key leaf of a list is its first child: it is recognised by position, not by its name,
// so that renamed schemas may call other leaves "k" too)
func nodesExcept(kids []*S, key *S) []*S {
	var out []*S
	for _, k := range kids {
		if k != key && k.Kind != "case" {
			out = append(out, k)
		}
		if k.Kind == "list" && len(k.Kids) > 0 && k.Kids[0].Kind == "leaf" && k.Kids[0].Name == k.Key {
			out = append(out, nodesExcept(k.Kids, k.Kids[0])...)
		} else {
			out = append(out, nodesExcept(k.Kids, key)...)
		}
	}
	return out
}

// RenameShared returns a copy of the forest in which names are unique among
// siblings only, as in real modules: the first data node of every scope that is
// not a list entry is called "k" (the name of every list key), the others n1,
// n2, ... per scope.  Choice defaults and unique paths follow the renaming.
// The generator's own names are unique in the whole schema, which hides
// anything that looks a node up by name in the wrong scope.
func RenameShared(kids []*S) []*S {
	out := Clone(kids)
	m := map[string]string{}
	var scope func(kids []*S, key *S)
	scope = func(kids []*S, key *S) {
		i := 0
		for _, n := range dataNodes(kids) {
			if n == key {
				continue
			}
			if key == nil && i == 0 {
				m[n.Name] = "k"
			} else {
				m[n.Name] = fmt.Sprintf("n%d", i)
			}
			i++
		}
		for _, n := range dataNodes(kids) {
			switch n.Kind {
			case "container":
				scope(n.Kids, nil)
			case "list":
				scope(n.Kids, n.Kids[0])
			}
		}
	}
	scope(out, nil)
	var apply func(kids []*S, key *S)
	apply = func(kids []*S, key *S) {
		for _, n := range kids {
			if n != key {
				if nn, ok := m[n.Name]; ok {
					n.Name = nn
				}
			}
			if n.Kind == "choice" {
				if nn, ok := m[n.Default]; ok {
					n.Default = nn
				}
			}
			for ui, u := range n.Unique {
				for pi, p := range u {
					parts := strings.Split(p, "/")
					for ci, comp := range parts {
						if nn, ok := m[comp]; ok {
							parts[ci] = nn
						}
					}
					n.Unique[ui][pi] = strings.Join(parts, "/")
				}
			}
			if n.Kind == "list" {
				apply(n.Kids, n.Kids[0])
			} else {
				apply(n.Kids, key)
			}
		}
	}
	apply(out, nil)
	return out
}

// WithTypedefDefaults returns a copy of the forest in which every leaf without a default of its
// own (the mandatory ones too, key leaves excepted) takes its type from a typedef that has a
// default: a default that comes from the type, and a mandatory leaf that must NOT get it.
func WithTypedefDefaults(kids []*S) []*S {
	out := Clone(kids)
	for _, n := range Nodes(out) {
		if n.Kind == "leaf" && n.Default == "" && !n.UniqVals {
			n.TypedefDefault = true
		}
	}
	return out
}

// WithConfigFalse returns a copy of the schema in which every top-level node is state data
// (config false, inherited by everything below): the default validation covers state data too,
// with the same rules.
func WithConfigFalse(kids []*S) []*S {
	out := Clone(kids)
	for _, n := range out {
		n.Config = "false"
	}
	return out
}

// WithStateBelowTop returns a copy of the schema in which the top-level nodes stay configuration and
// every node directly below a top-level container or list (the key leaf excepted; a choice as a whole)
// is state data: config and state constraints meet in one tree.
func WithStateBelowTop(kids []*S) []*S {
	out := Clone(kids)
	for _, top := range out {
		if top.Kind != "container" && top.Kind != "list" {
			continue
		}
		for i, k := range top.Kids {
			if top.Kind == "list" && i == 0 && k.Kind == "leaf" && k.Name == top.Key {
				continue
			}
			k.Config = "false"
		}
	}
	return out
}
