// Package c18: structural data validation and default decoration are exact.
package c18

import (
	"encoding/json"
	"fmt"
	"sort"
	"strings"

	"verif/engine"
	"verif/gen"

	"github.com/sdcio/yang-parser/data/datanode"
	"github.com/sdcio/yang-parser/schema"
)

func init() {
	engine.Register(&engine.Harness{
		Prop:   "C18",
		Run:    run,
		Replay: replay,
		Rule: "E1 over (schema x data tree): (1) every schema forest up to the node bound generated from the grammar leaf(plain|mandatory|default) / leaf-list(min,max variants) / container(np|presence) / list(min,max variants; one unique, one unique over two leaves, two unique statements; over direct and descendant leaves) / choice(plain|mandatory|default case) with shorthand and explicit cases, siblings as multisets, x every data tree up to the data bound; (2) 9 hand-written deeper schemas from a grammar with nested non-presence and presence containers, mandatory leaves, leaves with defaults, lists with min/max-elements and unique sets over direct and descendant leaves, leaf-lists with min/max, choices (mandatory, default case, choice nested in a case), no must/when/leafref; data trees: every combination of the instantiable nodes (lists with 0-3 entries, leaf-lists with 0-3 values, unique leaves over a 2-value alphabet, default leaves explicit or absent) up to the node bound. " +
			"schema.ValidateSchema's error verdict and error count are compared with a reference that lists every complaint (missing mandatory node looking through non-presence containers and active cases, min/max violation, unique violation); the walk of schema.AddDefaults is compared with the reference decoration, explicit data must be unchanged and decorating the decorated tree must change nothing. Non-trivial = the tree has >= 2 nodes or the reference has a complaint or adds a default.",
		Bound: map[string]string{
			"quick":    "all generated schemas of <= 3 nodes x all data trees of <= 5 nodes, all generated schemas of 4 nodes x all data trees of <= 3 nodes; 9 hand-written schemas x all data trees of <= 7 nodes",
			"thorough": "all generated schemas of <= 4 nodes x all data trees of <= 6 nodes; 9 hand-written schemas x all data trees of <= 9 nodes",
		},
		Assumptions: []string{"schema-side must/when evaluation is outside this harness (contexts built by NewCtxFromMach have no path stacks)"},
	})
}

func lf(n string) *S { return &S{Kind: "leaf", Name: n} }

func schemas() [][]*S {
	return [][]*S{
		// 0: mandatory leaf under nested non-presence containers
		{{Kind: "container", Name: "a", Kids: []*S{{Kind: "container", Name: "b", Kids: []*S{{Kind: "leaf", Name: "m", Mandatory: true}, lf("o")}}, lf("x")}}},
		// 1: presence container stops the search
		{{Kind: "container", Name: "p", Presence: true, Kids: []*S{{Kind: "leaf", Name: "m", Mandatory: true}, {Kind: "container", Name: "np", Kids: []*S{{Kind: "leaf", Name: "m2", Mandatory: true}}}}}, lf("t")},
		// 2: list with min/max and unique
		{{Kind: "list", Name: "li", Key: "k", Min: 1, Max: 2, Unique: [][]string{{"u"}}, Kids: []*S{lf("k"), {Kind: "leaf", Name: "u", UniqVals: true}}}},
		// 3: unique over a set incl. a descendant
		{{Kind: "list", Name: "li", Key: "k", Unique: [][]string{{"u", "c/d"}}, Kids: []*S{lf("k"), {Kind: "leaf", Name: "u", UniqVals: true}, {Kind: "container", Name: "c", Kids: []*S{{Kind: "leaf", Name: "d", UniqVals: true}}}}}},
		// 4: leaf-list limits and mandatory under a list entry
		{{Kind: "leaf-list", Name: "ll", Min: 2, Max: 2}, {Kind: "container", Name: "c", Kids: []*S{{Kind: "leaf-list", Name: "l2", Min: 1}, {Kind: "list", Name: "e", Key: "k", Kids: []*S{lf("k"), {Kind: "leaf", Name: "m", Mandatory: true}}}}}},
		// 5: defaults: leaf, through non-presence containers, not through presence
		{{Kind: "container", Name: "c", Kids: []*S{{Kind: "leaf", Name: "d", Default: "dv"}, lf("x"), {Kind: "container", Name: "n", Kids: []*S{{Kind: "leaf", Name: "d2", Default: "dv2"}}}, {Kind: "container", Name: "p", Presence: true, Kids: []*S{{Kind: "leaf", Name: "d3", Default: "dv3"}}}}}, {Kind: "leaf", Name: "top", Default: "t"}},
		// 6: choice with default case and defaults in cases; mandatory leaf in a case
		{{Kind: "container", Name: "c", Kids: []*S{{Kind: "choice", Name: "ch", Default: "c1", Kids: []*S{
			{Kind: "case", Name: "c1", Kids: []*S{{Kind: "leaf", Name: "a1", Default: "da"}, lf("a2")}},
			{Kind: "case", Name: "c2", Kids: []*S{{Kind: "leaf", Name: "b1", Default: "db"}, {Kind: "leaf", Name: "b2", Mandatory: true}}}}}}}},
		// 7: mandatory choice, choice nested in a case
		{{Kind: "container", Name: "c", Presence: true, Kids: []*S{{Kind: "choice", Name: "ch", Mandatory: true, Kids: []*S{
			{Kind: "case", Name: "c1", Kids: []*S{lf("a"), {Kind: "choice", Name: "in", Mandatory: true, Kids: []*S{lf("i1"), lf("i2")}}}},
			lf("b")}}}}},
		// 9 (index 8): a unique leaf whose sibling sorts before it in natural order and after it in byte
		// order (p2 / p10): lookups among "sorted" children must use one order consistently
		{{Kind: "list", Name: "li", Key: "k", Unique: [][]string{{"p10"}}, Kids: []*S{lf("k"), {Kind: "leaf", Name: "p10", UniqVals: true}, lf("p2")}}},
		// 10 (index 9): the same through a container
		{{Kind: "list", Name: "li", Key: "k", Unique: [][]string{{"c/p10"}}, Kids: []*S{lf("k"), {Kind: "container", Name: "c", Kids: []*S{{Kind: "leaf", Name: "p10", UniqVals: true}, lf("p2")}}}}},
		// 8 (index 10): defaults inside list entries and a list in a non-presence container with min-elements
		{{Kind: "container", Name: "c", Kids: []*S{{Kind: "list", Name: "li", Key: "k", Min: 1, Kids: []*S{lf("k"), {Kind: "leaf", Name: "d", Default: "dv"}, {Kind: "container", Name: "n", Kids: []*S{{Kind: "leaf", Name: "d2", Default: "x"}}}}}}}},
	}
}

type rec struct {
	Schema int  `json:"schema"` // index into schemas(); -1: Gen holds a generated schema
	Gen    []*S `json:"gen,omitempty"`
	Data   *D   `json:"data"`
}

func (r rec) kids() []*S {
	if r.Schema < 0 {
		return r.Gen
	}
	return schemas()[r.Schema]
}

func (r rec) label() string {
	if r.Schema < 0 {
		return "generated"
	}
	return fmt.Sprintf("schema%d", r.Schema)
}

func compileKids(kids []*S) (schema.ModelSet, string) {
	var b strings.Builder
	b.WriteString("module a { namespace \"urn:a\"; prefix a; " + schemaText(kids) + " }")
	r := gen.Compile(map[string]string{"a": b.String()}, gen.Options{})
	if !r.OK() {
		return nil, fmt.Sprintf("%s: %v %v\n%s", r.Verdict(), r.Err, r.Panic, b.String())
	}
	return r.MS, ""
}

var genModel struct {
	key string
	ms  schema.ModelSet
	msg string
}

var compiled = map[int]schema.ModelSet{}

func modelFor(si int) (schema.ModelSet, string) {
	if ms, ok := compiled[si]; ok {
		return ms, ""
	}
	var b strings.Builder
	b.WriteString("module a { namespace \"urn:a\"; prefix a;")
	for _, k := range schemas()[si] {
		b.WriteString(" " + k.yang())
	}
	b.WriteString(" }")
	r := gen.Compile(map[string]string{"a": b.String()}, gen.Options{})
	if !r.OK() {
		return nil, fmt.Sprintf("%s: %v %v\n%s", r.Verdict(), r.Err, r.Panic, b.String())
	}
	compiled[si] = r.MS
	return r.MS, ""
}

func walkData(n datanode.DataNode, path string, out *[]string, depth int) {
	if depth > 30 {
		*out = append(*out, path+"/<too deep>")
		return
	}
	kids := append([]datanode.DataNode{}, n.YangDataChildren()...)
	sort.SliceStable(kids, func(i, j int) bool { return kids[i].YangDataName() < kids[j].YangDataName() })
	for _, k := range kids {
		p := path + "/" + k.YangDataName()
		if len(k.YangDataChildren()) == 0 {
			*out = append(*out, p+"="+strings.Join(k.YangDataValues(), ","))
		} else {
			*out = append(*out, p)
		}
		walkData(k, p, out, depth+1)
	}
}

func check(r rec) (vs []engine.Violation, nComplaints int, addsDefaults bool) {
	var ms schema.ModelSet
	var msg string
	wit := fmt.Sprintf("schema %d data %s", r.Schema, r.Data)
	if r.Schema < 0 {
		text := schemaText(r.Gen)
		if genModel.key != text {
			genModel.key = text
			genModel.ms, genModel.msg = compileKids(r.Gen)
		}
		ms, msg = genModel.ms, genModel.msg
		wit = fmt.Sprintf("schema {%s} data %s", text, r.Data)
	} else {
		ms, msg = modelFor(r.Schema)
	}
	mk := func(key, detail string) {
		vs = append(vs, engine.Violation{Key: key, Witness: wit, Detail: detail, Harness: "data", Replay: engine.JSON(r)})
	}
	if ms == nil {
		mk("schema-does-not-compile", msg)
		return
	}
	kids := r.kids()
	// ---- validation
	var want []string
	validateRef(kids, r.Data, "", &want)
	sort.Strings(want)
	nComplaints = len(want)
	var errs []error
	var p any
	func() {
		defer func() { p = recover() }()
		_, errs, _ = schema.ValidateSchema(ms, r.Data.node(), false)
	}()
	switch {
	case p != nil:
		mk("panic-in-validate:"+r.label(), fmt.Sprint(p))
	case len(want) == 0 && len(errs) > 0:
		mk("valid-tree-rejected:"+r.label()+shapeKey(r), fmt.Sprint(errs))
	case len(want) > 0 && len(errs) == 0:
		mk("invalid-tree-accepted:"+r.label()+":"+kinds(want)+shapeKey(r), fmt.Sprintf("expected complaints %v", want))
	case len(want) != len(errs):
		mk("different-number-of-complaints:"+r.label()+":"+kinds(want)+shapeKey(r), fmt.Sprintf("expected %d %v, got %d %v", len(want), want, len(errs), errs))
	}
	// ---- the other ways into the validation: the same verdict through ValidateSchemaWithLog and through
	// a SchemaValidator; and the four validation types partition the complaints (state-only s,
	// config-only c, unconditional u): |all| = s+c+u, |state| = s+u, |config| = c+u, |none| = u, hence
	// |all| + |none| = |state| + |config| for every schema and tree
	if p == nil {
		count := func(f func() []error) (n int) {
			defer func() {
				if recover() != nil {
					n = -1
				}
			}()
			return len(f())
		}
		node := func() datanode.DataNode { return r.Data.node() }
		withLog := count(func() []error { _, e, _ := schema.ValidateSchemaWithLog(ms, node()); return e })
		sv := func(vt schema.ValidationType) int {
			return count(func() []error {
				_, e, _ := schema.NewSchemaValidator(ms, node()).SetValidation(vt).Validate()
				return e
			})
		}
		dflt := count(func() []error { _, e, _ := schema.NewSchemaValidator(ms, node()).Validate(); return e })
		all, st, cf, none := sv(schema.ValidateAll), sv(schema.ValidateState), sv(schema.ValidateConfig), sv(schema.DontValidate)
		switch {
		case withLog != len(errs) || dflt != len(errs) || all != len(errs):
			mk("validation-entry-points-disagree:"+r.label()+shapeKey(r), fmt.Sprintf("ValidateSchema %d complaints, ValidateSchemaWithLog %d, SchemaValidator default %d, SchemaValidator ValidateAll %d (-1: panic)", len(errs), withLog, dflt, all))
		case st < 0 || cf < 0 || none < 0:
			mk("panic-in-validate:validation-type:"+r.label(), fmt.Sprintf("state %d config %d none %d (-1: panic)", st, cf, none))
		case all+none != st+cf || st > all || cf > all || none > st || none > cf:
			mk("validation-types-do-not-partition-the-complaints:"+r.label()+shapeKey(r), fmt.Sprintf("ValidateAll %d, ValidateState %d, ValidateConfig %d, DontValidate %d", all, st, cf, none))
		}
	}
	// ---- defaults
	var wantTree, gotTree, gotTwice, orig, rawBefore, rawAfter []string
	errsAfter := len(errs)
	dec := decorate(kids, r.Data)
	canon(dec, "", &wantTree)
	canon(r.Data.Kids, "", &orig)
	addsDefaults = len(wantTree) != len(orig)
	func() {
		defer func() { p = recover() }()
		raw := r.Data.node()
		walkData(raw, "", &rawBefore, 0)
		d1 := schema.AddDefaults(ms, raw)
		walkData(d1, "", &gotTree, 0)
		walkData(schema.AddDefaults(ms, d1), "", &gotTwice, 0)
		// the history raw -> decorated view read (twice) -> raw again: the explicit data the view was
		// made from is what it was, and validates as it did
		walkData(raw, "", &rawAfter, 0)
		_, e2, _ := schema.ValidateSchema(ms, raw, false)
		errsAfter = len(e2)
	}()
	switch {
	case p != nil:
		mk("panic-in-adddefaults:"+r.label(), fmt.Sprint(p))
	case strings.Join(rawBefore, "\n") != strings.Join(rawAfter, "\n"):
		mk("decoration-alters-the-explicit-data:"+r.label()+shapeKey(r), fmt.Sprintf("the tree handed to AddDefaults was %v and is %v after its decorated view was read", rawBefore, rawAfter))
	case errsAfter != len(errs):
		mk("decoration-alters-the-explicit-data:validation:"+r.label()+shapeKey(r), fmt.Sprintf("%d complaints before, %d for the same tree after its decorated view was read", len(errs), errsAfter))
	case strings.Join(wantTree, "\n") != strings.Join(gotTree, "\n"):
		mk("wrong-decoration:"+r.label()+shapeKey(r), fmt.Sprintf("expected %v got %v", wantTree, gotTree))
	case strings.Join(gotTree, "\n") != strings.Join(gotTwice, "\n"):
		mk("decoration-not-idempotent:"+r.label()+shapeKey(r), fmt.Sprintf("once %v twice %v", gotTree, gotTwice))
	}
	return
}

// shapeKey abstracts a generated schema for finding keys: the kinds and flags, no names.
func shapeKey(r rec) string {
	if r.Schema >= 0 {
		return ""
	}
	var b strings.Builder
	var w func(kids []*S)
	w = func(kids []*S) {
		for i, k := range kids {
			if k.Kind == "leaf" && k.Name == "k" {
				continue
			}
			if i > 0 {
				b.WriteString(",")
			}
			b.WriteString(k.Kind)
			if k.Presence {
				b.WriteString("!p")
			}
			if k.Mandatory {
				b.WriteString("!m")
			}
			if k.Default != "" {
				b.WriteString("!d")
			}
			if k.TypedefDefault {
				b.WriteString("!td")
			}
			if k.Min > 0 || k.Max > 0 {
				fmt.Fprintf(&b, "!%d..%d", k.Min, k.Max)
			}
			if len(k.Unique) > 0 {
				fmt.Fprintf(&b, "!u%d", len(k.Unique))
			}
			if len(k.Kids) > 0 {
				b.WriteString("{")
				w(k.Kids)
				b.WriteString("}")
			}
		}
	}
	w(r.Gen)
	return ":" + b.String()
}

func kinds(want []string) string {
	m := map[string]bool{}
	for _, w := range want {
		switch {
		case strings.HasSuffix(w, ": cardinality"):
			m["cardinality"] = true
		case strings.HasSuffix(w, ": unique"):
			m["unique"] = true
		case strings.Contains(w, ": choice "):
			m["mandatory-choice"] = true
		default:
			m["mandatory"] = true
		}
	}
	var ks []string
	for k := range m {
		ks = append(ks, k)
	}
	sort.Strings(ks)
	return strings.Join(ks, "+")
}

func runGenerated(c *engine.Ctx) {
	if c.Quick() {
		runGeneratedBound(c, 3, 5, 0, "")
		runGeneratedBound(c, 4, 3, 4, "")        // only the schemas with exactly 4 nodes
		runGeneratedBound(c, 3, 4, 0, "shared")  // names shared between levels
		runGeneratedBound(c, 4, 1, 4, "shared")  // ... and the 4-node schemas with trees of <= 1 node
		runGeneratedBound(c, 3, 4, 0, "typedef") // defaults that come from a typedef
		runGeneratedBound(c, 3, 4, 0, "state")   // every top-level node config false
		runGeneratedBound(c, 3, 4, 0, "mixed")   // config true at the top, config false one level down
		return
	}
	runGeneratedBound(c, 4, 6, 0, "")
	runGeneratedBound(c, 4, 5, 0, "shared")
	runGeneratedBound(c, 4, 5, 0, "typedef")
	runGeneratedBound(c, 4, 5, 0, "state")
	runGeneratedBound(c, 4, 5, 0, "mixed")
}

func schemaCost(kids []*S) int {
	n := 0
	for _, k := range kids {
		if !(k.Kind == "leaf" && k.Name == "k") && k.Kind != "case" {
			n++
		}
		n += schemaCost(k.Kids)
	}
	return n
}

// shared: "shared" = the schemas are renamed so that names are unique among siblings only (RenameShared);
// "typedef" = every leaf without a default of its own takes a type with a default (WithTypedefDefaults);
// "state" = every top-level node is config false (WithConfigFalse).
func runGeneratedBound(c *engine.Ctx, sb, db, onlyCost int, shared string) {
	all := genSchemas(sb)
	c.Note(fmt.Sprintf("%d generated schemas of <= %d nodes, data trees of <= %d nodes, names shared between levels: %v", len(all), sb, db, shared))
	for gi, kids := range all {
		switch shared {
		case "shared":
			kids = RenameShared(kids)
		case "typedef":
			kids = WithTypedefDefaults(kids)
		case "state":
			kids = WithConfigFalse(kids)
		case "mixed":
			kids = WithStateBelowTop(kids)
		}
		if c.Expired() {
			return
		}
		if onlyCost > 0 && schemaCost(kids) != onlyCost {
			continue
		}
		if !c.Owns(fmt.Sprintf("gen:%d:%v", gi, shared)) {
			continue
		}
		if _, msg := compileKids(kids); msg != "" {
			// the generator only produces valid YANG: a schema that does not compile is a defect of
			// the harness (or of the compiler) and must not be skipped silently
			c.Add("generated_schemas_rejected_by_the_compiler", 1)
			c.Report(engine.Violation{Key: "generated-schema-does-not-compile", Witness: schemaText(kids), Detail: msg, Harness: "generated-schema"})
			continue
		}
		c.Add("schemas", 1)
		trees := combos(dataNodes(kids), db)
		for ti, t := range trees {
			id := fmt.Sprintf("g%d/%d:%d:%d:%v", sb, db, gi, ti, shared)
			if !c.Case(id) {
				continue
			}
			root := &D{Name: "root", Kids: t}
			if twoCases(kids, root) {
				c.Add("unspecified_skipped", 1)
				continue
			}
			c.Add("states", 1)
			c.Add("transitions", int64(root.count()))
			vs, n, adds := check(rec{Schema: -1, Gen: kids, Data: root})
			if root.count() > 2 || n > 0 || adds {
				c.Nontrivial()
			}
			c.Outcome(fmt.Sprintf("complaints=%v:defaults=%v:viol=%v", n > 0, adds, len(vs) > 0))
			for _, v := range vs {
				c.Report(v)
			}
		}
	}
}

func run(c *engine.Ctx) {
	runGenerated(c)
	budget := 7
	if !c.Quick() {
		budget = 9
	}
	for si, kids := range schemas() {
		b := budget
		if si == 8 {
			b = budget + 1 // (two entries that agree on the unique leaf, one of them with the sibling: 8 nodes)
		}
		trees := combos(dataNodes(kids), b)
		c.Note(fmt.Sprintf("schema %d: %d data trees", si, len(trees)))
		for ti, t := range trees {
			if c.Expired() {
				return
			}
			id := fmt.Sprintf("%d:%d", si, ti)
			if !c.Owns(id) || !c.Case(id) {
				continue
			}
			root := &D{Name: "root", Kids: t}
			if twoCases(kids, root) {
				c.Add("unspecified_skipped", 1)
				continue
			}
			c.Add("states", 1)
			c.Add("transitions", int64(root.count()))
			vs, n, adds := check(rec{Schema: si, Data: root})
			if root.count() > 2 || n > 0 || adds {
				c.Nontrivial()
			}
			c.Outcome(fmt.Sprintf("complaints=%v:defaults=%v:viol=%v", n > 0, adds, len(vs) > 0))
			for _, v := range vs {
				c.Report(v)
			}
			if ti == len(trees)/2 && si%4 == 2 {
				c.Sample(map[string]any{"schema": si, "data": root.String()})
			}
		}
	}
}

func replay(c *engine.Ctx, sub string, raw json.RawMessage) []engine.Violation {
	var r rec
	if json.Unmarshal(raw, &r) != nil || r.Data == nil || r.Schema >= len(schemas()) || (r.Schema < 0 && len(r.Gen) == 0) {
		return []engine.Violation{{Key: "harness-bad-replay-file"}}
	}
	vs, _, _ := check(r)
	return vs
}
