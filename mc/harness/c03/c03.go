// Package c03: operator precedence, associativity and whitespace are honoured.
package c03

import (
	"encoding/json"
	"fmt"
	"strings"

	"verif/engine"
	"verif/mock"
	"verif/ref/xp10"
	"verif/xpx"
)

func init() {
	engine.Register(&engine.Harness{
		Prop:   "C03",
		Run:    run,
		Replay: replay,
		Rule: "E1 over operator chains: every chain o1 op1 o2 ... of the bounded length over all 13 binary operators ('|' between paths), 6 operand kinds and every placement of unary minus (0-3 repetitions per operand in 2-chains, with and without blanks); the reference XPath 1.0 parser produces the fully parenthesised form; original and parenthesised form are compiled and run by the real code and must give the same PrintMachine() listing and the same result, and the result must equal the reference value of the reference AST. " +
			"Whitespace: for every chain of 3 operands, every token boundary x {removed, blank, tab+newline+blank, CR}, one boundary at a time, all at once, and all removed except one (two at a time in the thorough tier); additionally all of this for 2-operand chains over one-character names, one-digit numbers, literals with a leading blank and short paths; removal only where the reference tokenizer re-lexes the same tokens. Non-trivial = the chain mixes at least two precedence levels or repeats a non-associative-looking operator (-, div, mod, relational, equality).",
		Bound: map[string]string{
			"quick":    "chains of 3 operands over 6 operand kinds x 8 unary-minus placements; chains of 4 numeric operands x 16 placements; whitespace variants of all 3-chains over 2 operand kinds; chains inside one function argument",
			"thorough": "additionally chains of 5 operands (2 operand kinds), 4-chains over 3 operand kinds, two whitespace boundaries at a time",
		},
		Assumptions: []string{
			"the listing of PrintMachine() identifies the program (instruction names and operands)",
			"the reference parser (ref/xp10) implements the REC's grammar",
		},
	})
}

var ops = []string{"or", "and", "=", "!=", "<", "<=", ">", ">=", "+", "-", "*", "div", "mod"}

var level = map[string]int{"or": 0, "and": 1, "=": 2, "!=": 2, "<": 3, "<=": 3, ">": 3, ">=": 3, "+": 4, "-": 4, "*": 5, "div": 5, "mod": 5}

// operand kinds (source text); the last two are paths for '|'
var operands = []string{"2", "'3'", "true()", "string-length('ab')", "n5", "(1 + 2)"}
var numeric = []string{"2", "7"}
var stepOperands = []string{".", "..", "*", "n5/..", "n5/.", "div", "n5[1]"}

var tree, refVals = xpx.ScalarTree()
var env = xpx.ScalarEnv(refVals)

type obs struct {
	listing string
	res     string
	o       xpx.Obs
	err     string
}

func observe(src string) obs {
	m, err, p := xpx.Compile(src, nil)
	if p != nil {
		return obs{err: fmt.Sprint("PANIC ", p)}
	}
	if err != nil {
		return obs{err: "compile error"}
	}
	tree.Reset()
	o := xpx.RunMachine(m, tree.At(mock.Elem{Name: "ctx"}))
	return obs{listing: m.PrintMachine(), res: o.String(), o: o}
}

type rec struct {
	A string `json:"a"`
	B string `json:"b"`
	Kind string `json:"kind"`
}

func opsOf(src string) string {
	toks, _ := xp10.Tokenize(src)
	var o []string
	for _, t := range toks {
		if t.Kind == xp10.TOperator {
			o = append(o, t.Val)
		}
	}
	return strings.Join(o, " ")
}

// compare checks that two renderings are equivalent for the implementation.
func compare(kind, a, b string, withRef bool) []engine.Violation {
	oa, ob := observe(a), observe(b)
	mk := func(key, detail string) []engine.Violation {
		return []engine.Violation{{Key: key, Witness: a + "   vs   " + b, Detail: detail, Harness: kind, Replay: engine.JSON(rec{a, b, kind})}}
	}
	switch {
	case oa.err != "" && ob.err != "":
		if oa.err != ob.err {
			return mk(kind+":different-errors:"+opsOf(a), oa.err+" vs "+ob.err)
		}
		return mk(kind+":both-rejected:"+opsOf(a), "a well-formed expression does not compile: "+oa.err)
	case oa.err != "" || ob.err != "":
		return mk(kind+":one-rejected:"+opsOf(a), fmt.Sprintf("first: %q second: %q", oa.err, ob.err))
	case oa.listing != ob.listing:
		return mk(kind+":different-program:"+opsOf(a), "PrintMachine() differs:\n"+oa.listing+"\n--- vs ---\n"+ob.listing)
	case oa.res != ob.res:
		return mk(kind+":different-result:"+opsOf(a), oa.res+" vs "+ob.res)
	}
	if withRef {
		n, err := xp10.Parse(a)
		if err != nil {
			return mk("harness-reference-parse", err.Error())
		}
		if v, err := xp10.Eval(n, env); err == nil {
			if ok, where := xpx.Agrees(oa.o, v); !ok {
				// only grouping errors belong to this property: re-evaluate the fully
				// parenthesised operands pairwise is C01's job.  A disagreement here with
				// identical programs for both variants means both group wrongly the same way
				// or an operator is wrong (C01).  Report only if C01-clean operands are used.
				return mk(kind+":value-differs-from-reference:"+opsOf(a), where+": expected "+xpx.Expected(v)+" got "+oa.res)
			}
		}
	}
	return nil
}

func interesting(chainOps []string) bool {
	for i := 1; i < len(chainOps); i++ {
		if level[chainOps[i]] != level[chainOps[i-1]] {
			return true
		}
		switch chainOps[i] {
		case "-", "div", "mod", "<", "<=", ">", ">=", "=", "!=":
			return true
		}
	}
	return false
}

type runner struct{ c *engine.Ctx }

func (r *runner) chain(opnds []string, chainOps []string, neg uint, wrap string) {
	var b strings.Builder
	for i, o := range opnds {
		if i > 0 {
			b.WriteString(" " + chainOps[i-1] + " ")
		}
		if neg&(1<<uint(i)) != 0 {
			b.WriteString("- ")
		}
		b.WriteString(o)
	}
	src := b.String()
	if wrap != "" {
		src = strings.Replace(wrap, "%", src, 1)
	}
	if !r.c.Owns(src) {
		return
	}
	if !r.c.Case(src) {
		return
	}
	r.c.Add("states", 1)
	r.c.Add("transitions", int64(len(chainOps)))
	n, err := xp10.Parse(src)
	if err != nil {
		r.c.Report(engine.Violation{Key: "harness-reference-parse", Witness: src, Detail: err.Error()})
		return
	}
	full := n.FullyParenthesized()
	if interesting(chainOps) || neg != 0 {
		r.c.Nontrivial()
	}
	vs := compare("paren", src, full, true)
	r.c.Outcome(fmt.Sprintf("paren:%d-ops:viol=%v", len(chainOps), len(vs) > 0))
	for _, v := range vs {
		r.c.Report(v)
	}
}

func (r *runner) chains(n int, kinds []string, wrap string) {
	opnds := make([]string, n)
	chainOps := make([]string, n-1)
	var recOps func(i int)
	var recOpnd func(i int)
	recOpnd = func(i int) {
		if i == n {
			for neg := uint(0); neg < 1<<uint(n); neg++ {
				r.chain(opnds, chainOps, neg, wrap)
			}
			return
		}
		for _, k := range kinds {
			opnds[i] = k
			recOpnd(i + 1)
		}
	}
	recOps = func(i int) {
		if r.c.Expired() {
			return
		}
		if i == n-1 {
			recOpnd(0)
			return
		}
		for _, o := range ops {
			chainOps[i] = o
			recOps(i + 1)
		}
	}
	recOps(0)
}

var wsVariants = []string{"", " ", "\t\n ", "\r"}

// whitespace enumerates whitespace variants of one expression.
func (r *runner) whitespace(src string, pairs bool) {
	toks, err := xp10.Tokenize(src)
	if err != nil || len(toks) < 2 {
		return
	}
	text := func(t xp10.Token) string {
		if t.Kind == xp10.TLiteral {
			return "'" + t.Val + "'"
		}
		return t.Val
	}
	same := func(a, b []xp10.Token) bool {
		if len(a) != len(b) {
			return false
		}
		for i := range a {
			if a[i].Kind != b[i].Kind || a[i].Val != b[i].Val {
				return false
			}
		}
		return true
	}
	canon := make([]string, len(toks)-1)
	for i := range canon {
		canon[i] = " "
	}
	render := func(seps []string) string {
		var b strings.Builder
		for i, t := range toks {
			if i > 0 {
				b.WriteString(seps[i-1])
			}
			b.WriteString(text(t))
		}
		return b.String()
	}
	base := render(canon)
	try := func(seps []string, tag string) {
		v := render(seps)
		if v == base {
			return
		}
		if !r.c.Case("ws:" + v) {
			return
		}
		r.c.Add("states", 1)
		r.c.Add("transitions", 1)
		vt, err := xp10.Tokenize(v)
		if err != nil || !same(vt, toks) {
			r.c.Add("ws_not_equivalent_skipped", 1)
			return
		}
		r.c.Nontrivial()
		vs := compare("ws", base, v, false)
		r.c.Outcome(fmt.Sprintf("ws:%s:viol=%v", tag, len(vs) > 0))
		for _, x := range vs {
			r.c.Report(x)
		}
	}
	for i := range canon {
		for _, w := range wsVariants {
			s := append([]string{}, canon...)
			s[i] = w
			try(s, "one")
			if pairs {
				for j := i + 1; j < len(canon); j++ {
					for _, w2 := range wsVariants {
						s2 := append([]string{}, s...)
						s2[j] = w2
						try(s2, "two")
					}
				}
			}
		}
	}
	for _, w := range wsVariants {
		s := make([]string, len(canon))
		for i := range s {
			s[i] = w
		}
		try(s, "all")
	}
	// everything removed except one boundary (and except two in the pairs mode)
	for i := range canon {
		for _, w := range wsVariants[1:] {
			s := make([]string, len(canon))
			s[i] = w
			try(s, "all-but-one")
			if pairs {
				for j := i + 1; j < len(canon); j++ {
					s2 := append([]string{}, s...)
					s2[j] = " "
					try(s2, "all-but-two")
				}
			}
		}
	}
	// leading and trailing whitespace
	for _, w := range wsVariants[1:] {
		v := w + base + w
		if r.c.Case("ws:" + v) {
			r.c.Add("states", 1)
			for _, x := range compare("ws", base, v, false) {
				r.c.Report(x)
			}
		}
	}
}

func run(c *engine.Ctx) {
	r := &runner{c: c}
	r.chains(3, operands, "")
	r.chains(4, numeric, "")
	// operands that end in an abbreviated step, a wildcard or a name that is also an operator
	// name: whether the next token is an operator is decided by the token before it (XPath 3.7)
	r.chains(3, stepOperands, "")
	r.chains(3, numeric, "boolean(%)")
	r.chains(3, numeric, "concat(%, 'x')")
	r.chains(2, numeric, "substring('abcdef', %, 2)")
	if !c.Quick() {
		r.chains(5, numeric, "")
		r.chains(4, []string{"2", "'3'", "n5"}, "")
	}
	// depth ladder: the same left-associative chain written flat and with every grouping explicit, for
	// every number of operands up to 40 (the parenthesised form nests n-1 deep); nested calls and
	// nested predicates of every depth up to 24 around a two-level expression
	{
		deep := func(src string) {
			if !c.Owns(src) || !c.Case(src) {
				return
			}
			c.Add("states", 1)
			c.Nontrivial()
			n, err := xp10.Parse(src)
			if err != nil {
				c.Report(engine.Violation{Key: "harness-reference-parse", Witness: src, Detail: err.Error()})
				return
			}
			vs := compare("depth", src, n.FullyParenthesized(), false)
			c.Outcome(fmt.Sprintf("depth:viol=%v", len(vs) > 0))
			for _, v := range vs {
				c.Report(v)
			}
		}
		for _, op := range []string{"-", "div", "<", "and"} {
			chain := "2"
			for n := 2; n <= 40; n++ {
				chain += " " + op + " 2"
				deep(chain)
			}
		}
		for d := 1; d <= 24; d++ {
			deep(strings.Repeat("number(", d) + "1 + 2 * 3" + strings.Repeat(")", d))
			deep(strings.Repeat("(", d) + "2 * 3" + strings.Repeat(")", d) + " + 4")
			deep("1 - " + strings.Repeat("(", d) + "2 - 3" + strings.Repeat(")", d) + " - 4")
			deep(strings.Repeat("n5[", d) + "1 + 2 * 3 = 7" + strings.Repeat("]", d))
		}
	}
	// repeated unary minus (0-3 per operand, written with and without blanks)
	one := func(src string) {
		if !c.Owns(src) || !c.Case(src) {
			return
		}
		c.Add("states", 1)
		c.Add("transitions", 1)
		c.Nontrivial()
		n, err := xp10.Parse(src)
		if err != nil {
			c.Report(engine.Violation{Key: "harness-reference-parse", Witness: src, Detail: err.Error()})
			return
		}
		vs := compare("paren", src, n.FullyParenthesized(), true)
		c.Outcome(fmt.Sprintf("paren:unary-minus:viol=%v", len(vs) > 0))
		for _, v := range vs {
			c.Report(v)
		}
	}
	for _, minus := range []string{"- ", "-"} {
		for _, a := range operands {
			for na := 1; na <= 4; na++ {
				one(strings.Repeat(minus, na) + a)
				one("string(" + strings.Repeat(minus, na) + a + ")")
			}
			for _, b := range operands {
				for _, o := range ops {
					for na := 0; na <= 3; na++ {
						for nb := 0; nb <= 3; nb++ {
							if c.Expired() {
								return
							}
							if na+nb >= 2 {
								one(strings.Repeat(minus, na) + a + " " + o + " " + strings.Repeat(minus, nb) + b)
							}
						}
					}
				}
			}
		}
	}
	// union between paths binds tighter than everything else
	for _, o := range ops {
		for _, src := range []string{"n5 | sx " + o + " 2", "2 " + o + " n5 | sx", "- n5 | sx " + o + " 1"} {
			if c.Owns(src) && c.Case(src) {
				c.Add("states", 1)
				n, err := xp10.Parse(src)
				if err != nil {
					continue
				}
				for _, v := range compare("paren", src, n.FullyParenthesized(), false) {
					c.Report(v)
				}
			}
		}
	}
	c.Sample(map[string]any{"original": "2 - - 7 div 2 < 7", "parenthesised": "((2 - ((- 7) div 2)) < 7)"})
	// whitespace
	for _, o1 := range ops {
		for _, o2 := range ops {
			for _, a := range []string{"2", "n5"} {
				for _, b := range []string{"- 7", "string-length( 'ab' )", "( 1 + 2 )"} {
					src := a + " " + o1 + " " + b + " " + o2 + " 2"
					if c.Expired() {
						return
					}
					if c.Owns("ws:" + src) {
						r.whitespace(src, !c.Quick())
					}
				}
			}
		}
	}
	// one-character names, one-digit numbers and literals with a leading blank next to '/', '<', '>', '-'
	for _, o := range ops {
		for _, a := range []string{"/ a / b", "a", "1", "' x'", "/ a"} {
			for _, b := range []string{"- 1", "a", "' x'", "/ a", "1", "b - 1"} {
				src := a + " " + o + " " + b
				if c.Expired() {
					return
				}
				if c.Owns("ws:" + src) {
					r.whitespace(src, true)
				}
			}
		}
	}
	for _, src := range []string{"/ a / b - 1", "/ a / b and c", "1 < a or b", "a / b - 1 < c", "/ a / b [ k = 1 ] - 1",
		"/ a / b [ k = 'x' ] / c", "current ( ) / .. / x", "p:a / p:* / .. / . ", "a [ k = 1 ] [ j = 2 ]", "concat ( 'a' , \"b\" ) = 'ab'", "n5 * 2", "* * *", "div div div", "a | b"} {
		if c.Owns("ws:" + src) {
			r.whitespace(src, true)
		}
	}
	c.Sample(map[string]any{"canonical": "2 < - 7 div 2", "variant": "2<-7\t\n div\r2"})
}

func replay(c *engine.Ctx, sub string, raw json.RawMessage) []engine.Violation {
	var r rec
	if json.Unmarshal(raw, &r) != nil {
		return []engine.Violation{{Key: "harness-bad-replay-file"}}
	}
	return compare(r.Kind, r.A, r.B, r.Kind == "paren")
}
