// Package c07: YANG parsing is total and leaves nothing running.
package c07

import (
	"encoding/json"
	"fmt"
	"os"
	"path/filepath"
	"regexp"
	"sort"
	"strconv"
	"strings"

	"verif/engine"

	"github.com/sdcio/yang-parser/parse"
	"github.com/sdcio/yang-parser/verifrt"
)

const inputName = "IN.yang"

const skeleton = `module m{namespace "u";prefix p;`

// alphabet, simplest first.  The skeleton is one symbol so that short strings
// reach the statement parser, the cardinality checker and the symbol pass.
var alphabet = []string{"m", " ", ";", "{", "}", "\"", "'", "\n", "+", "/", "*", "\\", "\t", "é", skeleton}

var corpus = []string{
	`module m {
  namespace "urn:m"; // line comment
  prefix m;
  /* block
     comment */
  description "two
               lines" + ' and single';
  container c {
    leaf a { type string { pattern '[a-z]+'; } default "x\ty\\z\"q"; }
    list l { key k; leaf k { type uint8 { range "1..10"; } } }
    m:ext arg { m:nested; }
  }
  extension ext { argument name; }
}
`,
	"submodule s{belongs-to m{prefix m;}revision 2001-01-01;typedef t{type int8;}grouping g{leaf x{type t;}}uses g;}",
	"module m{namespace u;prefix p;leaf a{type string;}leaf a{type string;}}",
	"module m{namespace u;prefix p;container c{leaf a{type string;mandatory T;}}}\n// trailing",
	"module m{namespace u;prefix p;choice c{case a{leaf x{type empty;}}leaf y{type boolean;}}}/* unclosed",
	"module m{yang-version 1;namespace u;prefix p;typedef t{type t2;}typedef t{type string;}}",
	// one module per kind of error raised after the statement has been read (the statement-level
	// checks of parse/ast.go and parse/arg.go); every such error must name the input, a line and a column
	"module m{namespace u;prefix p;\nrevision 2001-01-01;\nrevision 2002-02-02;}",
	"module m{namespace u;prefix p;revision 2001-01-01;revision 2001-01-01;}",
	"submodule s{belongs-to m{prefix p;}\nrevision 2001-01-01{description d;}revision 2002-02-02;}",
	"module m{prefix p;namespace u;import x{prefix x;}\nnamespace v;}",
	"module m{namespace u;prefix p;leaf a{type string;}\nimport x{prefix x;}}",
	"module m{namespace u;prefix p;revision 2001-13-40;}",
	"module m{namespace u;prefix p;foo bar;}",
	"module m{namespace u;prefix p;leaf 1a{type string;}}",
	"module m{namespace u;prefix p;list l{key \"a,b\";leaf a{type string;}}}",
	"module m{namespace u;prefix p;leaf l{type int8{range \"a\";}}leaf n{type string{length \"1..\";}}}",
	"module m{namespace u;prefix p;deviation /x{}leaf-list l{type string;min-elements -1;}}",
	"module m{namespace u;prefix p;leaf l{type string;config T;status old;}}",
	// symbol-table errors (raised after the whole text has been read): names of built-in types,
	// shadowing of typedefs and groupings in nested scopes
	"module m{namespace u;prefix p;typedef string{type int8;}}",
	"module m{namespace u;prefix p;container c{typedef union{type int8;}leaf l{type union;}}}",
	"module m{namespace u;prefix p;grouping g{leaf a{type string;}}container c{grouping g{leaf b{type string;}}uses g;}}",
	"module m{namespace u;prefix p;typedef t{type int8;}list l{key k;leaf k{type t;}typedef t{type string;}}}",
}

func init() {
	engine.Register(&engine.Harness{
		Prop:   "C07",
		Run:    run,
		Replay: replay,
		Rule: "E1 prefix-tree enumeration of input texts over a 15-symbol alphabet (14 bytes/byte pairs + a module-header skeleton symbol), plus every byte-prefix and every single-byte deletion of corpus modules; " +
			"each text is parsed by the real parse.Parse as thread 0 of the cooperative scheduler (go/send/recv of the lexer pair are visible operations, function entries and loop back-edges tick against a step horizon). " +
			"Non-trivial = the text reaches beyond the first token (at least two lexer items were exchanged).",
		Bound: map[string]string{
			"quick":    "all strings of <=5 alphabet symbols; all byte prefixes + all single-byte deletions of the embedded corpus and /repo/parse/testschemas; one schedule per input while the execution is a producer/consumer pair on one channel (all interleavings are then Mazurkiewicz-equivalent), otherwise every schedule with <= 1 preemption (<= 200 schedules per input; thorough: <= 2 preemptions, <= 3000 schedules)",
			"thorough": "all strings of <=6 alphabet symbols, plus <=7 for strings starting with the skeleton symbol; prefixes x single-byte deletions of the corpus",
		},
		Assumptions: []string{
			"step horizon 64*len(input)+20000 ticks decides non-termination (normal parses use < 40 ticks per input byte)",
			"the lexer/parser pair communicates only through one channel, so one schedule per input covers all interleavings; the channel model in verifrt follows cap(ch)",
			"inputs outside the alphabet and longer than the bound are not covered",
		},
	})
}

type caseRec struct {
	Text    string `json:"text"`
	Choices []int  `json:"choices,omitempty"` // schedule (only for executions that are not a simple pair)
	Variant int    `json:"variant,omitempty"` // entry point (parseVariant)
}

var posRe = regexp.MustCompile(regexp.QuoteMeta(inputName) + `:(\d+):(\d+)`)

// check runs one text under the default schedule; when the execution is more than one
// producer and one consumer on a single channel (a select, a second channel, a lock, a third
// thread: then the interleavings are no longer all equivalent) every schedule with at most
// 2 preemptions is explored as well.
func check(text string) (vs []engine.Violation, outcome string, items int) {
	vs, outcome, items, s := checkSchedule(text, nil)
	if simplePair(s) {
		return
	}
	seen := map[string]bool{}
	for _, v := range vs {
		seen[v.Key] = true
	}
	engine.ExploreSchedules(schedBound, schedCap, func(ch []int) *verifrt.Sched {
		if len(ch) == 0 {
			return s // already executed
		}
		vs2, _, _, s2 := checkSchedule(text, ch)
		for _, v := range vs2 {
			if !seen[v.Key] {
				seen[v.Key] = true
				v.Witness += fmt.Sprintf(" schedule=%v", ch)
				v.Replay = engine.JSON(caseRec{Text: text, Choices: ch, Variant: parseVariant})
				vs = append(vs, v)
			}
		}
		return s2
	}, func(*verifrt.Sched, []int) {})
	return
}

// parseVariant selects the entry point checkSchedule goes through (0 = parse.Parse without extensions).
var parseVariant int

func extCardEverywhere(parse.NodeType) map[parse.NodeType]parse.Cardinality {
	return map[parse.NodeType]parse.Cardinality{parse.NodeConfigdHelp: {'0', 'n'}, parse.NodeOpdHelp: {'0', '1'}}
}

// preemption bound and execution cap per input for executions that are not a simple pair
var schedBound, schedCap = 1, int64(200)

// simplePair: two threads, one channel, only send / recv / close / spawn operations.
func simplePair(s *verifrt.Sched) bool {
	if s.NThreads() > 2 {
		return false
	}
	chans := map[string]bool{}
	for _, p := range s.Points {
		switch p.Op.Kind {
		case verifrt.OpSend, verifrt.OpRecv, verifrt.OpClose:
			chans[p.Op.Obj] = true
		case verifrt.OpSpawn, verifrt.OpStart, verifrt.OpYield:
		default:
			return false
		}
	}
	return len(chans) <= 1
}

func checkSchedule(text string, choices []int) (vs []engine.Violation, outcome string, items int, s *verifrt.Sched) {
	var tree *parse.Tree
	var err error
	var panicked any
	s = verifrt.RunControlled(choices, 200000, func() {
		verifrt.SetHorizon(int64(64*len(text) + 20000))
		defer func() {
			if r := recover(); r != nil {
				if _, ok := r.(*verifrt.HorizonError); ok {
					panic(r)
				}
				panicked = r
			}
		}()
		switch parseVariant {
		case 1:
			// an extension cardinality function that has something to add for EVERY statement type
			tree, err = parse.Parse(inputName, text, extCardEverywhere)
		case 2:
			// the two-step entry: a tree allocated first, parsed later (twice: the second parse
			// must not see anything of the first)
			t := parse.New(inputName, nil)
			t.Parse("module first { namespace u; prefix p; leaf a { type string; } }\n\n\n")
			tree, err = t.Parse(text)
		case 3:
			tree, err = parse.New(inputName, extCardEverywhere).Parse(text)
		default:
			tree, err = parse.Parse(inputName, text, nil)
		}
	})
	verifrt.SetHorizon(0)
	for _, p := range s.Points {
		if p.Op.Kind == verifrt.OpSend || p.Op.Kind == verifrt.OpSelect {
			items++
		}
	}
	mk := func(key, detail string) {
		if parseVariant != 0 {
			key += fmt.Sprintf(":entry-point-%d", parseVariant)
			detail = fmt.Sprintf("(entry point %d: 1 = Parse with an extension cardinality function, 2 = New + Parse twice, 3 = New with extensions + Parse) ", parseVariant) + detail
		}
		vs = append(vs, engine.Violation{Key: key, Witness: strconv.Quote(text), Detail: detail, Harness: "text", Replay: engine.JSON(caseRec{Text: text, Choices: choices, Variant: parseVariant})})
	}
	if s.BadReplay != "" {
		mk("harness-bad-replay", s.BadReplay)
		return vs, "bad", items, s
	}
	diverged := len(s.Diverged) > 0 || s.Livelock
	t0blocked := !s.Thread0Done()
	switch {
	case diverged || t0blocked:
		mk("nonterminating:"+endClass(text), fmt.Sprintf("Parse did not return: diverged threads %v, livelock=%v, blocked=%v", s.Diverged, s.Livelock, s.Blocked))
		return vs, "nonterminating", items, s
	case panicked != nil:
		mk("panic", fmt.Sprintf("Parse panicked: %v", panicked))
		return vs, "panic", items, s
	case len(s.Panics) > 0:
		mk("panic-in-goroutine", strings.Join(s.Panics, "; "))
		return vs, "panic", items, s
	}
	if len(s.Blocked) > 0 {
		mk("goroutine-leak:"+errClass(err), fmt.Sprintf("after Parse returned (err=%v) goroutines remain blocked for ever: %v", err, s.Blocked))
	}
	if err == nil {
		outcome = "accepted"
		if tree == nil || tree.Root == nil {
			mk("nil-error-nil-root", "Parse returned a nil error but no root statement")
		}
	} else {
		outcome = "rejected:" + errClass(err)
		msg := err.Error()
		m := posRe.FindStringSubmatch(msg)
		if m == nil {
			mk("error-without-position:"+errClass(err), "error does not name the input with line:col: "+msg)
		} else {
			line, _ := strconv.Atoi(m[1])
			col, _ := strconv.Atoi(m[2])
			lines := strings.Split(text, "\n")
			switch {
			case line < 1 || line > len(lines)+1:
				mk("error-line-outside-input", fmt.Sprintf("line %d but the input has %d lines: %s", line, len(lines), msg))
			case line <= len(lines) && (col < 0 || col > len(lines[line-1])+1):
				mk("error-column-outside-line", fmt.Sprintf("column %d but line %d has %d bytes: %s", col, line, len(lines[line-1]), msg))
			case line == len(lines)+1 && col > 1:
				mk("error-column-outside-line", fmt.Sprintf("column %d on the line after the last: %s", col, msg))
			}
		}
	}
	return vs, outcome, items, s
}

// endClass describes how the text ends (used in finding keys).
func endClass(text string) string {
	if text == "" {
		return "empty"
	}
	switch c := text[len(text)-1]; {
	case c == ' ' || c == '\t' || c == '\n' || c == '\r':
		return "ends-in-separator"
	case strings.ContainsRune(";{}\"'+", rune(c)):
		return "ends-in-" + string(c)
	}
	return "ends-in-word"
}

var digits = regexp.MustCompile(`[0-9]+`)
var quoted = regexp.MustCompile(`"[^"]*"|'[^']*'|<[^>]*>`)

// errClass abstracts an error message into a coarse class: the first words of
// its last ": "-separated segment, with quoted text and numbers removed.
func errClass(err error) string {
	if err == nil {
		return "nil"
	}
	m := err.Error()
	if i := strings.Index(m, inputName); i >= 0 {
		m = m[i+len(inputName):]
	}
	m = quoted.ReplaceAllString(m, "Q")
	m = digits.ReplaceAllString(m, "N")
	segs := strings.Split(m, ": ")
	last := segs[len(segs)-1]
	if strings.HasPrefix(last, "unexpected") || len(segs) < 3 {
		last = strings.Join(segs[1:], ": ")
	}
	w := strings.Fields(last)
	if len(w) > 3 {
		w = w[:3]
	}
	return strings.Join(w, " ")
}

func run(c *engine.Ctx) {
	if !c.Quick() {
		schedBound, schedCap = 2, 3000
	}
	if c.Shard == 0 {
		// the channel / select model of the scheduler is checked against Go's semantics first
		for _, problem := range engine.SchedSelfCheck() {
			c.Report(engine.Violation{Key: "harness-scheduler-selfcheck", Witness: problem, Detail: problem})
		}
		c.Note("scheduler self-check: 8 concurrent toy programs explored without preemption bound, outcome sets as Go specifies")
	}
	maxLen := 5
	if !c.Quick() {
		maxLen = 6
	}
	report := func(text string) {
		vs, outcome, items := check(text)
		c.Outcome(outcome)
		if items >= 2 {
			c.Nontrivial()
		}
		for _, v := range vs {
			// confirm determinism before reporting
			key := v.Key
			if !engine.Confirm(2, key, func() []engine.Violation { r, _, _ := check(text); return r }) {
				v.Key = "harness-nondeterministic:" + key
			}
			c.Report(v)
		}
	}
	// A: prefix tree over the alphabet.  Subtrees at depth 2 are the shard unit.
	var rec func(prefix string, depth int, owned bool, limit int)
	rec = func(prefix string, depth int, owned bool, limit int) {
		if c.Expired() {
			return
		}
		if owned || depth < 2 {
			if depth >= 2 || c.Shard == 0 {
				c.Add("states", 1)
				if c.Case("text:" + strconv.Quote(prefix)) {
					report(prefix)
				}
			}
		}
		if depth == limit {
			return
		}
		for _, a := range alphabet {
			next := prefix + a
			o := owned
			if depth+1 == 2 {
				o = c.Owns(next)
				if !o {
					continue
				}
			}
			if depth+1 >= 2 || c.Shard == 0 {
				c.Add("transitions", 1)
			}
			l := limit
			if depth == 0 && a == skeleton && !c.Quick() {
				l = limit + 1
			}
			rec(next, depth+1, o, l)
		}
	}
	rec("", 0, false, maxLen)
	c.Sample(map[string]any{"text": alphabet[14] + "m m;}", "kind": "alphabet string"})

	// B: corpus prefixes and single-byte deletions
	texts := append([]string{}, corpus...)
	if files, err := filepath.Glob("/repo/parse/testschemas/*.yang"); err == nil {
		sort.Strings(files)
		for _, f := range files {
			if b, err := os.ReadFile(f); err == nil && len(b) < 4000 {
				texts = append(texts, string(b))
			}
		}
	}
	for ti, t := range texts {
		for i := 0; i <= len(t); i++ {
			if c.Expired() {
				return
			}
			id := fmt.Sprintf("corpus:%d:prefix:%d", ti, i)
			if c.Owns(id) {
				c.Add("states", 1)
				c.Add("transitions", 1)
				if c.Case(id) {
					report(t[:i])
				}
				// the same prefix through the other entry points
				for variant := 1; variant < 4 && ti < len(corpus); variant++ {
					if c.Case(fmt.Sprintf("%s:entry-point-%d", id, variant)) {
						c.Add("states", 1)
						parseVariant = variant
						report(t[:i])
						parseVariant = 0
					}
				}
			}
			if i < len(t) {
				id = fmt.Sprintf("corpus:%d:del:%d", ti, i)
				if c.Owns(id) {
					c.Add("states", 1)
					c.Add("transitions", 1)
					if c.Case(id) {
						report(t[:i] + t[i+1:])
					}
				}
			}
			if !c.Quick() && i < len(t) && i%3 == 0 {
				// prefix x deletion: delete byte j in prefix i (j over a window before i)
				for j := max(0, i-12); j < i; j++ {
					id = fmt.Sprintf("corpus:%d:prefix:%d:del:%d", ti, i, j)
					if c.Owns(id) {
						c.Add("states", 1)
						c.Add("transitions", 1)
						if c.Case(id) {
							report(t[:j] + t[j+1:i])
						}
					}
				}
			}
		}
	}
	// C: statement headers of every length: a keyword and an argument of 1..70 bytes whose last
	// character is ASCII, two-byte, three-byte or four-byte, followed by the ways a block can go wrong
	// (error texts quote a bounded context of the statement)
	for _, last := range []string{"z", "\u00fc", "\u20ac", "\U0001d11e"} {
		for n := 0; n <= 70; n++ {
			arg := strings.Repeat("a", n) + last
			for ti, tail := range []string{" { value 1;; }", " { value 1; ", " {", " { } }", ";;", " { \"", "\" { value 1; }"} {
				for qi, q := range []string{"", "\""} {
					text := "module m{namespace u;prefix p;typedef t{type enumeration{enum " + q + arg + q + tail
					id := fmt.Sprintf("header:%q:%d:%d:%d", last, n, ti, qi)
					if !c.Owns(id) || !c.Case(id) {
						continue
					}
					c.Add("states", 1)
					c.Add("transitions", 1)
					report(text)
				}
			}
		}
	}
	// D: typed arguments: every statement whose argument is checked by a helper of its own (dates,
	// numbers, booleans, enumerated words, identifiers, paths, URIs) x a menu of argument values at and
	// around the boundaries of every one of those helpers
	for fi, frame := range typedArgFrames {
		for vi, v := range typedArgValues() {
			for variant := 0; variant < 4; variant++ {
				id := fmt.Sprintf("typedarg:%d:%d:%d", fi, vi, variant)
				if !c.Owns(id) || !c.Case(id) {
					continue
				}
				c.Add("states", 1)
				c.Add("transitions", 1)
				parseVariant = variant
				report("module m{namespace u;prefix p;" + strings.Replace(frame, "ARG", "\""+v+"\"", 1) + "}")
				parseVariant = 0
			}
		}
	}
	// E: every keyword the parser knows (RFC 6020 and the configd / opd extension sets), with and
	// without argument and block, at module level, below a container, below a type and inside itself
	for ki, kw := range allKeywords {
		for fi, frame := range []string{"KW \"x\";", "KW \"x\" { }", "KW;", "KW { }", "KW x { KW y; }", "container c { KW \"x\"; }", "leaf l { type string { KW \"x\"; } }", "KW \"x\" { description d; KW2 z; }", "KW 1 { KW2 \"2\" { KW 3; } }",
			"KW \"x\" { configd:help \"h\"; }", "KW { opd:help h; opd:help h2; }", "uses g { refine l { KW x; configd:help \"h\"; } }"} {
			for variant := 0; variant < 4; variant++ {
				id := fmt.Sprintf("keyword:%d:%d:%d", ki, fi, variant)
				if !c.Owns(id) || !c.Case(id) {
					continue
				}
				c.Add("states", 1)
				c.Add("transitions", 1)
				kw2 := allKeywords[(ki+1)%len(allKeywords)]
				parseVariant = variant
				report("module m{namespace u;prefix p;" + strings.ReplaceAll(strings.ReplaceAll(frame, "KW2", kw2), "KW", kw) + "}")
				parseVariant = 0
			}
		}
	}
	c.Sample(map[string]any{"text": corpus[1][:40], "kind": "corpus prefix"})
}

var allKeywords = strings.Fields("module import include revision submodule belongs-to typedef type container must leaf leaf-list list choice case anyxml grouping uses rpc input output notification augment identity extension argument feature deviation deviate range length pattern enum bit contact description namespace organization prefix reference yang-version revision-date default status units path require-instance config if-feature presence when error-app-tag error-message mandatory min-elements max-elements ordered-by key unique refine base yin-element value position fraction-digits " +
	"configd:help configd:validate configd:normalize configd:syntax configd:priority configd:allowed configd:begin configd:end configd:create configd:delete configd:update configd:subst configd:secret configd:error-message configd:pattern-help configd:call-rpc configd:get-state configd:defer-actions configd:must " +
	"opd:argument opd:augment opd:command opd:option opd:on-enter opd:inherit opd:repeatable opd:pass-opc-args opd:privileged opd:local opd:secret opd:help opd:allowed opd:pattern-help p:ext q:unknown unknown")

var typedArgFrames = []string{
	"revision ARG;", "import o{prefix o;revision-date ARG;}", "typedef t{type enumeration{enum e{value ARG;}}}", "typedef t{type bits{bit b{position ARG;}}}",
	"leaf-list l{type string;min-elements ARG;}", "leaf-list l{type string;max-elements ARG;}", "typedef t{type decimal64{fraction-digits ARG;}}",
	"typedef t{type string{length ARG;}}", "typedef t{type int8{range ARG;}}", "leaf l{type string;mandatory ARG;}", "leaf l{type string;config ARG;}",
	"typedef t{type instance-identifier{require-instance ARG;}}", "extension e{argument a{yin-element ARG;}}", "leaf l{type string;status ARG;}",
	"leaf-list l{type string;ordered-by ARG;}", "deviation /a{deviate ARG;}", "leaf ARG{type string;}", "import o{prefix ARG;}", "list l{key ARG;leaf k{type string;}}",
	"list l{key k;unique ARG;leaf k{type string;}}", "leaf l{type leafref{path ARG;}}", "augment ARG{leaf z{type string;}}", "uses g{refine ARG{description d;}}",
	"deviation ARG{deviate not-supported;}", "leaf l{type ARG;}", "leaf l{type string;if-feature ARG;}", "identity i{base ARG;}", "include ARG;", "namespace ARG;",
	"leaf l{type string;must ARG;}", "leaf l{type string{pattern ARG;}}", "leaf l{type string;default ARG;}", "p:ext ARG;",
}

func typedArgValues() []string {
	out := []string{"", " ", "-", "2020-1-01", "2020-01-1", "2020-01-01x", "2020--01", "20200101", "２０２０-01-01", "2020-01-01 ", "02020-01-01",
		"0", "-0", "+1", "-1", "1", "18", "19", "255", "256", "4294967295", "4294967296", "9223372036854775807", "9223372036854775808", "18446744073709551615", "18446744073709551616",
		"-9223372036854775808", "-9223372036854775809", "99999999999999999999999999", "1e3", "0x10", "010", "1.5", ".5", "1.", "min", "max", "unbounded", "min..max", "max..min", "1..", "..1", "1|2", "1..2|3", "1..2 | 3..4", "|", "..", "1 .. 2", "1...2", "1..2..3",
		"true", "false", "True", "TRUE", "t", "current", "obsolete", "deprecated", "user", "system", "add", "replace", "delete", "not-supported", "Add",
		"a", "a:b", "a:b:c", ":a", "a:", "/a", "/a:b/c", "/a/", "//a", "a/b", "a/b/", "../a", "../../a/b", "a b", "a  b", " a", "1a", "-a", ".a", "_a", "a.b-c_d", "xml", "XMLa", "a[1]", "a^b", "a`b", "é", "a\u200db",
		"/a[k=current()/../x]/b", "/a[k = current()/../x]", "/a[", "/a[]", "/a[k=]", "current()", "deref(../a)/b", "urn:a", "URN:A", "http://e.com/a b", "urn:a#", "%", "%zz", "[a-z]+", "[a-", "(", "\\p{IsBasicLatin}", "1 +", "'"}
	for _, mm := range []string{"00", "01", "02", "04", "12", "13", "99"} {
		for _, dd := range []string{"00", "01", "28", "29", "30", "31", "32", "99"} {
			out = append(out, "2020-"+mm+"-"+dd, "0000-"+mm+"-"+dd)
		}
	}
	return out
}

func replay(c *engine.Ctx, sub string, raw json.RawMessage) []engine.Violation {
	var r caseRec
	if json.Unmarshal(raw, &r) != nil {
		return []engine.Violation{{Key: "harness-bad-replay-file"}}
	}
	parseVariant = r.Variant
	defer func() { parseVariant = 0 }()
	if len(r.Choices) > 0 {
		vs, _, _, _ := checkSchedule(r.Text, r.Choices)
		return vs
	}
	vs, _, _ := check(r.Text)
	return vs
}
