// Package c16: type validation accepts exactly the YANG value space.
package c16

import (
	"regexp"
	"encoding/json"
	"fmt"
	"strconv"
	"strings"

	"verif/engine"
	"verif/gen"
	"verif/ref/yangval"

	"github.com/sdcio/yang-parser/schema"
)

func init() {
	engine.Register(&engine.Harness{
		Prop:   "C16",
		Run:    run,
		Replay: replay,
		Rule: "E1 over (type x string): types are compiled from YANG text by the real compiler (every integer width signed/unsigned without range, with one range, with multi-part ranges touching the type bounds; decimal64 with every fraction-digits value 1..18 with and without ranges; strings with lengths and 0-2 patterns; enumeration; boolean; empty; identityref over a two-module hierarchy; unions nested two deep; custom error-message/error-app-tag) and Type.Validate is called on every probe string (on the type compiled alone, and again on the same type as one leaf of a module that holds all types of the run, string and integer types written as refinements of a shared three-level typedef chain): every bound and bound +-1,2 units in canonical, '+'-signed, zero-padded and trailing-zero spellings, 18-20 digit values, lexical near misses, and for strings every string of 0-4 characters over {a,b,c,1,e-acute,U+1D11E}. Histories of length two on one type object: for 12 (thorough 24) earlier values per type, members and non-members spread over the probe list, Validate(earlier) is followed by the full check of each of 2000 (thorough: all) later probes on the same object; an answer that differs from the one a fresh object gives is reported with both values. " +
			"The reference decides membership exactly with math/big and character counts. On rejection the error must carry the path and the custom message/app-tag when defined. Non-trivial = a probe within 2 units of a bound, a multi-byte string, or a union/identityref probe.",
		Bound: map[string]string{
			"quick":    "about 110 types x their probe sets",
			"thorough": "additionally every pair of range parts from the lattice for every width and nested unions of all leaf kinds",
		},
		Assumptions: []string{
			"only pattern constructs on which XSD and RE2 agree are generated",
			"'-0' for unsigned types and prefixed identityref values are UNSPECIFIED",
		},
	})
}

type valCtx struct{}

func (valCtx) ErrorHelpText() []string     { return nil }
func (valCtx) AllowIncompletePaths() bool { return false }

func moduleFor(spec yangval.Spec) map[string]string {
	a := "module a { namespace \"urn:a\"; prefix a; import b { prefix b; } identity root; identity mid { base root; } identity leaf1 { base mid; } identity other; leaf l { " + spec.Yang() + " } }"
	b := "module b { namespace \"urn:b\"; prefix b; import a { prefix a; } identity ext { base a:mid; } identity ext2 { base ext; } identity unrelated; }"
	// import cycle would be an error: b must not import a when a imports b
	a = strings.Replace(a, " import b { prefix b; }", "", 1)
	return map[string]string{"a": a, "b": b}
}

type rec struct {
	Spec     yangval.Spec `json:"spec"`
	Value    string       `json:"value_quoted"`
	Combined bool         `json:"combined,omitempty"` // the type was one leaf of the module holding all types of the run
	After    string       `json:"after_value_quoted,omitempty"` // history: this value was validated on the same type object first
}

type pathGetter interface {
	GetPath() string
	GetMessage() string
	GetAppTag() string
}

func kindKey(s yangval.Spec) string {
	k := s.Kind
	switch s.Kind {
	case "int", "uint":
		k = fmt.Sprintf("%s%d", s.Kind, s.Bits)
	case "decimal64":
		k = fmt.Sprintf("decimal64/%d", s.Fd)
		if s.Fd >= 16 {
			k = "decimal64/fd>=16" // 17 or more significant digits within a small range: one class
		}
	}
	if s.Ranges != nil {
		k += "+range"
	}
	if s.Lengths != nil {
		k += "+length"
	}
	if len(s.Patterns) > 0 {
		k += "+pattern"
	}
	return k
}

// valueClass abstracts a probe for the finding key.
func valueClass(s yangval.Spec, v string) string {
	if digits := strings.Count(v, "") - 1 - strings.Count(v, ".") - strings.Count(v, "-") - strings.Count(v, "+"); digits >= 17 && (s.Kind == "decimal64" || s.Kind == "int" || s.Kind == "uint") {
		return "17+digits"
	}
	switch {
	case v == "":
		return "empty"
	case strings.HasPrefix(v, "+"):
		return "plus-signed"
	case strings.TrimSpace(v) != v:
		return "space"
	case len(v) > 1 && v[0] == '0' && v[1] >= '0' && v[1] <= '9':
		return "leading-zero"
	}
	for _, r := range v {
		if r >= 0x80 {
			return "non-ascii"
		}
	}
	if len(v) >= 17 && (s.Kind == "decimal64" || s.Kind == "int" || s.Kind == "uint") {
		return "17+digits"
	}
	return "plain"
}

func checkOne(t schema.Type, spec yangval.Spec, v string) []engine.Violation {
	want, settled := spec.Contains(v)
	if !settled {
		return nil
	}
	path := []string{"l", v}
	var err error
	var p any
	func() {
		defer func() { p = recover() }()
		err = t.Validate(valCtx{}, path, v)
	}()
	mk := func(key, detail string) []engine.Violation {
		return []engine.Violation{{Key: key, Witness: fmt.Sprintf("%s value %q", spec.Yang(), v), Detail: detail, Harness: "val", Replay: engine.JSON(rec{Spec: spec, Value: strconv.Quote(v)})}}
	}
	if u, isUnion := t.(schema.Union); isUnion && p == nil {
		// the union's other entry point: MatchType names the member that accepts the value - some
		// non-union member type iff Validate accepts, and that member accepts the value itself
		var mt schema.Type
		var pm any
		func() {
			defer func() { pm = recover() }()
			mt = u.MatchType(valCtx{}, path, v)
		}()
		switch {
		case pm != nil:
			return mk("panic:union-match-type", fmt.Sprint(pm))
		case (mt != nil) != (err == nil):
			return mk("union-match-type-disagrees-with-validate", fmt.Sprintf("Validate: %v; MatchType: %v", err, mt))
		case mt != nil:
			if _, nested := mt.(schema.Union); nested || mt.Validate(valCtx{}, path, v) != nil {
				return mk("union-match-type-names-a-member-that-does-not-accept", fmt.Sprintf("MatchType: %T %v", mt, mt))
			}
		}
	}
	switch {
	case p != nil:
		return mk("panic:"+kindKey(spec), fmt.Sprint(p))
	case want && err != nil:
		return mk("rejects-member:"+kindKey(spec)+":"+valueClass(spec, v), "value is in the value space; Validate says: "+err.Error())
	case !want && err == nil:
		return mk("accepts-non-member:"+kindKey(spec)+":"+valueClass(spec, v), "value is outside the value space; Validate accepts it")
	case !want:
		pg, ok := err.(pathGetter)
		if !ok {
			return mk("error-without-path:"+kindKey(spec), fmt.Sprintf("%T %v", err, err))
		}
		if spec.Kind != "empty" && pg.GetPath() != "/l/"+escape(v) && pg.GetPath() != "/l/"+v {
			return mk("error-with-wrong-path:"+kindKey(spec), fmt.Sprintf("path %q for value %q", pg.GetPath(), v))
		}
		if spec.Msg != "" && spec.Kind != "union" && pg.GetMessage() != spec.Msg {
			// the custom message belongs to the restriction; a lexically invalid value may get the generic message
			if spec.LexicallyValid(v) {
				return mk("custom-error-message-lost:"+kindKey(spec), fmt.Sprintf("message %q, expected %q", pg.GetMessage(), spec.Msg))
			}
		}
		if spec.Tag != "" && spec.Kind != "union" && pg.GetAppTag() != spec.Tag {
			if spec.LexicallyValid(v) {
				return mk("custom-error-app-tag-lost:"+kindKey(spec), fmt.Sprintf("app-tag %q, expected %q", pg.GetAppTag(), spec.Tag))
			}
		}
	}
	return nil
}

func escape(v string) string {
	// pathutil.Pathstr escapes like url.QueryEscape with %20 for space
	var b strings.Builder
	for i := 0; i < len(v); i++ {
		c := v[i]
		switch {
		case c >= 'a' && c <= 'z', c >= 'A' && c <= 'Z', c >= '0' && c <= '9', c == '-', c == '_', c == '.', c == '~':
			b.WriteByte(c)
		default:
			fmt.Fprintf(&b, "%%%02X", c)
		}
	}
	return b.String()
}

func specs(quick bool) []yangval.Spec {
	var out []yangval.Spec
	for _, bits := range []int{8, 16, 32, 64} {
		for _, kind := range []string{"int", "uint"} {
			base := yangval.Spec{Kind: kind, Bits: bits}
			out = append(out, base)
			lo := "min"
			r1 := [][2]string{{"1", "10"}}
			r2 := [][2]string{{lo, "0"}, {"2", "4"}, {"6", "6"}, {"100", "max"}}
			r3 := [][2]string{{"0", "4"}, {"5", "10"}}
			if kind == "int" {
				r1 = [][2]string{{"-5", "10"}}
			}
			for _, r := range [][][2]string{r1, r2, r3} {
				s := base
				s.Ranges = r
				out = append(out, s)
			}
			s := base
			s.Ranges = [][2]string{{"2", "8"}}
			s.Msg, s.Tag = "custom message", "custom-tag"
			out = append(out, s)
			if !quick {
				lat := [][2]string{{"min", "0"}, {"0", "10"}, {"2", "8"}, {"5", "5"}, {"12", "20"}, {"100", "max"}}
				for i := range lat {
					for j := i + 1; j < len(lat); j++ {
						s := base
						s.Ranges = [][2]string{lat[i], lat[j]}
						// parts must be ascending and disjoint
						if s.Bound(lat[i][1]).Cmp(s.Bound(lat[j][0])) >= 0 || s.Bound(lat[i][0]).Cmp(s.Bound(lat[i][1])) > 0 {
							continue
						}
						out = append(out, s)
					}
				}
			}
		}
	}
	for fd := 1; fd <= 18; fd++ {
		base := yangval.Spec{Kind: "decimal64", Fd: fd}
		out = append(out, base)
		hi := "5.5"
		if fd == 18 {
			hi = "5.5"
		}
		s := base
		s.Ranges = [][2]string{{"-1.5", "2.5"}, {"3", hi}}
		out = append(out, s)
		s = base
		s.Ranges = [][2]string{{"min", "0"}, {"1", "max"}}
		out = append(out, s)
		s = base
		s.Ranges = [][2]string{{"0.1", "0.3"}}
		s.Msg, s.Tag = "custom message", "custom-tag"
		out = append(out, s)
	}
	str := yangval.Spec{Kind: "string"}
	out = append(out, str)
	for _, l := range [][][2]string{{{"0", "0"}}, {{"1", "1"}}, {{"2", "3"}}, {{"0", "1"}, {"3", "4"}}, {{"min", "2"}}, {{"4", "max"}}} {
		s := str
		s.Lengths = l
		out = append(out, s)
	}
	for _, ps := range [][]string{{"a"}, {"a|bc"}, {"[0-9]+"}, {"[a-c]*", ".*1.*"}, {"."}, {"a.c"}, {"(a|b)(c|1)?"}, {"é+"}, {"(ab)|(c1)"}, {"(a)|(b)c"}, {"a|(bc)"}, {"(a)(b)"}, {"^a"}, {"a$"}} {
		s := str
		s.Patterns = ps
		out = append(out, s)
	}
	s := str
	s.Lengths = [][2]string{{"2", "3"}}
	s.Patterns = []string{"[ab]*"}
	s.Msg, s.Tag = "custom message", "custom-tag"
	out = append(out, s)
	out = append(out, yangval.Spec{Kind: "boolean"}, yangval.Spec{Kind: "empty"},
		yangval.Spec{Kind: "enumeration", Enums: []string{"a", "b c", "Zed", "é"}},
		// identities of another module: the accepted spelling (ext or b:ext) depends on the encoding
		yangval.Spec{Kind: "identityref", Idents: []string{"mid", "leaf1"}, Unsettled: []string{"ext", "ext2", "b:ext", "b:ext2"}})
	u1 := yangval.Spec{Kind: "union", Members: []yangval.Spec{{Kind: "int", Bits: 8}, {Kind: "enumeration", Enums: []string{"auto", "none"}}}}
	u2 := yangval.Spec{Kind: "union", Members: []yangval.Spec{{Kind: "uint", Bits: 8, Ranges: [][2]string{{"1", "5"}}}, u1, {Kind: "string", Lengths: [][2]string{{"2", "2"}}, Patterns: []string{"[x-z]+"}}}}
	u3 := yangval.Spec{Kind: "union", Members: []yangval.Spec{{Kind: "boolean"}, {Kind: "decimal64", Fd: 2, Ranges: [][2]string{{"0", "1"}}}}}
	// members of the same base type that differ in their restrictions only, in both orders, flat and nested
	u8a := yangval.Spec{Kind: "uint", Bits: 8, Ranges: [][2]string{{"1", "5"}}}
	u8b := yangval.Spec{Kind: "uint", Bits: 8, Ranges: [][2]string{{"10", "20"}}}
	sa := yangval.Spec{Kind: "string", Patterns: []string{"a+"}}
	sb := yangval.Spec{Kind: "string", Patterns: []string{"b+"}, Lengths: [][2]string{{"2", "3"}}}
	d1 := yangval.Spec{Kind: "decimal64", Fd: 1, Ranges: [][2]string{{"0", "1"}}}
	d2 := yangval.Spec{Kind: "decimal64", Fd: 2, Ranges: [][2]string{{"5", "6"}}}
	e1 := yangval.Spec{Kind: "enumeration", Enums: []string{"auto"}}
	e2 := yangval.Spec{Kind: "enumeration", Enums: []string{"none", "auto"}}
	sl := yangval.Spec{Kind: "string", Lengths: [][2]string{{"1", "3"}}}                    // restricted by length only
	sl2 := yangval.Spec{Kind: "string", Lengths: [][2]string{{"0", "0"}, {"5", "6"}}}      // two length parts, no pattern
	un := func(m ...yangval.Spec) yangval.Spec { return yangval.Spec{Kind: "union", Members: m} }
	out = append(out, u1, u2, u3, un(u8a, u8b), un(u8b, u8a), un(sa, sb), un(sb, sa, u8b), un(d1, d2), un(d2, d1), un(e1, e2), un(e2, e1),
		un(yangval.Spec{Kind: "boolean"}, un(u8a, u8b)), un(un(u8a, sa), un(u8b, sb)), un(u8a, u8a), un(u8a, u8b, u8a),
		un(yangval.Spec{Kind: "int", Bits: 8}, sl), un(sl, u8b), un(yangval.Spec{Kind: "boolean"}, un(sl2, u8a)), un(sl, sl2), un(e1, sl2))
	// every restriction with custom error statements again with the error-message alone and with the
	// error-app-tag alone (the two are independent), and a pattern on its own carrying each
	for _, sp := range append([]yangval.Spec{}, out...) {
		if sp.Msg != "" && sp.Tag != "" {
			m, t := sp, sp
			m.Tag, t.Msg = "", ""
			out = append(out, m, t)
		}
	}
	for _, mt := range [][2]string{{"only message", ""}, {"", "only-tag"}, {"both", "both-tag"}} {
		sp := yangval.Spec{Kind: "string", Patterns: []string{"[a-c]+"}, Msg: mt[0], Tag: mt[1]}
		out = append(out, sp)
	}
	return out
}

func typeOf(spec yangval.Spec) (schema.Type, string) {
	r := gen.Compile(moduleFor(spec), gen.Options{})
	if !r.OK() {
		return nil, fmt.Sprintf("%s %v %v", r.Verdict(), r.Err, r.Panic)
	}
	n := r.MS.Child("l")
	if n == nil {
		return nil, "leaf l missing"
	}
	return n.Type(), ""
}

// combinedModule: every type of the run as one leaf of a single module; string and integer types
// are written as refinements of a shared three-level typedef chain of their base type, so that a
// type's value space must not depend on the other users of the chain.
var reBase = regexp.MustCompile(`^type (string|int8|int16|int32|int64|uint8|uint16|uint32|uint64)\b`)

func combinedModule(all []yangval.Spec) map[string]string {
	mods := moduleFor(yangval.Spec{Kind: "boolean"})
	var b strings.Builder
	for _, base := range []string{"string", "int8", "int16", "int32", "int64", "uint8", "uint16", "uint32", "uint64"} {
		fmt.Fprintf(&b, " typedef %s-a { type %s; } typedef %s-b { type %s-a; } typedef %s-c { type %s-b; }", base, base, base, base, base, base)
	}
	for i, sp := range all {
		y := reBase.ReplaceAllString(sp.Yang(), "type ${1}-c")
		fmt.Fprintf(&b, " leaf l%d { %s }", i, y)
	}
	mods["a"] = strings.Replace(mods["a"], " leaf l { type boolean; }", b.String(), 1)
	return mods
}

// foreignTypedefIdentityref: a leaf of module b whose type is a typedef of module a that wraps an
// identityref: identity names are spelled relative to the module of the LEAF (own module
// unprefixed, the other module with its name as prefix).
func foreignTypedefIdentityref() []engine.Violation {
	mods := map[string]string{
		"a": "module a { namespace \"urn:a\"; prefix a; identity root; identity mid { base root; } identity leaf1 { base mid; } identity other; typedef idt { type identityref { base root; } } typedef idt2 { type idt; } }",
		"b": "module b { namespace \"urn:b\"; prefix b; import a { prefix a; } identity ext { base a:mid; } identity ext2 { base ext; } identity unrelated; leaf l { type a:idt; } leaf l2 { type a:idt2; } container c { leaf l3 { type a:idt; } } }",
	}
	r := gen.Compile(mods, gen.Options{})
	if !r.OK() {
		return []engine.Violation{{Key: "type-does-not-compile:identityref-through-foreign-typedef", Detail: fmt.Sprint(r.Err, r.Panic)}}
	}
	var vs []engine.Violation
	want := map[string]bool{"ext": true, "ext2": true, "a:mid": true, "a:leaf1": true,
		"mid": false, "leaf1": false, "other": false, "a:other": false, "unrelated": false, "a:root": false, "root": false, "a:ext": false, "": false, "a:": false}
	leaves := map[string]schema.Node{"l": r.MS.Child("l"), "l2": r.MS.Child("l2")}
	if c := r.MS.Child("c"); c != nil {
		leaves["c/l3"] = c.Child("l3")
	}
	for name, n := range leaves {
		if n == nil {
			vs = append(vs, engine.Violation{Key: "leaf-missing:identityref-through-foreign-typedef", Witness: name})
			continue
		}
		for v, ok := range want {
			var err error
			var p any
			func() {
				defer func() { p = recover() }()
				err = n.Type().Validate(valCtx{}, []string{name, v}, v)
			}()
			w := fmt.Sprintf("leaf %s of module b, type typedef of module a wrapping identityref { base root }, value %q", name, v)
			switch {
			case p != nil:
				vs = append(vs, engine.Violation{Key: "panic:identityref-through-foreign-typedef", Witness: w, Detail: fmt.Sprint(p)})
			case ok && err != nil:
				vs = append(vs, engine.Violation{Key: "rejects-member:identityref-through-foreign-typedef", Witness: w, Detail: err.Error()})
			case !ok && err == nil:
				vs = append(vs, engine.Violation{Key: "accepts-non-member:identityref-through-foreign-typedef", Witness: w, Detail: "Validate accepts it"})
			}
		}
	}
	return vs
}

// caseOnlyNames: identities, typedefs and enum names that differ only in the case of their letters are
// different definitions; each leaf accepts the values of its own one.
func caseOnlyNames() []engine.Violation {
	mods := map[string]string{
		"sb": "module sb { namespace \"urn:sb\"; prefix sb; identity af; identity AF; identity ipv4 { base af; } identity Osi { base AF; } }",
		"a": "module a { namespace \"urn:a\"; prefix a; import sb { prefix sb; } identity transport; identity Transport; identity tcp { base transport; } identity Truck { base Transport; } identity ship { base Transport; }" +
			" typedef t { type int8 { range \"0..5\"; } } typedef T { type string { length \"2\"; } }" +
			" leaf lower { type identityref { base transport; } } leaf upper { type identityref { base Transport; } } leaf xlower { type identityref { base sb:af; } } leaf xupper { type identityref { base sb:AF; } }" +
			" leaf lt { type t; } leaf lT { type T; } leaf e { type enumeration { enum on; enum On; } } leaf u { type union { type t; type T; } } }",
	}
	r := gen.Compile(mods, gen.Options{})
	if !r.OK() {
		return []engine.Violation{{Key: "type-does-not-compile:names-differing-in-case", Detail: fmt.Sprint(r.Err, r.Panic)}}
	}
	want := map[string]map[string]bool{
		"lower":  {"tcp": true, "Truck": false, "ship": false, "transport": false, "Transport": false, "TCP": false, "Tcp": false},
		"upper":  {"tcp": false, "Truck": true, "ship": true, "truck": false, "Ship": false, "Transport": false},
		"xlower": {"sb:ipv4": true, "sb:Osi": false, "sb:af": false, "sb:AF": false, "sb:IPV4": false},
		"xupper": {"sb:ipv4": false, "sb:Osi": true, "sb:osi": false},
		"lt":     {"3": true, "ab": false, "7": false},
		"lT":     {"ab": true, "3": false, "abc": false},
		"e":      {"on": true, "On": true, "ON": false, "oN": false},
		"u":      {"3": true, "ab": true, "7": false, "abc": false},
	}
	var vs []engine.Violation
	for name, table := range want {
		n := r.MS.Child(name)
		if n == nil {
			vs = append(vs, engine.Violation{Key: "leaf-missing:names-differing-in-case", Witness: name})
			continue
		}
		for v, ok := range table {
			var err error
			var p any
			func() {
				defer func() { p = recover() }()
				err = n.Type().Validate(valCtx{}, []string{name, v}, v)
			}()
			w := fmt.Sprintf("leaf %s, value %q (module: identities transport / Transport, af / AF; typedefs t / T; enums on / On)", name, v)
			switch {
			case p != nil:
				vs = append(vs, engine.Violation{Key: "panic:names-differing-in-case:" + name, Witness: w, Detail: fmt.Sprint(p)})
			case ok && err != nil:
				vs = append(vs, engine.Violation{Key: "rejects-member:names-differing-in-case:" + name, Witness: w, Detail: err.Error()})
			case !ok && err == nil:
				vs = append(vs, engine.Violation{Key: "accepts-non-member:names-differing-in-case:" + name, Witness: w, Detail: "Validate accepts it"})
			}
		}
	}
	return vs
}

// memberStatus: the status of an enum or of a derived identity does not take it out of the value space
// (RFC 6020 7.19.2: obsolete definitions may still be implemented; the value space is what is declared).
func memberStatus() []engine.Violation {
	mods := map[string]string{
		"sb": "module sb { namespace \"urn:sb\"; prefix sb; import a { prefix a; } identity far { base a:base; status obsolete; } identity farcur { base a:base; } }",
		"a": "module a { namespace \"urn:a\"; prefix a; identity base; identity cur { base base; } identity dep { base base; status deprecated; } identity obs { base base; status obsolete; } identity below { base obs; status obsolete; }" +
			" typedef et { type enumeration { enum one; enum two { status obsolete; } enum three { status deprecated; } } }" +
			" leaf idl { type identityref { base base; } } leaf en { type et; } leaf en2 { type enumeration { enum only { status obsolete; } } }" +
			" leaf un { type union { type int8; type enumeration { enum auto { status obsolete; } enum none; } type identityref { base base; } } } }",
	}
	r := gen.Compile(mods, gen.Options{})
	if !r.OK() {
		return []engine.Violation{{Key: "type-does-not-compile:member-status", Detail: fmt.Sprint(r.Err, r.Panic)}}
	}
	want := map[string]map[string]bool{
		"idl": {"cur": true, "dep": true, "obs": true, "below": true, "sb:far": true, "sb:farcur": true, "base": false, "nosuch": false},
		"en":  {"one": true, "two": true, "three": true, "four": false, "": false},
		"en2": {"only": true, "other": false},
		"un":  {"5": true, "auto": true, "none": true, "obs": true, "cur": true, "zz": false},
	}
	var vs []engine.Violation
	for name, table := range want {
		n := r.MS.Child(name)
		if n == nil {
			vs = append(vs, engine.Violation{Key: "leaf-missing:member-status", Witness: name})
			continue
		}
		for v, ok := range table {
			var err error
			var p any
			func() {
				defer func() { p = recover() }()
				err = n.Type().Validate(valCtx{}, []string{name, v}, v)
			}()
			w := fmt.Sprintf("leaf %s, value %q (enums and derived identities with status current / deprecated / obsolete)", name, v)
			switch {
			case p != nil:
				vs = append(vs, engine.Violation{Key: "panic:member-status:" + name, Witness: w, Detail: fmt.Sprint(p)})
			case ok && err != nil:
				vs = append(vs, engine.Violation{Key: "rejects-member:member-status:" + name, Witness: w, Detail: err.Error()})
			case !ok && err == nil:
				vs = append(vs, engine.Violation{Key: "accepts-non-member:member-status:" + name, Witness: w, Detail: "Validate accepts it"})
			}
		}
	}
	return vs
}

func run(c *engine.Ctx) {
	if c.Shard == 0 && c.Case("member-status") {
		c.Add("states", 1)
		c.Nontrivial()
		for _, v := range memberStatus() {
			c.Report(v)
		}
	}
	if c.Shard == 0 && c.Case("names-differing-in-case") {
		c.Add("states", 1)
		c.Nontrivial()
		for _, v := range caseOnlyNames() {
			c.Report(v)
		}
	}
	if c.Shard == 0 && c.Case("identityref-through-foreign-typedef") {
		c.Add("states", 42)
		for _, v := range foreignTypedefIdentityref() {
			c.Report(v)
		}
	}
	runDerived(c)
	all := specs(c.Quick())
	comb := gen.Compile(combinedModule(all), gen.Options{})
	if !comb.OK() {
		if c.Shard == 0 {
			c.Report(engine.Violation{Key: "types-do-not-compile-together", Witness: "all types of the run as leaves of one module", Detail: fmt.Sprintf("%s %v %v", comb.Verdict(), comb.Err, comb.Panic)})
		}
	}
	for si, spec := range all {
		if c.Expired() {
			return
		}
		if !c.Owns(fmt.Sprintf("spec:%d", si)) {
			continue
		}
		t, msg := typeOf(spec)
		if t == nil {
			c.Report(engine.Violation{Key: "type-does-not-compile:" + kindKey(spec), Witness: spec.Yang(), Detail: msg, Harness: "val", Replay: engine.JSON(rec{Spec: spec, Value: strconv.Quote("")})})
			continue
		}
		c.Add("types", 1)
		for _, v := range spec.Probes() {
			if !c.Case(fmt.Sprintf("%d:%q", si, v)) {
				continue
			}
			c.Add("states", 1)
			c.Add("transitions", 1)
			want, settled := spec.Contains(v)
			if !settled {
				c.Add("unspecified_skipped", 1)
				continue
			}
			if valueClass(spec, v) != "plain" || spec.Kind == "union" || spec.Kind == "identityref" || spec.Ranges != nil {
				c.Nontrivial()
			}
			vs := checkOne(t, spec, v)
			if comb.OK() && len(vs) == 0 {
				if n := comb.MS.Child(fmt.Sprintf("l%d", si)); n != nil {
					for _, x := range checkOne(n.Type(), spec, v) {
						x.Key += ":in-one-module-with-the-other-types"
						x.Replay = engine.JSON(rec{Spec: spec, Value: strconv.Quote(v), Combined: true})
						vs = append(vs, x)
					}
				}
			}
			c.Outcome(fmt.Sprintf("%s:member=%v:viol=%v", spec.Kind, want, len(vs) > 0))
			for _, x := range vs {
				c.Report(x)
			}
		}
		historyPass(c, si, t, spec)
		if si%40 == 3 {
			c.Sample(map[string]any{"type": spec.Yang(), "probes": len(spec.Probes())})
		}
	}
}

// historyPass uses one type object twice: for every earlier value a of a small history alphabet (members
// and non-members, spread over the probe list) and every later probe b, Validate(a) is followed by the
// full check of b on the same object. A type object is an immutable description of a value space: what an
// earlier validation saw (accepted or rejected) may not change the answer, the path, the message or the
// app-tag of a later one.
func historyPass(c *engine.Ctx, si int, t schema.Type, spec yangval.Spec) {
	probes := spec.Probes()
	var mem, non []string
	for _, v := range probes {
		if want, settled := spec.Contains(v); settled && want {
			mem = append(mem, v)
		} else if settled {
			non = append(non, v)
		}
	}
	spread := func(l []string, n int) []string {
		if len(l) <= n {
			return l
		}
		out := make([]string, 0, n)
		for i := 0; i < n; i++ {
			out = append(out, l[i*(len(l)-1)/(n-1)])
		}
		return out
	}
	nh, nb := 12, 2000
	if !c.Quick() {
		nh, nb = 24, 1 << 30
	}
	hist := append(spread(mem, nh), spread(non, nh)...)
	later := spread(probes, nb)
	for hi, a := range hist {
		if !c.Case(fmt.Sprintf("%d:history:%d", si, hi)) {
			continue
		}
		for _, b := range later {
			func() {
				defer func() { recover() }()
				t.Validate(valCtx{}, []string{"l", a}, a)
			}()
			c.Add("states", 1)
			c.Add("transitions", 2)
			c.Add("history_pairs", 1)
			for _, x := range checkOne(t, spec, b) {
				// the same probe on a fresh object decides whether the history is what matters
				if ft, _ := typeOf(spec); ft != nil && len(checkOne(ft, spec, b)) > 0 {
					continue // reported by the plain pass
				}
				x.Key += ":after-an-earlier-validation-on-the-same-type"
				x.Witness += fmt.Sprintf(" after value %q", a)
				x.Replay = engine.JSON(rec{Spec: spec, Value: strconv.Quote(b), After: strconv.Quote(a)})
				c.Report(x)
			}
		}
		c.Nontrivial()
	}
}

func replay(c *engine.Ctx, sub string, raw json.RawMessage) []engine.Violation {
	if sub == "derived" {
		return replayDerived(raw)
	}
	var r rec
	if json.Unmarshal(raw, &r) != nil {
		return []engine.Violation{{Key: "harness-bad-replay-file"}}
	}
	v, _ := strconv.Unquote(r.Value)
	if r.Combined {
		for _, quick := range []bool{true, false} {
			all := specs(quick)
			for i, sp := range all {
				if sp.Yang() != r.Spec.Yang() {
					continue
				}
				comb := gen.Compile(combinedModule(all), gen.Options{})
				if !comb.OK() {
					return []engine.Violation{{Key: "types-do-not-compile-together", Detail: fmt.Sprint(comb.Err)}}
				}
				if vs := checkOne(comb.MS.Child(fmt.Sprintf("l%d", i)).Type(), r.Spec, v); len(vs) > 0 {
					vs[0].Key += ":in-one-module-with-the-other-types"
					return vs
				}
			}
		}
		return nil
	}
	t, msg := typeOf(r.Spec)
	if t == nil {
		return []engine.Violation{{Key: "type-does-not-compile", Detail: msg}}
	}
	if r.After != "" {
		a, _ := strconv.Unquote(r.After)
		func() {
			defer func() { recover() }()
			t.Validate(valCtx{}, []string{"l", a}, a)
		}()
		vs := checkOne(t, r.Spec, v)
		for i := range vs {
			vs[i].Key += ":after-an-earlier-validation-on-the-same-type"
		}
		return vs
	}
	return checkOne(t, r.Spec, v)
}
