package c16

import (
	"encoding/json"
	"fmt"
	"strings"

	"verif/engine"
	"verif/gen"
)

// Derived restrictions with their own error-message / error-app-tag: a typedef with a
// restriction (with or without messages of its own), optionally an unrestricted typedef in
// between, and a leaf type that restricts it again in every spelling of the bounds (explicit,
// min..max, half-open with min or max, narrower, two parts).  The value space is the derived
// restriction read against the base; every rejection of a lexically valid value must carry
// the message and app-tag of the DERIVED restriction (the innermost one that defines them).

type derivedCase struct {
	Kind    string `json:"kind"`     // string | int8 | uint16 | decimal64
	BaseMsg bool   `json:"base_msg"` // the typedef's restriction has messages of its own
	Middle  bool   `json:"middle"`   // an unrestricted typedef between base and leaf
	Derived string `json:"derived"`  // argument of the derived restriction
}

// the typedef restricts to 1..4 (string: length; numbers: range)
func (d derivedCase) module() string {
	kw := "range"
	base := "type " + d.Kind + " {"
	if d.Kind == "string" {
		kw = "length"
	}
	if d.Kind == "decimal64" {
		base += " fraction-digits 2;"
	}
	own := ""
	if d.BaseMsg {
		own = ` { error-message "base message"; error-app-tag "base-tag"; }`
	} else {
		own = ";"
	}
	base += fmt.Sprintf(" %s \"1..4\"%s }", kw, own)
	ref := "t1"
	mid := ""
	if d.Middle {
		mid, ref = " typedef t2 { type t1; }", "t2"
	}
	return fmt.Sprintf("module a { namespace \"urn:a\"; prefix a; typedef t1 { %s }%s leaf l { type %s { %s \"%s\" { error-message \"derived message\"; error-app-tag \"derived-tag\"; } } } }",
		base, mid, ref, kw, d.Derived)
}

// member: n (the length of the string, or the number) is in the derived restriction read against 1..4
func (d derivedCase) member(n int) bool {
	for _, part := range strings.Split(d.Derived, "|") {
		part = strings.TrimSpace(part)
		lo, hi := part, part
		if i := strings.Index(part, ".."); i >= 0 {
			lo, hi = part[:i], part[i+2:]
		}
		b := func(s string) int {
			switch s {
			case "min":
				return 1
			case "max":
				return 4
			}
			var v int
			fmt.Sscanf(s, "%d", &v)
			return v
		}
		if n >= b(lo) && n <= b(hi) {
			return true
		}
	}
	return false
}

func derivedCases() []derivedCase {
	var out []derivedCase
	for _, kind := range []string{"string", "int8", "uint16", "decimal64"} {
		for _, bm := range []bool{false, true} {
			for _, mid := range []bool{false, true} {
				for _, d := range []string{"1..4", "min..max", "2..3", "min..3", "2..max", "2 | 4", "min..1 | 4..max", "3"} {
					out = append(out, derivedCase{kind, bm, mid, d})
				}
			}
		}
	}
	return out
}

func checkDerived(d derivedCase) (vs []engine.Violation, states int) {
	mk := func(key, witness, detail string) {
		vs = append(vs, engine.Violation{Key: key, Witness: d.module() + " " + witness, Detail: detail, Harness: "derived", Replay: engine.JSON(d)})
	}
	r := gen.Compile(map[string]string{"a": d.module()}, gen.Options{})
	if !r.OK() {
		mk("derived-restriction-does-not-compile:"+d.Kind, "", fmt.Sprintf("%s %v %v", r.Verdict(), r.Err, r.Panic))
		return
	}
	n := r.MS.Child("l")
	if n == nil {
		mk("derived-restriction-does-not-compile:"+d.Kind, "", "leaf l missing")
		return
	}
	cls := fmt.Sprintf("%s:base-messages=%v:via-typedef=%v", d.Kind, d.BaseMsg, d.Middle)
	for k := 0; k <= 6; k++ {
		v := fmt.Sprint(k)
		if d.Kind == "string" {
			v = strings.Repeat("a", k)
		}
		states++
		var err error
		var p any
		func() {
			defer func() { p = recover() }()
			err = n.Type().Validate(valCtx{}, []string{"l", v}, v)
		}()
		want := d.member(k)
		w := fmt.Sprintf("value %q", v)
		switch {
		case p != nil:
			mk("panic:derived:"+cls, w, fmt.Sprint(p))
		case want && err != nil:
			mk("rejects-member:derived:"+cls, w, err.Error())
		case !want && err == nil:
			mk("accepts-non-member:derived:"+cls, w, "Validate accepts it")
		case !want:
			pg, ok := err.(pathGetter)
			if !ok {
				mk("error-without-path:derived:"+cls, w, fmt.Sprintf("%T %v", err, err))
				continue
			}
			if pg.GetMessage() != "derived message" {
				mk("custom-error-message-lost:derived:"+cls, w, fmt.Sprintf("message %q, expected %q (derived restriction %q)", pg.GetMessage(), "derived message", d.Derived))
			}
			if pg.GetAppTag() != "derived-tag" {
				mk("custom-error-app-tag-lost:derived:"+cls, w, fmt.Sprintf("app-tag %q, expected %q (derived restriction %q)", pg.GetAppTag(), "derived-tag", d.Derived))
			}
		}
	}
	return
}

func runDerived(c *engine.Ctx) {
	for i, d := range derivedCases() {
		id := fmt.Sprintf("derived:%d:%s:%v:%v:%s", i, d.Kind, d.BaseMsg, d.Middle, d.Derived)
		if !c.Owns(id) || !c.Case(id) {
			continue
		}
		vs, n := checkDerived(d)
		c.Add("states", int64(n))
		c.Add("transitions", int64(n))
		c.Nontrivial()
		c.Outcome(fmt.Sprintf("derived:%s:viol=%v", d.Kind, len(vs) > 0))
		for _, v := range vs {
			c.Report(v)
		}
	}
}

func replayDerived(raw json.RawMessage) []engine.Violation {
	var d derivedCase
	if json.Unmarshal(raw, &d) != nil || d.Kind == "" {
		return []engine.Violation{{Key: "harness-bad-replay-file"}}
	}
	vs, _ := checkDerived(d)
	return vs
}
