// Package c15: embedded XPath is checked at compile time in the right prefix scope.
package c15

import (
	"encoding/json"
	"fmt"
	"regexp"
	"sort"
	"strings"

	"verif/engine"
	"verif/gen"
)

func init() {
	engine.Register(&engine.Harness{
		Prop:   "C15",
		Run:    run,
		Replay: replay,
		Rule: "E1 over placements x prefix usages: modules a (prefix table: p->n1, q->n2) and b (p->n2, r->n1, a->a) are chosen so that the same prefix means different namespaces in the two modules and each module knows a prefix the other does not; a must, a when or a leafref path is placed directly in a, in a grouping of a used in a, in a grouping of a used from b, in an augment written in b into a's tree, in a typedef of a used from b (leafref), in a refine/augment inside b's uses of a's grouping, as a when on a uses of a foreign / local grouping or on an augment that contains a foreign uses, and in a deviation written in b; the expression is one of 28 (must, when) or 22 (leafref path) forms (prefix p / q / r / unknown, unprefixed, two prefixes, syntactically invalid forms from C04's reject set). " +
			"Expected verdict: compiles iff the expression is syntactically valid and every prefix is known in the module where the statement is textually written; the error must name that module's file. On success every Name-Push of the compiled machine must carry the namespace the textual module's import table gives (unprefixed: the namespace of the module the node ends up in) and GetExpr() must be the source text. Non-trivial = every case.",
		Bound:       map[string]string{"quick": "10 placements x 4 statement kinds (must, a second must after a valid one, when, leafref path) x 12 expressions; 4 placements of a when written on a uses / augment x 12 expressions; 4 placements x 9 kind pairs x 5x4 expression pairs x 2 orders with a second statement written in b itself", "thorough": "same"},
		Assumptions: []string{"for statements added by a deviation the namespace of unprefixed names is UNSPECIFIED (the node stays in the target module, the text is in the deviating module)"},
	})
}

type expr struct {
	Text  string
	Valid bool              // syntactically valid
	Pfx   []string          // prefixes used
	Names map[string]string // local name -> prefix ("" unprefixed)
}

var exprs = []expr{
	{"p:x = 'v'", true, []string{"p"}, map[string]string{"x": "p"}},
	{"q:x = 'v'", true, []string{"q"}, map[string]string{"x": "q"}},
	{"r:x = 'v'", true, []string{"r"}, map[string]string{"x": "r"}},
	{"zz:x = 'v'", true, []string{"zz"}, map[string]string{"x": "zz"}},
	{"x = 'v'", true, nil, map[string]string{"x": ""}},
	// the own prefix of module a (b imports a under the same prefix) and of module b (unknown in a)
	{"a:x = 'v'", true, []string{"a"}, map[string]string{"x": "a"}},
	{"b:x = a:y", true, []string{"b", "a"}, map[string]string{"x": "b", "y": "a"}},
	{"../p:x/y = q:z", true, []string{"p", "q"}, map[string]string{"x": "p", "y": "", "z": "q"}},
	{"p:x = ", false, nil, nil},
	{"p:x == 'v'", false, nil, nil},
	{"foo(p:x)", false, nil, nil},
	{"p:x[", false, nil, nil},
	{"", false, nil, nil},
	{"concat(p:x, 'a') = string(../y)", true, []string{"p"}, map[string]string{"x": "p", "y": ""}},
	// a known prefix followed by something that is not an NCName (NCName starts with a letter or '_')
	{"p:7x = 'v'", false, nil, nil},
	{"p:-x = 'v'", false, nil, nil},
	{"p:.x = 'v'", false, nil, nil},
	{"../q:x/p:9 = 'v'", false, nil, nil},
	// unbalanced / dangling forms
	{"p:x = 'v", false, nil, nil},
	{"p:x = '", false, nil, nil},
	{"p:x != \"", false, nil, nil},
	{"'", false, nil, nil},
	{"(p:x = 'v'", false, nil, nil},
	{"p:x = 'v')", false, nil, nil},
	{"p:x p:y", false, nil, nil},
	{"p::x = 'v'", false, nil, nil},
	{"p:x = 'v' and", false, nil, nil},
	{"p:x/ = 'v'", false, nil, nil},
	// operator and function names are case-sensitive: these are names in operator position
	{"p:x = 'v' AND q:y", false, nil, nil},
	{"p:x = 'v' Or q:y", false, nil, nil},
	{"p:x DIV 2 = 1", false, nil, nil},
	{"p:x Mod 2 = 1", false, nil, nil},
	{"Not(p:x)", false, nil, nil},
	{"p:x = 'v' and q:y or z", true, []string{"p", "q"}, map[string]string{"x": "p", "y": "q", "z": ""}},
}

// leafref path forms of the same expressions
var paths = []expr{
	{"../p:x", true, []string{"p"}, map[string]string{"x": "p"}},
	{"../q:x", true, []string{"q"}, map[string]string{"x": "q"}},
	{"../r:x", true, []string{"r"}, map[string]string{"x": "r"}},
	{"../zz:x", true, []string{"zz"}, map[string]string{"x": "zz"}},
	{"../x", true, nil, map[string]string{"x": ""}},
	{"../a:x", true, []string{"a"}, map[string]string{"x": "a"}},
	{"../b:x/a:y", true, []string{"b", "a"}, map[string]string{"x": "b", "y": "a"}},
	{"/p:x/q:z[y = current()/../p:k]/w", true, []string{"p", "q"}, map[string]string{"x": "p", "z": "q", "y": "", "k": "p", "w": ""}},
	{"../p:x/", false, nil, nil},
	{"../p:x = 1", false, nil, nil},
	{"p:x", false, nil, nil},
	{"../*", false, nil, nil},
	{"", false, nil, nil},
	{"../../p:x/y", true, []string{"p"}, map[string]string{"x": "p", "y": ""}},
	{"../p:7x", false, nil, nil},
	{"../p:-x", false, nil, nil},
	{"../p:.x", false, nil, nil},
	{"..//p:x", false, nil, nil},
	{"../p:x[", false, nil, nil},
	{"../p:x[y]", false, nil, nil},
	{"../p::x", false, nil, nil},
	{"/p:x/.", false, nil, nil},
}

var tableA = map[string]string{"p": "urn:n1", "q": "urn:n2", "a": "urn:a"}
var tableS = map[string]string{"p": "urn:n1", "a": "urn:a"} // the submodule that imports less

var tableB = map[string]string{"p": "urn:n2", "r": "urn:n1", "a": "urn:a", "b": "urn:b"}

type placement struct {
	Name    string
	Textual string                          // module whose text contains the statement: a | b
	EndsIn  string                          // namespace of the node the statement ends up on
	Build   func(stmt string) (a, b string) // bodies of a and b
	Node    string                          // dump path of the node carrying the statement
	Unspec  bool                            // unprefixed namespace unspecified
}

func placements() []placement {
	return []placement{
		{"direct", "a", "urn:a", func(s string) (string, string) { return "container c { leaf k { type string; } " + s + " }", "" }, "/c", false},
		{"grouping-used-in-a", "a", "urn:a", func(s string) (string, string) {
			return "grouping g { container c { leaf k { type string; } " + s + " } } uses g;", ""
		}, "/c", false},
		{"grouping-used-from-b", "a", "urn:b", func(s string) (string, string) {
			return "grouping g { container c { leaf k { type string; } " + s + " } }", "container host { uses a:g; }"
		}, "/host/c", false},
		{"augment-from-b", "b", "urn:b", func(s string) (string, string) {
			return "container top { leaf base { type string; } }", "augment /a:top { container c { leaf k { type string; } " + s + " } }"
		}, "/top/c", false},
		{"nested-grouping-from-b", "a", "urn:b", func(s string) (string, string) {
			return "grouping inner { container c { leaf k { type string; } " + s + " } } grouping outer { container o { uses inner; } }", "uses a:outer;"
		}, "/o/c", false},
		{"uses-augment-in-b", "b", "urn:b", func(s string) (string, string) {
			return "grouping g { container gc { leaf k { type string; } } }", "container host { uses a:g { augment gc { container c { leaf k2 { type string; } " + s + " } } } }"
		}, "/host/gc/c", false},
		{"typedef-of-a-used-from-b", "a", "urn:b", func(s string) (string, string) {
			// only meaningful for leafref paths: the statement is the type of the typedef
			t := strings.TrimSuffix(strings.TrimPrefix(s, "leaf lr { "), " }")
			return "typedef lt { " + t + " }", "container c { leaf k { type string; } leaf lr { type a:lt; } }"
		}, "/c", false},
		{"deviation-from-b", "b", "urn:a", func(s string) (string, string) {
			if strings.HasPrefix(s, "must") {
				return "container c { leaf k { type string; } }", "deviation /a:c { deviate add { " + s + " } }"
			}
			if strings.HasPrefix(s, "leaf lr") {
				t := strings.TrimSuffix(strings.TrimPrefix(s, "leaf lr { "), " }")
				return "container c { leaf k { type string; } leaf lr { type string; } }", "deviation /a:c/a:lr { deviate replace { " + t + " } }"
			}
			return "container c { leaf k { type string; } }", ""
		}, "/c", true},
		// the target already carries a must with the very same text (written in a): the must added by
		// b's deviation is another statement, compiled with b's prefixes
		{"deviation-from-b-adding-a-must-the-target-already-has", "b", "urn:a", func(s string) (string, string) {
			if strings.HasPrefix(s, "must") {
				return "container c { leaf k { type string; } " + s + " }", "deviation /a:c { deviate add { " + s + " } }"
			}
			return "container c { leaf k { type string; } }", ""
		}, "/c", true},
		{"refine-must-in-b", "b", "urn:b", func(s string) (string, string) {
			return "grouping g { container gc { leaf k { type string; } } }", "container host { leaf x { type string; } uses a:g { refine gc { " + s + " } } }"
		}, "/host/gc", false},
		// a when written directly on a uses / augment (kind rawwhen only)
		{"when-on-uses-of-foreign-grouping", "b", "urn:b", func(s string) (string, string) {
			return "grouping g { container gc { leaf k { type string; } } }", "container host { leaf x { type string; } uses a:g { " + s + " } }"
		}, "/host/gc", false},
		{"when-on-uses-of-local-grouping", "a", "urn:a", func(s string) (string, string) {
			return "grouping g { container gc { leaf k { type string; } } } container host { leaf x { type string; } uses g { " + s + " } }", ""
		}, "/host/gc", false},
		{"when-on-augment-with-foreign-uses", "b", "urn:b", func(s string) (string, string) {
			return "container top { leaf base { type string; } } grouping g { container gc { leaf k { type string; } } }", "augment /a:top { " + s + " uses a:g; }"
		}, "/top/gc", false},
		// the augment holds nothing but a uses that has a when of its own: both whens reach the nodes
		{"when-on-augment-in-uses-around-a-uses-with-its-own-when", "b", "urn:b", func(s string) (string, string) {
			return "grouping g { container gc { leaf k { type string; } } } grouping g2 { leaf l2 { type string; } }", "container host { uses a:g { augment gc { " + s + " uses a:g2 { when \"../k = 'x'\"; } } } }"
		}, "/host/gc/l2", false},
		// a when written on a case: a case with several members, with one member of another name, and
		// with one member that has the case's own name (what a shorthand case looks like after parsing)
		{"when-on-case-with-two-members", "a", "urn:a", func(s string) (string, string) {
			return "container top { leaf k { type string; } choice ch { case tcp { " + s + " leaf port { type string; } leaf host { type string; } } leaf other { type string; } } }", ""
		}, "/top/{choice ch}/{choice tcp}", false},
		{"when-on-case-with-one-member", "a", "urn:a", func(s string) (string, string) {
			return "container top { leaf k { type string; } choice ch { case stream { " + s + " leaf tcp { type string; } } leaf other { type string; } } }", ""
		}, "/top/{choice ch}/{choice stream}", false},
		{"when-on-case-named-like-its-only-member", "a", "urn:a", func(s string) (string, string) {
			return "container top { leaf k { type string; } choice ch { case tcp { " + s + " leaf tcp { type string; } } leaf other { type string; } } }", ""
		}, "/top/{choice ch}/{choice tcp}", false},
		{"when-on-uses-inside-grouping-used-from-b", "a", "urn:b", func(s string) (string, string) {
			return "grouping inner { container gc { leaf k { type string; } } } grouping outer { container o { uses inner { " + s + " } } }", "uses a:outer;"
		}, "/o/gc", false},
		// module a includes a submodule that binds the same prefixes to the OTHER modules: a statement
		// written in a itself still resolves through a's own imports
		{"direct-with-submodule-rebinding-prefixes", "a", "urn:a", func(s string) (string, string) {
			return "CLASH:container c { leaf k { type string; } " + s + " }", ""
		}, "/c", false},
		{"submodule-of-a", "a", "urn:a", func(s string) (string, string) {
			return "SUB:container c { leaf k { type string; } " + s + " }", ""
		}, "/c", false},
		// the submodule imports LESS than its module: n1 as p only; q (imported by the module a and by
		// nothing in the submodule) is an unknown prefix for a statement written in the submodule
		{"submodule-of-a-importing-less", "s", "urn:a", func(s string) (string, string) {
			return "SUBLESS:container c { leaf k { type string; } " + s + " }", ""
		}, "/c", false},
	}
}

type caseRec struct {
	Placement   string `json:"placement"`
	Kind        string `json:"kind"` // must when path
	Expr        int    `json:"expr"`
	ConfigFalse bool   `json:"config_false,omitempty"` // the carrying node is config false
	// a second statement written directly in module b (same compilation)
	OwnKind  string `json:"own_kind,omitempty"`
	OwnExpr  int    `json:"own_expr,omitempty"`
	OwnFirst bool   `json:"own_first,omitempty"`
}

func stmtFor(kind string, i int) (string, expr) {
	switch kind {
	case "must":
		return fmt.Sprintf("must %q;", exprs[i].Text), exprs[i]
	case "when":
		return fmt.Sprintf("leaf w { type string; when %q; }", exprs[i].Text), exprs[i]
	case "rawwhen":
		return fmt.Sprintf("when %q;", exprs[i].Text), exprs[i]
	case "must2":
		return fmt.Sprintf("must \"k\"; must %q;", exprs[i].Text), exprs[i]
	}
	return fmt.Sprintf("leaf lr { type leafref { path %q; } }", paths[i].Text), paths[i]
}

func build(cr caseRec) (mods map[string]string, pl placement, e expr, ok bool) {
	for _, p := range placements() {
		if p.Name == cr.Placement {
			pl = p
		}
	}
	if pl.Name == "" {
		return nil, pl, e, false
	}
	var stmt string
	switch cr.Kind {
	case "must":
		e = exprs[cr.Expr]
		stmt = fmt.Sprintf("must %q;", e.Text)
	case "when":
		e = exprs[cr.Expr]
		stmt = fmt.Sprintf("leaf w { type string; when %q; }", e.Text)
	case "rawwhen":
		e = exprs[cr.Expr]
		stmt = fmt.Sprintf("when %q;", e.Text)
	case "must2":
		// a second must on the same node, after a valid one
		e = exprs[cr.Expr]
		stmt = fmt.Sprintf("must \"k\"; must %q;", e.Text)
	case "path":
		e = paths[cr.Expr]
		stmt = fmt.Sprintf("leaf lr { type leafref { path %q; } }", e.Text)
	case "upath":
		// the leafref is a member of a union, behind a member that accepts every string
		e = paths[cr.Expr]
		stmt = fmt.Sprintf("leaf lr { type union { type string; type int8; type leafref { path %q; } } }", e.Text)
	}
	if cr.ConfigFalse {
		// the node that carries the statement is state data: its expressions are compiled all the same
		stmt = "config false; " + stmt
	}
	abody, bbody := pl.Build(stmt)
	if cr.OwnKind != "" {
		own, _ := stmtFor(cr.OwnKind, cr.OwnExpr)
		own = "container own { leaf k { type string; } " + own + " }"
		if cr.OwnFirst {
			bbody = own + " " + bbody
		} else {
			bbody = bbody + " " + own
		}
	}
	mods = map[string]string{
		"n1": "module n1 { namespace \"urn:n1\"; prefix n1; container n1c { leaf y { type string; } leaf k { type string; } } }",
		"n2": "module n2 { namespace \"urn:n2\"; prefix n2; container n2c { leaf y { type string; } list z { key y; leaf y { type string; } leaf w { type string; } } } }",
	}
	ahdr := "module a { namespace \"urn:a\"; prefix a; import n1 { prefix p; } import n2 { prefix q; }"
	if strings.HasPrefix(abody, "SUB:") {
		mods["s"] = "submodule s { belongs-to a { prefix a; } import n1 { prefix p; } import n2 { prefix q; } " + abody[4:] + " }"
		abody = ""
		ahdr += " include s;"
	}
	if strings.HasPrefix(abody, "SUBLESS:") {
		mods["s"] = "submodule s { belongs-to a { prefix a; } import n1 { prefix p; } " + abody[8:] + " }"
		abody = ""
		ahdr += " include s;"
	}
	if strings.HasPrefix(abody, "CLASH:") {
		abody = abody[6:]
		ahdr += " include s2;"
		mods["s2"] = "submodule s2 { belongs-to a { prefix a; } import n2 { prefix p; } import n1 { prefix q; } container insub { leaf y { type string; must \"p:x = 'v'\"; } } }"
	}
	mods["a"] = ahdr + " " + abody + " }"
	mods["b"] = "module b { namespace \"urn:b\"; prefix b; import a { prefix a; } import n2 { prefix p; } import n1 { prefix r; } " + bbody + " }"
	return mods, pl, e, true
}

var reNamePush = regexp.MustCompile(`Name-Push[\\t]*\{([^ }]*) ([^}]*)\}`)

func check(cr caseRec) (vs []engine.Violation, outcome string) {
	mods, pl, e, ok := build(cr)
	if !ok {
		return []engine.Violation{{Key: "harness-bad-replay-file"}}, "bad"
	}
	mk := func(key, detail string) {
		vs = append(vs, engine.Violation{Key: key, Witness: fmt.Sprintf("%s %s %q", cr.Placement, cr.Kind, e.Text), Detail: detail + "\n" + mods["a"] + "\n" + mods["b"] + mods["s"], Harness: "scope", Replay: engine.JSON(cr)})
	}
	table := tableA
	if pl.Textual == "b" {
		table = tableB
	}
	if pl.Textual == "s" {
		table = tableS
	}
	want := e.Valid
	for _, p := range e.Pfx {
		if _, known := table[p]; !known {
			want = false
		}
		if p == "a" && strings.HasPrefix(cr.Placement, "submodule-of-a") {
			// the statement is written in a submodule and uses the prefix of its belongs-to statement.
			// RFC 6020 7.2.2 makes that prefix usable, this compiler knows it nowhere (types, uses and
			// expressions alike: "unknown import a"); the property speaks of imports only - unsettled
			return nil, "unsettled-belongs-to-prefix"
		}
	}
	if cr.Placement == "deviation-from-b-adding-a-must-the-target-already-has" {
		// the same text stands in module a as well: it has to be valid there too, and the node ends
		// up with TWO musts, one compiled with each module's prefixes
		for _, p := range e.Pfx {
			if _, known := tableA[p]; !known {
				want = false
			}
		}
		alsoTable = tableA
		defer func() { alsoTable = nil }()
	}
	var own expr
	anyFile := false
	if cr.OwnKind != "" {
		_, own = stmtFor(cr.OwnKind, cr.OwnExpr)
		wantOwn := own.Valid
		for _, p := range own.Pfx {
			if _, known := tableB[p]; !known {
				wantOwn = false
			}
		}
		switch {
		case want && !wantOwn:
			pl.Textual = "b" // the error must name the file of the one invalid statement
		case !want && !wantOwn:
			anyFile = true // two invalid statements: either may be reported
		}
		want = want && wantOwn
	}
	res := gen.Compile(mods, gen.Options{})
	cls := cr.Placement + ":" + cr.Kind
	if cr.ConfigFalse {
		cls += "+config-false"
	}
	if cr.OwnKind != "" {
		cls += "+own-" + cr.OwnKind
	}
	switch res.Verdict() {
	case "panic", "nonterminating":
		mk(res.Verdict()+":"+cls, fmt.Sprint(res.Panic))
		return vs, res.Verdict()
	case "error":
		if want {
			mk("valid-expression-rejected:"+cls+":"+pfxClass(e), res.Err.Error())
			return vs, "error"
		}
		file := pl.Textual + ".yang"
		if strings.Contains(mods["a"], "include s;") {
			file = "s.yang"
		}
		if strings.HasPrefix(pl.Name, "deviation-from-b") || anyFile {
			// the statement ends up on a node of module a, the text is in b: which location to name is unspecified
			return vs, "error"
		}
		if !strings.Contains(res.Err.Error(), file) {
			mk("error-does-not-name-the-statement's-module:"+cls, "expected "+file+" in: "+res.Err.Error())
		}
		return vs, "error"
	}
	if !want {
		why := "syntactically invalid"
		if e.Valid {
			why = "uses a prefix unknown in module " + pl.Textual
		}
		mk("invalid-expression-accepted:"+cls+":"+pfxClass(e), "the expression is "+why)
		return vs, "ok-but-invalid"
	}
	// namespaces in the compiled machine
	d := gen.DumpString(res.MS, gen.DumpOpts{})
	if cr.OwnKind != "" {
		// first the statement written in b itself
		vs = append(vs, checkNode(d, "/own", cr.OwnKind, own, tableB, "urn:b", false, cls+":own-statement", mk2(cr, mods))...)
	}
	if cr.Kind == "upath" {
		return vs, "ok" // (only the verdict is checked: the member's machine is not in the dump)
	}
	vs = append(vs, checkNode(d, pl.Node, cr.Kind, e, table, pl.EndsIn, pl.Unspec, cr.Placement+":"+cr.Kind, mk2(cr, mods))...)
	return vs, "ok"
}

func mk2(cr caseRec, mods map[string]string) func(key, witness, detail string) engine.Violation {
	return func(key, witness, detail string) engine.Violation {
		return engine.Violation{Key: key, Witness: witness, Detail: detail + "\n" + mods["a"] + "\n" + mods["b"] + mods["s"], Harness: "scope", Replay: engine.JSON(cr)}
	}
}

// alsoTable: set while a case is checked in which the same statement text also stands in another
// module (its names are then compiled once with each module's prefix table).
var alsoTable map[string]string

func checkNode(d, node, kind string, e expr, table map[string]string, endsIn string, unspec bool, cls string, mkv func(key, witness, detail string) engine.Violation) (vs []engine.Violation) {
	mk := func(key, detail string) {
		vs = append(vs, mkv(key, fmt.Sprintf("%s %q", cls, e.Text), detail))
	}
	switch kind {
	case "when":
		node += "/w"
	case "path":
		node += "/lr"
	}
	var line string
	for _, l := range strings.Split(d, "\n") {
		if strings.HasPrefix(l, node+" ") {
			line = l
		}
	}
	if line == "" {
		mk("node-missing:"+cls, node+" not in the schema")
		return vs
	}
	if !strings.Contains(line, fmt.Sprintf("%q", e.Text)) && !strings.Contains(line, strings.ReplaceAll(fmt.Sprintf("%q", e.Text), `"`, `\"`)) {
		mk("expression-text-lost:"+cls, "GetExpr() is not the source text "+e.Text)
	}
	got := map[string]map[string]bool{}
	for _, m := range reNamePush.FindAllStringSubmatch(line, -1) {
		if got[m[2]] == nil {
			got[m[2]] = map[string]bool{}
		}
		got[m[2]][m[1]] = true
	}
	var names []string
	for n := range e.Names {
		names = append(names, n)
	}
	sort.Strings(names)
	for _, n := range names {
		pfx := e.Names[n]
		wantNs := endsIn
		if pfx != "" {
			wantNs = table[pfx]
		} else if unspec {
			continue
		}
		if len(got[n]) == 0 {
			mk("name-not-in-machine:"+cls, "no Name-Push for "+n+" in "+line)
			continue
		}
		if alsoTable != nil && pfx != "" && alsoTable[pfx] != wantNs {
			if !got[n][wantNs] || !got[n][alsoTable[pfx]] || len(got[n]) != 2 {
				mk("wrong-namespace:"+cls+":one-of-two-statements", fmt.Sprintf("name %s (prefix %q): the two musts with this text must be compiled with %s and %s; namespaces in the machines: %v", n, pfx, wantNs, alsoTable[pfx], got[n]))
			}
			continue
		}
		if !got[n][wantNs] || len(got[n]) != 1 {
			var g []string
			for k := range got[n] {
				g = append(g, k)
			}
			kind := "prefixed"
			if pfx == "" {
				kind = "unprefixed"
			}
			mk("wrong-namespace:"+cls+":"+kind, fmt.Sprintf("name %s (prefix %q) compiled with namespace %v, expected %s", n, pfx, g, wantNs))
		}
	}
	return vs
}

func pfxClass(e expr) string {
	if !e.Valid {
		return "syntax"
	}
	return "prefixes=" + strings.Join(e.Pfx, "+")
}

func run(c *engine.Ctx) {
	for _, pl := range placements() {
		for _, kind := range []string{"must", "must2", "when", "path", "upath", "rawwhen"} {
			if strings.HasPrefix(pl.Name, "when-on-") != (kind == "rawwhen") {
				continue
			}
			if kind == "must2" && (pl.Name == "typedef-of-a-used-from-b" || pl.Name == "deviation-from-b") {
				continue
			}
			n := len(exprs)
			if kind == "path" || kind == "upath" {
				n = len(paths)
			}
			if pl.Name == "typedef-of-a-used-from-b" && kind != "path" && kind != "upath" || pl.Name == "deviation-from-b" && kind == "when" || pl.Name == "refine-must-in-b" && kind != "must" && kind != "must2" || pl.Name == "deviation-from-b-adding-a-must-the-target-already-has" && kind != "must" {
				continue
			}
			for i := 0; i < n; i++ {
				if c.Expired() {
					return
				}
				for _, cf := range []bool{false, true} {
					if cf && (kind == "rawwhen" || pl.Name == "typedef-of-a-used-from-b" || strings.HasPrefix(pl.Name, "deviation-from-b") || pl.Name == "refine-must-in-b") {
						continue
					}
					cr := caseRec{Placement: pl.Name, Kind: kind, Expr: i, ConfigFalse: cf}
					id := fmt.Sprintf("%s:%s:%d:%v", pl.Name, kind, i, cf)
					if !c.Owns(id) || !c.Case(id) {
						continue
					}
					c.Add("states", 1)
					c.Add("transitions", 1)
					c.Nontrivial()
					vs, outcome := check(cr)
					c.Outcome(kind + ":" + outcome)
					for _, v := range vs {
						c.Report(v)
					}
				}
			}
		}
	}
	// pairs: a statement of module a that ends up in b, and a statement written in b itself,
	// in one compilation (same prefix strings, different meanings or unknown in one of them)
	for _, pn := range []string{"grouping-used-from-b", "nested-grouping-from-b", "typedef-of-a-used-from-b", "augment-from-b"} {
		for _, k1 := range []string{"must", "when", "path"} {
			if pn == "typedef-of-a-used-from-b" && k1 != "path" {
				continue
			}
			for _, k2 := range []string{"must", "when", "path"} {
				for _, e1 := range []int{0, 1, 2, 4, 5} {
					for _, e2 := range []int{0, 1, 2, 3} {
						for _, first := range []bool{false, true} {
							if c.Expired() {
								return
							}
							cr := caseRec{Placement: pn, Kind: k1, Expr: e1, OwnKind: k2, OwnExpr: e2, OwnFirst: first}
							id := fmt.Sprintf("pair:%s:%s:%d:%s:%d:%v", pn, k1, e1, k2, e2, first)
							if !c.Owns(id) || !c.Case(id) {
								continue
							}
							c.Add("states", 1)
							c.Add("transitions", 1)
							c.Nontrivial()
							vs, outcome := check(cr)
							c.Outcome("pair:" + outcome)
							for _, v := range vs {
								c.Report(v)
							}
						}
					}
				}
			}
		}
	}
	c.Sample(map[string]any{"placement": "grouping-used-from-b", "statement": "must \"p:x = 'v'\";", "expect": "compiles; p resolves through module a's imports to urn:n1 although b maps p to urn:n2"})
}

func replay(c *engine.Ctx, sub string, raw json.RawMessage) []engine.Violation {
	var cr caseRec
	if json.Unmarshal(raw, &cr) != nil {
		return []engine.Violation{{Key: "harness-bad-replay-file"}}
	}
	vs, _ := check(cr)
	return vs
}
