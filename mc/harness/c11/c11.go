// Package c11: schema compilation is total and deterministic.
package c11

import (
	"encoding/json"
	"fmt"
	"regexp"
	"sort"
	"strings"

	"verif/engine"
	"verif/gen"
)

func init() {
	engine.Register(&engine.Harness{
		Prop:   "C11",
		Run:    run,
		Replay: replay,
		Rule: "E1 over module sets x E2 over map orders. Module sets: for each of the relations import, include, typedef use, grouping use, identity base, if-feature and each shape (none, self loop, 2-cycle, 3-cycle, acyclic chain, chain into an imported module, dangling reference) one set of 1-3 modules/submodules in which the cyclic definitions are used; pairs of relations; duplicate top-level names, two modules augmenting one target, augment/uses order sensitivity. " +
			"Each set is parsed and compiled by the real code under a step horizon: it must return a schema xor an error (cycles and dangling references: an error), never panic or diverge. Then every map iteration of the run (instrumented range-over-map sites of parse, compile, schema) is an owned choice point: every single deviation from canonical order (all permutations for <=3 keys, reversal and rotations otherwise; two deviations in the thorough tier) is executed and verdict and canonical dump must equal the canonical-order run. Supplying the modules in another order is the first choice point. Non-trivial = a run with a deviation at a site that iterates >= 2 keys.",
		Bound: map[string]string{
			"quick":    "single relations x all shapes + structural sets; deviation bound 1",
			"thorough": "pairs of relations; deviation bound 2 on sets with <= 60 choice points",
		},
		Assumptions: []string{
			"map iteration inside third-party packages (danos/utils tsort sorts its keys) is not owned",
			"error texts are not compared between orders, only the verdict and, on success, the complete dump",
			"step horizon 3e6 ticks decides non-termination (a compile of these sets takes < 5e4)",
		},
	})
}

type modset struct {
	Name   string            `json:"name"`
	Mods   map[string]string `json:"mods"`
	Expect string            `json:"expect"` // ok | error | any
}

// setFeatures: the features the caller enables ("module:feature") for the sets named here; none for the others
var setFeatures = map[string][]string{
	"case:modules:feature-states":       {"Acme:f"},
	"case:modules:feature-states:other": {"acme:f", "acme:g"},
	"case:features-in-one-module":       {"a:f"},
}

// ---------------------------------------------------------------- generator

var shapes = []string{"none", "self", "cycle2", "cycle3", "chain", "cross", "dangling"}

// edges of a shape over local names 1,2,3 (0 = dangling target, -1 = imported module's definition)
func shapeEdges(shape string) [][2]int {
	switch shape {
	case "self":
		return [][2]int{{1, 1}}
	case "cycle2":
		return [][2]int{{1, 2}, {2, 1}}
	case "cycle3":
		return [][2]int{{1, 2}, {2, 3}, {3, 1}}
	case "chain":
		return [][2]int{{1, 2}, {2, 3}}
	case "cross":
		return [][2]int{{1, 2}, {2, -1}}
	case "dangling":
		return [][2]int{{1, 0}}
	}
	return nil
}

func expectFor(shape string) string {
	switch shape {
	case "self", "cycle2", "cycle3", "dangling":
		return "error"
	}
	return "ok"
}

// relationBody returns statements for module a implementing the relation with the shape.
func relationBody(rel, shape string) string {
	var b strings.Builder
	edges := shapeEdges(shape)
	target := func(t int, kind string) string {
		switch t {
		case 0:
			return kind + "missing"
		case -1:
			return "b:" + kind + "b"
		}
		return fmt.Sprintf("%s%d", kind, t)
	}
	out := map[int]int{}
	has := map[int]bool{}
	for _, e := range edges {
		out[e[0]] = e[1]
		has[e[0]], has[e[1]] = true, true
	}
	delete(has, 0)
	delete(has, -1)
	var ids []int
	for i := range has {
		ids = append(ids, i)
	}
	sort.Ints(ids)
	switch rel {
	case "typedef":
		for _, i := range ids {
			if t, ok := out[i]; ok {
				fmt.Fprintf(&b, " typedef t%d { type %s; }", i, target(t, "t"))
			} else {
				fmt.Fprintf(&b, " typedef t%d { type string; }", i)
			}
		}
		if len(ids) > 0 {
			b.WriteString(" leaf user { type t1; }")
		}
	case "grouping":
		for _, i := range ids {
			if t, ok := out[i]; ok {
				fmt.Fprintf(&b, " grouping g%d { leaf gl%d { type string; } uses %s; }", i, i, target(t, "g"))
			} else {
				fmt.Fprintf(&b, " grouping g%d { leaf gl%d { type string; } }", i, i)
			}
		}
		if len(ids) > 0 {
			b.WriteString(" container guser { uses g1; }")
		}
	case "identity":
		for _, i := range ids {
			if t, ok := out[i]; ok {
				fmt.Fprintf(&b, " identity i%d { base %s; }", i, target(t, "i"))
			} else {
				fmt.Fprintf(&b, " identity i%d;", i)
			}
		}
		if len(ids) > 0 {
			b.WriteString(" leaf iuser { type identityref { base i1; } }")
		}
	case "feature":
		for _, i := range ids {
			if t, ok := out[i]; ok {
				fmt.Fprintf(&b, " feature f%d { if-feature %s; }", i, target(t, "f"))
			} else {
				fmt.Fprintf(&b, " feature f%d;", i)
			}
		}
		if len(ids) > 0 {
			b.WriteString(" leaf fuser { if-feature f1; type string; }")
		}
	}
	return b.String()
}

const modB = `module b { namespace "urn:b"; prefix b;
 typedef tb { type int8; } grouping gb { leaf glb { type string; } } identity ib; feature fb;
 container cb { leaf lb { type tb; } } }`

func baseA(body string) string {
	return "module a { namespace \"urn:a\"; prefix a; import b { prefix b; }" + body + " container ca { leaf la { type string; } } }"
}

func importSets() []modset {
	mk := func(name string, imports map[string][]string, expect string) modset {
		ms := modset{Name: "import:" + name, Mods: map[string]string{}, Expect: expect}
		for m, imps := range imports {
			var b strings.Builder
			fmt.Fprintf(&b, "module %s { namespace \"urn:%s\"; prefix %s;", m, m, m)
			for _, i := range imps {
				fmt.Fprintf(&b, " import %s { prefix p%s; }", i, i)
			}
			fmt.Fprintf(&b, " container c%s { leaf l { type string; } } }", m)
			ms.Mods[m] = b.String()
		}
		return ms
	}
	return []modset{
		mk("none", map[string][]string{"a": nil, "b": nil, "c": nil}, "ok"),
		mk("self", map[string][]string{"a": {"a"}}, "error"),
		mk("cycle2", map[string][]string{"a": {"b"}, "b": {"a"}}, "error"),
		mk("cycle3", map[string][]string{"a": {"b"}, "b": {"c"}, "c": {"a"}}, "error"),
		mk("chain", map[string][]string{"a": {"b"}, "b": {"c"}, "c": nil}, "ok"),
		mk("diamond", map[string][]string{"a": {"b", "c"}, "b": {"c"}, "c": nil}, "ok"),
		mk("dangling", map[string][]string{"a": {"zz"}}, "error"),
		// several ill-formed references of the same kind in one set (the second one is reported - or
		// walked past - like the first)
		mk("dangling-twice-in-one-module", map[string][]string{"a": {"zz", "yy"}}, "error"),
		mk("dangling-in-two-modules", map[string][]string{"y": {"m2"}, "z": {"m1"}}, "error"),
		mk("dangling-in-two-modules-crossed", map[string][]string{"a": {"zz"}, "d": {"cc"}, "m": {"a", "d"}}, "error"),
		mk("dangling-and-cycle", map[string][]string{"a": {"b", "zz"}, "b": {"a"}}, "error"),
		mk("dangling-thrice", map[string][]string{"a": {"x1", "x2"}, "b": {"x3", "a"}}, "error"),
	}
}

const modX = "module x { namespace \"urn:x\"; prefix x; typedef tx { type int8; } }"

func includeSets() []modset {
	mod := func(incs ...string) string {
		var b strings.Builder
		b.WriteString("module a { namespace \"urn:a\"; prefix a;")
		for _, i := range incs {
			fmt.Fprintf(&b, " include %s;", i)
		}
		b.WriteString(" container ca { leaf la { type string; } } }")
		return b.String()
	}
	sub := func(name, belongs string, body string, incs ...string) string {
		var b strings.Builder
		fmt.Fprintf(&b, "submodule %s { belongs-to %s { prefix a; }", name, belongs)
		for _, i := range incs {
			fmt.Fprintf(&b, " include %s;", i)
		}
		b.WriteString(body + " }")
		return b.String()
	}
	return []modset{
		{"include:one", map[string]string{"a": mod("s1"), "s1": sub("s1", "a", " container cs1 { leaf x { type string; } }")}, "ok"},
		{"include:two", map[string]string{"a": mod("s1", "s2"), "s1": sub("s1", "a", " container cs1 { leaf x { type string; } }"), "s2": sub("s2", "a", " typedef ts { type int8; } container cs2 { leaf y { type ts; } }")}, "ok"},
		{"include:nested", map[string]string{"a": mod("s1", "s2"), "s1": sub("s1", "a", " container cs1 { leaf x { type string; } }", "s2"), "s2": sub("s2", "a", " grouping gs { leaf z { type string; } }")}, "ok"},
		// the module includes s1 only; s2 is reached through s1 (RFC 6020 asks the module to include all
		// its submodules: whether this compiles is not settled here, that the verdict is always the same is)
		{"include:nested-only", map[string]string{"a": mod("s1"), "s1": sub("s1", "a", " container cs1 { uses gs; }", "s2"), "s2": sub("s2", "a", " grouping gs { leaf z { type string; } }")}, "any"},
		{"include:nested-only:import-below", map[string]string{"a": mod("s1"), "s1": sub("s1", "a", " container cs1 { uses gs; }", "s2"), "s2": sub("s2", "a", " import x { prefix x; } grouping gs { leaf z { type x:tx; } }"),
			"x": "module x { namespace \"urn:x\"; prefix x; typedef tx { type int8; } }"}, "any"},
		{"include:nested-twice:import-below", map[string]string{"a": mod("s1"), "s1": sub("s1", "a", " container cs1;", "s2"), "s2": sub("s2", "a", " container cs2;", "s3"), "s3": sub("s3", "a", " import x { prefix x; } container cs3 { leaf z { type x:tx; } }"),
			"x": "module x { namespace \"urn:x\"; prefix x; typedef tx { type int8; } }"}, "any"},
		// a prefix that only an included submodule imports, used one or two levels above that submodule
		// (ill-formed: whoever uses a prefix has to import it; accepted or refused, but always the same)
		{"include:import-used-above:module", map[string]string{"a": strings.Replace(mod("s1"), " container ca {", " leaf u { type x:tx; } container ca {", 1), "s1": sub("s1", "a", " import x { prefix x; } container cs1;"), "x": modX}, "any"},
		{"include:import-used-above:nested:module", map[string]string{"a": strings.Replace(mod("s1"), " container ca {", " leaf u { type x:tx; } container ca {", 1), "s1": sub("s1", "a", " container cs1;", "s2"), "s2": sub("s2", "a", " import x { prefix x; } container cs2;"), "x": modX}, "any"},
		{"include:import-used-above:nested:module-includes-both", map[string]string{"a": strings.Replace(mod("s1", "s2"), " container ca {", " leaf u { type x:tx; } container ca {", 1), "s1": sub("s1", "a", " container cs1;", "s2"), "s2": sub("s2", "a", " import x { prefix x; } container cs2;"), "x": modX}, "any"},
		{"include:import-used-above:nested:submodule", map[string]string{"a": mod("s1"), "s1": sub("s1", "a", " container cs1 { leaf u { type x:tx; } }", "s2"), "s2": sub("s2", "a", " import x { prefix x; } container cs2;"), "x": modX}, "any"},
		{"include:import-used-above:nested-twice:module", map[string]string{"a": strings.Replace(mod("s1"), " container ca {", " leaf u { type x:tx; } container ca {", 1), "s1": sub("s1", "a", " container cs1;", "s2"), "s2": sub("s2", "a", " container cs2;", "s3"), "s3": sub("s3", "a", " import x { prefix x; } container cs3;"), "x": modX}, "any"},
		{"include:import-used-above:nested-twice:submodule", map[string]string{"a": mod("s1", "s2", "s3"), "s1": sub("s1", "a", " container cs1 { leaf u { type x:tx; } }", "s2"), "s2": sub("s2", "a", " container cs2;", "s3"), "s3": sub("s3", "a", " import x { prefix x; } container cs3;"), "x": modX}, "any"},
		{"include:import-used-above:sibling", map[string]string{"a": mod("s1", "s2"), "s1": sub("s1", "a", " container cs1 { leaf u { type x:tx; } }"), "s2": sub("s2", "a", " import x { prefix x; } container cs2;"), "x": modX}, "any"},
		// a grouping that uses a more obsolete one (ill-formed), itself used from a deprecated grouping of
		// another submodule: refused whichever submodule is expanded first
		{"include:status-reference-across-submodules", map[string]string{"a": mod("s1", "s2"),
			"s1": sub("s1", "a", " grouping g2 { status deprecated; leaf x2 { type string; } } grouping g1 { uses g2; }"),
			"s2": sub("s2", "a", " grouping g3 { status deprecated; uses g1; } container cs2 { status deprecated; uses g3; }", "s1")}, "any"},
		{"include:status-reference-across-submodules:unused", map[string]string{"a": mod("s1", "s2"),
			"s1": sub("s1", "a", " grouping g2 { status deprecated; leaf x2 { type string; } } grouping g1 { uses g2; }"),
			"s2": sub("s2", "a", " grouping g3 { status deprecated; uses g1; }", "s1")}, "any"},
		{"include:status-reference-across-submodules:typedef", map[string]string{"a": mod("s1", "s2"),
			"s1": sub("s1", "a", " typedef t2 { status deprecated; type string; } grouping g1 { leaf y { type t2; } }"),
			"s2": sub("s2", "a", " grouping g3 { status deprecated; uses g1; } container cs2 { status deprecated; uses g3; }", "s1")}, "any"},
		{"import:status-reference-across-modules", map[string]string{
			"a": "module a { namespace \"urn:a\"; prefix a; import b { prefix b; } grouping g3 { status deprecated; uses b:g1; } container ca { status deprecated; uses g3; } }",
			"b": "module b { namespace \"urn:b\"; prefix b; grouping g2 { status deprecated; leaf x2 { type string; } } grouping g1 { uses g2; } }"}, "any"},
		{"import:status-reference-across-modules:unused", map[string]string{
			"a": "module a { namespace \"urn:a\"; prefix a; import b { prefix b; } grouping g3 { status deprecated; uses b:g1; } }",
			"b": "module b { namespace \"urn:b\"; prefix b; grouping g2 { status deprecated; leaf x2 { type string; } } grouping g1 { uses g2; } }"}, "any"},
		// groupings of two sibling submodules (neither includes the other) that use each other, and the
		// module using one of them: an error (unknown grouping or cycle), never an endless expansion
		{"include:sibling-groupings-use-each-other", map[string]string{"a": strings.Replace(mod("s1", "s2"), " container ca {", " container top { uses one; } container ca {", 1),
			"s1": sub("s1", "a", " grouping one { container a1 { uses two; } }"), "s2": sub("s2", "a", " grouping two { container b1 { uses one; } }")}, "error"},
		{"include:sibling-groupings-use-each-other:unused", map[string]string{"a": mod("s1", "s2"),
			"s1": sub("s1", "a", " grouping one { container a1 { uses two; } }"), "s2": sub("s2", "a", " grouping two { container b1 { uses one; } }")}, "error"},
		{"include:module-and-submodule-groupings-use-each-other", map[string]string{"a": strings.Replace(mod("s1"), " container ca {", " grouping one { container a1 { uses two; } } container top { uses one; } container ca {", 1),
			"s1": sub("s1", "a", " grouping two { container b1 { uses one; } }")}, "error"},
		{"include:sibling-grouping-used-without-include", map[string]string{"a": strings.Replace(mod("s1", "s2"), " container ca {", " container top { uses one; } container ca {", 1),
			"s1": sub("s1", "a", " grouping one { container a1 { uses two; } }"), "s2": sub("s2", "a", " grouping two { leaf z { type string; } }")}, "any"},
		{"include:cycle", map[string]string{"a": mod("s1", "s2"), "s1": sub("s1", "a", " container cs1;", "s2"), "s2": sub("s2", "a", " container cs2;", "s1")}, "error"},
		{"include:self", map[string]string{"a": mod("s1"), "s1": sub("s1", "a", " container cs1;", "s1")}, "error"},
		// include cycles among submodules that belong to the module but that the module's own include
		// statements do not lead to: the compiler attaches every submodule to the module named in its
		// belongs-to, so these cycles are cycles of the compilation all the same
		{"include:unreachable-cycle", map[string]string{"a": mod("s1"), "s1": sub("s1", "a", " container cs1;"), "s2": sub("s2", "a", " container cs2;", "s3"), "s3": sub("s3", "a", " container cs3;", "s2")}, "error"},
		{"include:unreachable-cycle:no-include-at-all", map[string]string{"a": mod(), "s2": sub("s2", "a", " container cs2;", "s3"), "s3": sub("s3", "a", " container cs3;", "s2")}, "error"},
		{"include:unreachable-self", map[string]string{"a": mod("s1"), "s1": sub("s1", "a", " container cs1;"), "s2": sub("s2", "a", " container cs2;", "s2")}, "error"},
		{"include:unreachable-cycle3", map[string]string{"a": mod(), "s2": sub("s2", "a", "", "s3"), "s3": sub("s3", "a", "", "s4"), "s4": sub("s4", "a", "", "s2")}, "error"},
		{"include:unreachable-cycle:groupings-use-each-other", map[string]string{"a": mod("s1"), "s1": sub("s1", "a", " container cs1;"),
			"s2": sub("s2", "a", " grouping g2 { container c2 { uses g3; } } container t2 { uses g2; }", "s3"), "s3": sub("s3", "a", " grouping g3 { container c3 { uses g2; } }", "s2")}, "error"},
		{"include:reachable-cycle:groupings-use-each-other", map[string]string{"a": mod("s2"),
			"s2": sub("s2", "a", " grouping g2 { container c2 { uses g3; } } container t2 { uses g2; }", "s3"), "s3": sub("s3", "a", " grouping g3 { container c3 { uses g2; } }", "s2")}, "error"},
		{"include:unreachable-acyclic", map[string]string{"a": mod("s1"), "s1": sub("s1", "a", " container cs1;"), "s2": sub("s2", "a", " container cs2 { uses g3; }", "s3"), "s3": sub("s3", "a", " grouping g3 { leaf z { type string; } }")}, "any"},
		{"include:dangling", map[string]string{"a": mod("nosuch")}, "error"},
		{"include:wrong-owner", map[string]string{"a": mod("s1"), "s1": sub("s1", "other", " container cs1;")}, "error"},
		// imports that are written only in a submodule take part in the import graph of the module
		{"include:submodule-only-import:cycle", map[string]string{"a": mod("s1"), "s1": sub("s1", "a", " import b { prefix b; } container cs1 { leaf x { type string; } }"),
			"b": "module b { namespace \"urn:b\"; prefix b; import a { prefix a; } container cb { leaf y { type string; } } }"}, "error"},
		{"include:submodule-only-import:grouping-cycle", map[string]string{"a": mod("s1"), "s1": sub("s1", "a", " import b { prefix b; } grouping ga { container ca2 { uses b:gb; } }"),
			"b": "module b { namespace \"urn:b\"; prefix b; import a { prefix a; } grouping gb { container cb2 { uses a:ga; } } container top { uses gb; } }"}, "error"},
		{"include:submodule-only-import:augment-into-uses", map[string]string{"a": mod("s1"), "s1": sub("s1", "a", " import b { prefix b; } augment /b:bt/b:gc { leaf y { type string; } }"),
			"b": "module b { namespace \"urn:b\"; prefix b; grouping g { container gc { leaf x { type string; } } } container bt { uses g; } }"}, "ok"},
		{"include:submodule-only-import:typedef-and-identity", map[string]string{"a": mod("s1"), "s1": sub("s1", "a", " import b { prefix b; } identity ia { base b:ib; } container cs1 { leaf x { type b:tb; } leaf r { type identityref { base b:ib; } } }"),
			"b": "module b { namespace \"urn:b\"; prefix b; typedef tb { type int8; } identity ib; }"}, "ok"},
		{"include:clash", map[string]string{"a": mod("s1", "s2"), "s1": sub("s1", "a", " container same { leaf x { type string; } }"), "s2": sub("s2", "a", " container same { leaf y { type string; } }")}, "error"},
	}
}

// foreignGroupingErrorSets: an ill-formed statement inside a grouping that is defined in a long file
// and used from a short one (imported module, submodule): the error is reported for a statement that
// was copied from the other file, far behind the end of the using file.
func foreignGroupingErrorSets() []modset {
	pad := " description \"" + strings.Repeat("padding ", 60) + "\";"
	var out []modset
	for _, bad := range []struct{ name, stmt string }{
		{"unknown-type", "leaf x { type nosuch; }"},
		{"unknown-feature", "leaf x { if-feature nosuch; type string; }"},
		{"unknown-prefix-in-must", "leaf x { type string; must \"nope:y = 1\"; }"},
		{"unknown-prefix-in-when", "leaf x { type string; when \"../nope:y\"; }"},
		{"unknown-grouping", "container x { uses nosuch; }"},
		{"unknown-base", "leaf x { type identityref { base nosuch; } }"},
		{"bad-default", "leaf x { type int8; default 999; }"},
		{"unknown-leafref-prefix", "leaf x { type leafref { path \"/nope:y\"; } }"},
	} {
		g := " grouping g { container gc { leaf ok { type string; } " + bad.stmt + " } }"
		out = append(out,
			modset{Name: "foreign-grouping-error:import:" + bad.name, Expect: "error", Mods: map[string]string{
				"a": "module a { namespace \"urn:a\"; prefix a; import b { prefix b; } container t { uses b:g; } }",
				"b": "module b { namespace \"urn:b\"; prefix b;" + pad + g + " }"}},
			modset{Name: "foreign-grouping-error:submodule:" + bad.name, Expect: "error", Mods: map[string]string{
				"a": "module a { namespace \"urn:a\"; prefix a; include s; container t { uses g; } }",
				"s": "submodule s { belongs-to a { prefix a; }" + pad + g + " }"}},
			modset{Name: "foreign-grouping-error:augment-into-import:" + bad.name, Expect: "error", Mods: map[string]string{
				"a": "module a { namespace \"urn:a\"; prefix a; import b { prefix b; } augment /b:bt { uses b:g; } }",
				"b": "module b { namespace \"urn:b\"; prefix b;" + pad + " container bt { leaf z { type string; } }" + g + " }"}})
	}
	return out
}

// skipUnknownSets: compiled in the mode that tolerates references to absent modules (names start with
// "skip-unknown:"): absent imports, a submodule whose module is absent next to modules with submodules
// of their own, an absent include.  Whatever the verdict, it is the same for every order.
func skipUnknownSets() []modset {
	hdr := func(m string) string { return fmt.Sprintf("module %s { namespace \"urn:%s\"; prefix %s;", m, m, m) }
	sub := func(name, belongs, body string) string {
		return fmt.Sprintf("submodule %s { belongs-to %s { prefix %s; } %s }", name, belongs, belongs, body)
	}
	return []modset{
		{Name: "skip-unknown:absent-import", Expect: "any", Mods: map[string]string{"a": hdr("a") + " import zz { prefix zz; } leaf l { type zz:t; } container c { uses zz:g; } }"}},
		{Name: "skip-unknown:orphan-submodule", Expect: "any", Mods: map[string]string{
			"a":  hdr("a") + " include a1; include a2; container ca { uses g1; uses g2; } }",
			"a1": sub("a1", "a", "grouping g1 { leaf x1 { type string; } }"), "a2": sub("a2", "a", "grouping g2 { leaf x2 { type string; } }"),
			"o1": sub("o1", "nosuch", "container co { leaf y { type string; } }")}},
		{Name: "skip-unknown:two-orphans-two-families", Expect: "any", Mods: map[string]string{
			"a": hdr("a") + " include a1; container ca { uses g1; } }", "a1": sub("a1", "a", "grouping g1 { leaf x1 { type string; } }"),
			"b": hdr("b") + " include b1; container cb { uses h1; } }", "b1": sub("b1", "b", "grouping h1 { leaf y1 { type string; } }"),
			"m1": sub("m1", "gone", "container c1;"), "z9": sub("z9", "away", "container c9;")}},
		{Name: "skip-unknown:absent-include", Expect: "any", Mods: map[string]string{"a": hdr("a") + " include nosuch; container ca { leaf l { type string; } } }"}},
		{Name: "skip-unknown:absent-import-in-submodule", Expect: "any", Mods: map[string]string{
			"a": hdr("a") + " include a1; container ca { uses g1; } }", "a1": sub("a1", "a", "import zz { prefix zz; } grouping g1 { leaf x1 { type zz:t; } }")}},
	}
}

// caseSets: names that differ only in the case of their letters are different names (modules,
// features, typedefs, groupings, identities), with the caller enabling one of two such features.
func caseSets() []modset {
	hdr := func(m string) string { return fmt.Sprintf("module %s { namespace \"urn:%s\"; prefix %s;", m, m, m) }
	return []modset{
		{Name: "case:modules:feature-states", Expect: "ok", Mods: map[string]string{
			"Acme": hdr("Acme") + " feature f; leaf x { if-feature f; type string; } }",
			"acme": hdr("acme") + " feature g; feature f { if-feature g; } leaf y { if-feature f; type string; } }"}},
		{Name: "case:modules:feature-states:other", Expect: "ok", Mods: map[string]string{
			"Acme": hdr("Acme") + " feature f; leaf x { if-feature f; type string; } }",
			"acme": hdr("acme") + " feature g; feature f { if-feature g; } leaf y { if-feature f; type string; } }"}},
		{Name: "case:features-in-one-module", Expect: "ok", Mods: map[string]string{
			"a": hdr("a") + " feature f; feature F; leaf x { if-feature f; type string; } leaf y { if-feature F; type string; } }"}},
		{Name: "case:definitions", Expect: "ok", Mods: map[string]string{
			"a": hdr("a") + " typedef t { type int8; } typedef T { type string; } grouping g { leaf l { type t; } } grouping G { leaf m { type T; } } identity i; identity I; identity j { base i; } identity J { base I; }" +
				" container c { uses g; uses G; leaf r { type identityref { base i; } } leaf s { type identityref { base I; } } } }"}},
		{Name: "case:definitions:cycle-through-the-other-case", Expect: "ok", Mods: map[string]string{
			"a": hdr("a") + " typedef t { type T; } typedef T { type int8; } grouping g { uses G; } grouping G { leaf m { type t; } } identity i { base I; } identity I; feature f { if-feature F; } feature F;" +
				" container c { uses g; leaf r { if-feature f; type identityref { base i; } } } }"}},
		{Name: "case:imported-modules", Expect: "ok", Mods: map[string]string{
			"a": hdr("a") + " import b { prefix b; } import B { prefix B; } leaf x { type b:t; } leaf y { type B:t; } }",
			"b": hdr("b") + " typedef t { type int8; } }",
			"B": hdr("B") + " typedef t { type string; } }"}},
	}
}

func structuralSets() []modset {
	hdr := func(m string, imps ...string) string {
		s := fmt.Sprintf("module %s { namespace \"urn:%s\"; prefix %s;", m, m, m)
		for _, i := range imps {
			s += fmt.Sprintf(" import %s { prefix %s; }", i, i)
		}
		return s
	}
	return []modset{
		{"dup-toplevel", map[string]string{"a": hdr("a") + " container same { leaf x { type string; } } }", "b": hdr("b") + " container same { leaf y { type string; } } }"}, "error"},
		{"dup-toplevel-3", map[string]string{"a": hdr("a") + " leaf same { type string; } }", "b": hdr("b") + " leaf same { type int8; } }", "c": hdr("c") + " leaf other { type int8; } }"}, "error"},
		{"two-augments-one-target", map[string]string{
			"t": hdr("t") + " container top { leaf base { type string; } } }",
			"a": hdr("a", "t") + " augment /t:top { leaf fromA { type string; } } }",
			"b": hdr("b", "t") + " augment /t:top { leaf fromB { type int8; } } }"}, "ok"},
		{"two-augments-clash", map[string]string{
			"t": hdr("t") + " container top { leaf base { type string; } } }",
			"a": hdr("a", "t") + " augment /t:top { leaf extra { type string; } } }",
			"b": hdr("b", "t") + " augment /t:top { leaf extra { type int8; } } }"}, "error"},
		{"augment-of-augment", map[string]string{
			"t": hdr("t") + " container top { leaf base { type string; } } }",
			"a": hdr("a", "t") + " augment /t:top { container mid { leaf m { type string; } } } }",
			"b": hdr("b", "t", "a") + " augment /t:top/a:mid { leaf deep { type int8; } } }"}, "ok"},
		{"augment-into-uses", map[string]string{
			"a": hdr("a") + " grouping g { container gc { leaf x { type string; } } } container u { uses g; } augment /a:u/a:gc { leaf y { type string; } } }"}, "ok"},
		{"deviations-two-modules", map[string]string{
			"t": hdr("t") + " container top { leaf l1 { type string; } leaf l2 { type string; } } }",
			"a": hdr("a", "t") + " deviation /t:top/t:l1 { deviate not-supported; } }",
			"b": hdr("b", "t") + " deviation /t:top/t:l2 { deviate replace { type int8; } } }"}, "ok"},
		// non-commuting deviations of ONE leaf from two modules that no import relates, with a
		// third module importing both: whatever the outcome is, it must not depend on any map order
		{"deviations-same-leaf-replace-replace", map[string]string{
			"t":   hdr("t") + " container top { leaf l { type int8; default 1; } } }",
			"da":  hdr("da", "t") + " deviation /t:top/t:l { deviate replace { default 2; } } }",
			"db":  hdr("db", "t") + " deviation /t:top/t:l { deviate replace { default 3; } } }",
			"aaa": hdr("aaa", "db", "da", "t") + " container all { leaf x { type string; } } }"}, "any"},
		{"deviations-same-leaf-add-replace", map[string]string{
			"t":   hdr("t") + " container top { leaf l { type int8; } } }",
			"da":  hdr("da", "t") + " deviation /t:top/t:l { deviate add { default 2; } } }",
			"db":  hdr("db", "t") + " deviation /t:top/t:l { deviate replace { default 3; } } }",
			"aaa": hdr("aaa", "da", "db", "t") + " container all { leaf x { type string; } } }"}, "any"},
		{"augments-same-target-then-augment-of-augment", map[string]string{
			"t":   hdr("t") + " container top { leaf base { type string; } } }",
			"ma":  hdr("ma", "t") + " augment /t:top { container mid { leaf m { type string; } } } }",
			"mb":  hdr("mb", "t", "ma") + " augment /t:top/ma:mid { leaf deep { type int8; } } }",
			"mc":  hdr("mc", "t") + " augment /t:top { leaf other { type string; } } }",
			"aaa": hdr("aaa", "mc", "mb", "ma", "t") + " container all { leaf x { type string; } } }"}, "ok"},
		{"many-siblings", map[string]string{"a": hdr("a") + " container c { leaf l1 { type string; } leaf l2 { type int8; default 1; } leaf l3 { type boolean; } leaf l4 { type string; } list li { key k; leaf k { type string; } unique \"u1 u2\"; leaf u1 { type string; } leaf u2 { type string; } } choice ch { default c1; case c1 { leaf x1 { type string; default d; } } case c2 { leaf x2 { type string; } } } } }"}, "ok"},
		{"identities-diamond", map[string]string{
			"a": hdr("a") + " identity root; identity l { base root; } identity r { base root; } identity leafid { base l; } leaf ref { type identityref { base root; } } }",
			"b": hdr("b", "a") + " identity ext { base a:r; } leaf ref2 { type identityref { base a:root; } } }"}, "ok"},
		{"features-chain", map[string]string{
			"a": hdr("a") + " feature f1; feature f2 { if-feature f1; } feature f3 { if-feature f2; } container c { if-feature f3; leaf l { type string; } } leaf plain { type string; } }"}, "ok"},
		{"rpc-and-notification", map[string]string{
			"a": hdr("a") + " rpc r1 { input { leaf i { type string; } } output { leaf o { type int8; } } } rpc r2; notification n1 { leaf nl { type string; } } }",
			"b": hdr("b") + " rpc r3 { input { leaf i { type string; } } } }"}, "ok"},
		{"must-when-leafref", map[string]string{
			"a": hdr("a") + " container c { must \"l1 = 'x'\" { error-message \"m\"; } leaf l1 { type string; when \"../l2\"; } leaf l2 { type leafref { path \"../l1\"; } } list li { key k; leaf k { type string; } leaf v { type leafref { path \"/a:c/a:li[a:k = current()/../k]/a:k\"; } } } } }"}, "ok"},
	}
}

// sameNameSets: a well-formed and a cyclic definition share a name, in two
// modules or in two non-overlapping scopes of one module (any per-name
// bookkeeping of "already checked" definitions must respect scopes).
func sameNameSets() []modset {
	hdr := func(m string) string { return fmt.Sprintf("module %s { namespace \"urn:%s\"; prefix %s;", m, m, m) }
	two := func(name, cleanA, otherB, expect string) modset {
		return modset{"same-name:" + name, map[string]string{"a": hdr("a") + cleanA + " }", "b": hdr("b") + otherB + " }"}, expect}
	}
	one := func(name, body, expect string) modset {
		return modset{"same-name:" + name, map[string]string{"a": hdr("a") + body + " }"}, expect}
	}
	return []modset{
		two("grouping:modules:cyclic", " grouping g { leaf l { type string; } } container ua { uses g; }", " grouping g { leaf x { type string; } uses g; } container ub { uses g; }", "error"),
		two("grouping:modules:clean", " grouping g { leaf l { type string; } } container ua { uses g; }", " grouping g { leaf x { type string; } } container ub { uses g; }", "ok"),
		two("grouping:modules:cycle2", " grouping g { leaf l { type string; } } grouping h { leaf m { type string; } } container ua { uses g; uses h; }", " grouping g { uses h; } grouping h { uses g; } container ub { uses g; }", "error"),
		one("grouping:scopes:cyclic", " container x { grouping g { leaf l { type string; } } uses g; } container y { grouping g { leaf m { type string; } uses g; } uses g; }", "error"),
		one("grouping:scopes:clean", " container x { grouping g { leaf l { type string; } } uses g; } container y { grouping g { leaf m { type string; } } uses g; }", "any"),
		one("grouping:deep-self", " grouping g { container c { uses g; } } container t { uses g; }", "error"),
		one("grouping:deep-cycle2", " grouping g { leaf l { type string; } container c { uses h; } } grouping h { list li { key k; leaf k { type string; } uses g; } } container t { uses g; }", "error"),
		one("grouping:deep-unused-cycle", " grouping g { container c { uses g; } } container t { leaf l { type string; } }", "error"),
		one("grouping:deep-via-augment", " grouping h { container hc { leaf l { type string; } } } grouping g { uses h { augment hc { uses g; } } } container t { uses g; }", "error"),
		one("grouping:deep-diamond", " grouping d { leaf x { type string; } } grouping b { container cb { uses d; } } grouping c { container cc { uses d; } } grouping top { uses b; uses c; container w { uses d; } } container t { uses top; }", "ok"),
		one("grouping:direct-and-deep-diamond", " grouping d { leaf x { type string; } } grouping b { uses d; } grouping top { uses b; container w { uses d; } } container t { uses top; }", "ok"),
		one("grouping:nested-definition-cycle", " grouping g { grouping h { container c { uses g; } } uses h; } container t { uses g; }", "error"),
		// references written with the module's OWN prefix stay local: cycles through them are cycles
		one("own-prefix:typedef:self", " typedef t { type a:t; } leaf l { type t; }", "error"),
		one("own-prefix:typedef:cycle2", " typedef t1 { type a:t2; } typedef t2 { type a:t1; } leaf l { type a:t1; }", "error"),
		one("own-prefix:typedef:cycle2-mixed", " typedef t1 { type t2; } typedef t2 { type a:t1; } leaf l { type t1; }", "error"),
		one("own-prefix:typedef:chain", " typedef t1 { type a:t2; } typedef t2 { type int8; } leaf l { type a:t1; }", "ok"),
		one("own-prefix:grouping:self", " grouping g { leaf x { type string; } uses a:g; } container c { uses g; }", "error"),
		one("own-prefix:grouping:cycle2-deep", " grouping g { container gc { uses a:h; } } grouping h { container hc { uses a:g; } } container c { uses a:g; }", "error"),
		one("own-prefix:grouping:chain", " grouping g { uses a:h; } grouping h { leaf x { type string; } } container c { uses a:g; }", "ok"),
		one("own-prefix:identity:self", " identity i { base a:i; } leaf l { type identityref { base a:i; } }", "error"),
		one("own-prefix:identity:cycle2", " identity i { base a:j; } identity j { base i; } leaf l { type identityref { base i; } }", "error"),
		one("own-prefix:feature:self", " feature f { if-feature a:f; } leaf l { if-feature a:f; type string; }", "error"),
		one("own-prefix:feature:cycle2", " feature f { if-feature a:h; } feature h { if-feature f; } leaf l { if-feature f; type string; }", "error"),
		// the defect sits in the second of two references of one definition (the first one is fine,
		// and - for features - disabled because no feature is enabled by default)
		one("second-ref:feature:dangling", " feature x; feature fa { if-feature x; if-feature nosuch; } leaf l { if-feature fa; type string; }", "error"),
		one("second-ref:feature:cycle", " feature x; feature fa { if-feature x; if-feature fb; } feature fb { if-feature fa; } leaf l { if-feature fa; type string; }", "error"),
		one("second-ref:feature:cycle-unused", " feature x; feature fa { if-feature x; if-feature fb; } feature fb { if-feature x; if-feature fa; } leaf l { type string; }", "error"),
		// (a dangling if-feature after a disabled one on a data node is only noticed when the first
		// feature is enabled; C11 demands termination and determinism here, not an error: "any")
		one("second-ref:feature:node-dangling", " feature x; leaf l { if-feature x; if-feature nosuch; type string; }", "any"),
		one("second-ref:typedef:union-cycle", " typedef t { type union { type int8; type t; } } leaf l { type t; }", "error"),
		one("second-ref:typedef:union-dangling", " typedef t { type union { type int8; type nosuch; } } leaf l { type t; }", "error"),
		one("second-ref:grouping:cycle", " grouping ok { leaf o { type string; } } grouping g { uses ok; uses g; } container c { uses g; }", "error"),
		one("second-ref:grouping:dangling", " grouping ok { leaf o { type string; } } grouping g { uses ok; uses nosuch; } container c { uses g; }", "error"),
		one("second-ref:identity:dangling-second-identity", " identity i1; identity i2 { base i1; } identity i3 { base nosuch; } leaf l { type identityref { base i1; } }", "error"),
		two("typedef:modules:cyclic", " typedef t { type int8; } leaf la { type t; }", " typedef t { type t; } leaf lb { type t; }", "error"),
		two("typedef:modules:clean", " typedef t { type int8; } leaf la { type t; }", " typedef t { type string; } leaf lb { type t; }", "ok"),
		one("typedef:scopes:cyclic", " container x { typedef t { type int8; } leaf l { type t; } } container y { typedef t { type t; } leaf l { type t; } }", "error"),
		one("typedef:scopes:cycle2", " container x { typedef t { type int8; } typedef u { type t; } leaf l { type u; } } container y { typedef t { type u; } typedef u { type t; } leaf l { type t; } }", "error"),
		two("identity:modules:cyclic", " identity i; leaf la { type identityref { base i; } }", " identity i { base i; } leaf lb { type identityref { base i; } }", "error"),
		two("identity:modules:cycle2", " identity i; identity j { base i; } leaf la { type identityref { base i; } }", " identity i { base j; } identity j { base i; } leaf lb { type identityref { base i; } }", "error"),
		two("feature:modules:cyclic", " feature f; leaf la { if-feature f; type string; }", " feature f { if-feature f; } leaf lb { if-feature f; type string; }", "error"),
		two("feature:modules:cycle2", " feature f; feature h { if-feature f; } leaf la { if-feature h; type string; }", " feature f { if-feature h; } feature h { if-feature f; } leaf lb { if-feature f; type string; }", "error"),
	}
}

func allSets(quick bool) []modset {
	var out []modset
	out = append(out, sameNameSets()...)
	for _, rel := range []string{"typedef", "grouping", "identity", "feature"} {
		for _, sh := range shapes {
			out = append(out, modset{Name: rel + ":" + sh, Mods: map[string]string{"a": baseA(relationBody(rel, sh)), "b": modB}, Expect: expectFor(sh)})
		}
	}
	// the defective definitions live in the imported module b and are entered from module a (and, for
	// the second variant, only from a: b itself does not use them), so that the walk may start in
	// either module depending on the map order
	for _, rel := range []string{"typedef", "grouping", "identity", "feature"} {
		user := map[string]string{
			"typedef":  " typedef ta { type b:t1; } leaf ua { type ta; }",
			"grouping": " grouping ga { uses b:g1; } container ua { uses ga; }",
			"identity": " identity ia { base b:i1; } leaf ua { type identityref { base ia; } }",
			"feature":  " feature fa { if-feature b:f1; } leaf ua { if-feature fa; type string; }",
		}[rel]
		for _, sh := range []string{"self", "cycle2", "cycle3", "dangling", "chain"} {
			body := relationBody(rel, sh)
			for _, variant := range []string{"used-in-both", "used-from-importer-only"} {
				bb := body
				if variant == "used-from-importer-only" {
					// drop b's own user statement (the last statement relationBody writes)
					for _, marker := range []string{" leaf user {", " container guser {", " leaf iuser {", " leaf fuser {"} {
						if i := strings.Index(bb, marker); i >= 0 {
							bb = bb[:i]
						}
					}
				}
				out = append(out, modset{Name: "entered-from-importer:" + rel + ":" + sh + ":" + variant, Expect: expectFor(sh), Mods: map[string]string{
					"a": "module a { namespace \"urn:a\"; prefix a; import b { prefix b; }" + user + " }",
					"b": "module b { namespace \"urn:b\"; prefix b;" + bb + " }"}})
			}
		}
	}
	out = append(out, importSets()...)
	out = append(out, includeSets()...)
	out = append(out, caseSets()...)
	out = append(out, foreignGroupingErrorSets()...)
	out = append(out, skipUnknownSets()...)
	out = append(out, structuralSets()...)
	if !quick {
		rels := []string{"typedef", "grouping", "identity", "feature"}
		for i, r1 := range rels {
			for _, r2 := range rels[i+1:] {
				for _, s1 := range shapes {
					for _, s2 := range shapes {
						exp := "ok"
						if expectFor(s1) == "error" || expectFor(s2) == "error" {
							exp = "error"
						}
						out = append(out, modset{Name: r1 + ":" + s1 + "+" + r2 + ":" + s2, Mods: map[string]string{"a": baseA(relationBody(r1, s1) + relationBody(r2, s2)), "b": modB}, Expect: exp})
					}
				}
			}
		}
	}
	return out
}

// ---------------------------------------------------------------- checks

type rec struct {
	Set     modset `json:"set"`
	Choices []int  `json:"choices"`
}

func outcome(r gen.Result) (verdict, dump string) {
	verdict = r.Verdict()
	if r.OK() {
		dump = gen.DumpString(r.MS, gen.DumpOpts{})
	}
	return
}

func checkTotal(ms modset) (vs []engine.Violation, base gen.Result, verdict, dump string) {
	base = gen.Compile(ms.Mods, gen.Options{MapOrder: []int{}, Features: setFeatures[ms.Name], SkipUnknown: strings.HasPrefix(ms.Name, "skip-unknown:")})
	verdict, dump = outcome(base)
	mk := func(key, detail string) {
		vs = append(vs, engine.Violation{Key: key, Witness: ms.Name, Detail: detail, Harness: "set", Replay: engine.JSON(rec{ms, nil})})
	}
	switch verdict {
	case "panic":
		mk("panic:"+ms.Name, fmt.Sprint(base.Panic))
	case "nonterminating":
		mk("nonterminating:"+ms.Name, "step horizon exceeded")
	case "ok":
		if ms.Expect == "error" {
			mk("cycle-or-dangling-reference-accepted:"+ms.Name, "the set compiles although it contains a cyclic or dangling reference")
		}
	case "error":
		if ms.Expect == "ok" {
			mk("valid-set-rejected:"+ms.Name, base.Stage+": "+base.Err.Error())
		}
	}
	// the same set compiled with a composite features checker from which another checker was derived in
	// between: the same modules and the same enabled features, so the same outcome
	if fs := setFeatures[ms.Name]; fs != nil && (verdict == "ok" || verdict == "error") {
		var universe []string
		for m, text := range ms.Mods {
			for _, f := range reFeature.FindAllStringSubmatch(text, -1) {
				universe = append(universe, m+":"+f[1])
			}
		}
		sort.Strings(universe)
		r := gen.Compile(ms.Mods, gen.Options{MapOrder: []int{}, Features: fs, FeatureSupply: "composite-after-derivation", FeatureUniverse: universe, SkipUnknown: strings.HasPrefix(ms.Name, "skip-unknown:")})
		if v2, d2 := outcome(r); v2 != verdict {
			mk("outcome-depends-on-the-history-of-the-features-checker:"+ms.Name, fmt.Sprintf("fresh checker: %s, composite checker another one was derived from: %s", verdict, v2))
		} else if d2 != dump {
			mk("outcome-depends-on-the-history-of-the-features-checker:"+ms.Name, gen.FirstDiff(dump, d2))
		}
	}
	// a cyclic or dangling reference is an error whichever features the caller enables
	if ms.Expect == "error" && verdict == "error" {
		var feats []string
		for m, text := range ms.Mods {
			for _, f := range reFeature.FindAllStringSubmatch(text, -1) {
				feats = append(feats, m+":"+f[1])
			}
		}
		if len(feats) > 0 {
			sort.Strings(feats)
			if r := gen.Compile(ms.Mods, gen.Options{MapOrder: []int{}, Features: feats}); r.Verdict() != "error" {
				mk("cycle-or-dangling-reference-accepted-with-all-features-enabled:"+ms.Name, "verdict "+r.Verdict()+" with features "+fmt.Sprint(feats))
			}
		}
	}
	return
}

var reFeature = regexp.MustCompile(`feature ([a-z0-9]+)`)

func checkOrder(ms modset, choices []int, verdict, dump string) []engine.Violation {
	r := gen.Compile(ms.Mods, gen.Options{MapOrder: choices, Features: setFeatures[ms.Name], SkipUnknown: strings.HasPrefix(ms.Name, "skip-unknown:")})
	mk := func(key, detail string) []engine.Violation {
		return []engine.Violation{{Key: key, Witness: fmt.Sprintf("%s map-order=%v", ms.Name, choices), Detail: detail, Harness: "order", Replay: engine.JSON(rec{ms, choices})}}
	}
	if r.BadReplay != "" {
		return nil // the deviation changed the number of keys at a later point: prefix no longer applies (still a valid execution)
	}
	v, d := outcome(r)
	switch {
	case v == "panic":
		return mk("panic-under-map-order:"+ms.Name, fmt.Sprint(r.Panic))
	case v != verdict:
		detail := fmt.Sprintf("canonical order: %s, this order: %s", verdict, v)
		if r.Err != nil {
			detail += " (" + r.Err.Error() + ")"
		}
		return mk("verdict-depends-on-map-order:"+ms.Name, detail)
	case d != dump:
		return mk("schema-depends-on-map-order:"+ms.Name, gen.FirstDiff(dump, d))
	}
	return nil
}

func run(c *engine.Ctx) {
	sets := allSets(c.Quick())
	c.Note(fmt.Sprintf("%d module sets", len(sets)))
	bound := 1
	for si, ms := range sets {
		if c.Expired() {
			return
		}
		if !c.Owns(fmt.Sprintf("set:%d:%s", si, ms.Name)) {
			continue
		}
		if !c.Case("total:" + ms.Name) {
			continue
		}
		c.Add("states", 1)
		vs, base, verdict, dump := checkTotal(ms)
		c.Outcome("total:" + verdict)
		for _, v := range vs {
			c.Report(v)
		}
		if verdict == "panic" || verdict == "nonterminating" {
			continue
		}
		b := bound
		if !c.Quick() && len(base.Choices) <= 60 {
			b = 2
		}
		points := len(base.Choices)
		multi := 0
		for _, n := range base.Choices {
			if n > 1 {
				multi++
			}
		}
		st := engine.ExploreDeviations(b, 200000, func(ch []int) []int {
			r := gen.Compile(ms.Mods, gen.Options{MapOrder: ch, Features: setFeatures[ms.Name], SkipUnknown: strings.HasPrefix(ms.Name, "skip-unknown:")})
			return r.Choices
		}, func(ch []int) {
			if len(ch) == 0 {
				return
			}
			if !c.Case(fmt.Sprintf("order:%s:%v", ms.Name, ch)) {
				return
			}
			c.Add("transitions", 1)
			c.Nontrivial()
			ovs := checkOrder(ms, ch, verdict, dump)
			c.Outcome(fmt.Sprintf("order:%s:viol=%v", verdict, len(ovs) > 0))
			for _, v := range ovs {
				c.Report(v)
			}
		})
		c.Add("map_order_runs", st.Executions)
		c.Add("choice_points", int64(points))
		c.Add("choice_points_with_alternatives", int64(multi))
		if st.Truncated {
			c.Note("execution cap hit for " + ms.Name)
		}
		if si < 3 {
			c.Sample(map[string]any{"set": ms.Name, "verdict": verdict, "choice_points": points, "with_alternatives": multi, "orders_run": st.Executions})
		}
	}
}

func replay(c *engine.Ctx, sub string, raw json.RawMessage) []engine.Violation {
	var r rec
	if json.Unmarshal(raw, &r) != nil {
		return []engine.Violation{{Key: "harness-bad-replay-file"}}
	}
	vs, _, verdict, dump := checkTotal(r.Set)
	if r.Choices != nil && len(vs) == 0 {
		vs = append(vs, checkOrder(r.Set, r.Choices, verdict, dump)...)
	}
	return vs
}
