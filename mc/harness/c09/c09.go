// Package c09: statement grammar - cardinality, ordering and argument syntax are enforced.
package c09

import (
	"encoding/json"
	"fmt"
	"regexp"
	"strconv"
	"strings"

	"verif/engine"
	"verif/ref/rfc6020"

	"github.com/sdcio/yang-parser/parse"
)

func init() {
	engine.Register(&engine.Harness{
		Prop:   "C09",
		Run:    run,
		Replay: replay,
		Rule: "E1: (a) every (parent keyword, child keyword, count 0/1/2) triple over all RFC 6020 keywords plus a prefixed extension and an unprefixed unknown word: a minimal otherwise valid instance of the parent (required children generated from the reference table) with that many copies of the child, placed in a valid module; verdict must equal the RFC 6020 section 7 substatement tables transcribed in ref/rfc6020; " +
			"(b) every permutation of one representative per module section (header, linkage, meta, revision, body) for module and submodule and every pair of revision dates; (c) per argument kind every string of an alphabet of valid forms, boundary forms and near misses against recognisers written from the RFC 6020 section 12 ABNF. A rejection must carry name:line:col and mention the offending statement. Non-trivial = the reference verdict is 'reject', or the child is present.",
		Bound: map[string]string{
			"quick":    "all triples; child at last position; all section permutations; all argument alphabets",
			"thorough": "additionally all pairs of children and the child at first/middle/last position",
		},
		Assumptions: []string{
			"parents refine and deviate are UNSPECIFIED at parse level (the parser defers their substatements to the compiler on purpose; they are checked by C12/C14)",
			"uses->refine/augment with count 2 is UNSPECIFIED (RFC erratum)",
			"semantic argument validity (month/day ranges, range ordering, duplicate keys) is UNSPECIFIED here",
		},
	})
}

type rec struct {
	Text   string `json:"text"`
	Expect string `json:"expect"` // accept | reject
	Needle string `json:"needle"`
	Class  string `json:"class"`
}

var posRe = regexp.MustCompile(`in\.yang:(\d+):(\d+)`)

func check(r rec) []engine.Violation {
	mk := func(key, detail string) []engine.Violation {
		return []engine.Violation{{Key: key, Witness: r.Text, Detail: detail, Harness: "stmt", Replay: engine.JSON(r)}}
	}
	var err error
	var p any
	func() {
		defer func() { p = recover() }()
		_, err = parse.Parse("in.yang", r.Text, nil)
	}()
	// the other ways into the parser give the same verdict and the same error text (statement and
	// location included): a tree allocated first and parsed later (after an earlier parse of another
	// text on the same tree), and the parse with an extension cardinality function
	if p == nil {
		for vi, via := range []func() error{
			func() error {
				t := parse.New("in.yang", nil)
				t.Parse("module first { namespace u; prefix p;\n\n leaf a { type string; } }\n")
				_, e := t.Parse(r.Text)
				return e
			},
			func() error {
				_, e := parse.Parse("in.yang", r.Text, func(parse.NodeType) map[parse.NodeType]parse.Cardinality {
					return map[parse.NodeType]parse.Cardinality{parse.NodeConfigdHelp: {'0', 'n'}}
				})
				return e
			},
		} {
			var e2 error
			var p2 any
			func() {
				defer func() { p2 = recover() }()
				e2 = via()
			}()
			if p2 != nil || fmt.Sprint(e2) != fmt.Sprint(err) {
				return mk(fmt.Sprintf("entry-points-disagree:%d:%s", vi, strings.SplitN(r.Class, ":", 2)[0]), fmt.Sprintf("parse.Parse: %v ; entry point %d (0 = New + Parse after an earlier Parse, 1 = Parse with extension cardinalities): error %v panic %v", err, vi, e2, p2))
			}
		}
	}
	switch {
	case p != nil:
		return mk("panic:"+r.Class, fmt.Sprint(p))
	case r.Expect == "accept" && err != nil:
		return mk("rejects:"+r.Class, "RFC 6020 allows it; parser says: "+err.Error())
	case r.Expect == "reject" && err == nil:
		return mk("accepts:"+r.Class, "RFC 6020 forbids it; parser accepts")
	case r.Expect == "reject":
		msg := err.Error()
		if !posRe.MatchString(msg) {
			return mk("error-without-location:"+r.Class, msg)
		}
		if r.Needle != "" {
			found := false
			for _, n := range strings.Split(r.Needle, "|") {
				if n != "" && strings.Contains(msg, n) {
					found = true
				}
			}
			if !found {
				return mk("error-does-not-name-statement:"+r.Class, fmt.Sprintf("none of %q in: %s", r.Needle, msg))
			}
		}
	}
	return nil
}

type runner struct{ c *engine.Ctx }

func (r *runner) do(id string, rc rec, nontrivial bool) {
	if !r.c.Owns(id) || !r.c.Case(id) {
		return
	}
	r.c.Add("states", 1)
	r.c.Add("transitions", 1)
	if nontrivial {
		r.c.Nontrivial()
	}
	vs := check(rc)
	r.c.Outcome(fmt.Sprintf("%s:%s:viol=%v", strings.SplitN(id, ":", 2)[0], rc.Expect, len(vs) > 0))
	for _, v := range vs {
		r.c.Report(v)
	}
}

func run(c *engine.Ctx) {
	r := &runner{c: c}
	r.cardinality()
	r.order()
	r.arguments()
}

func (r *runner) cardinality() {
	kws := rfc6020.Keywords()
	children := append(append([]string{}, kws...), "m:ext", "foo", "foo-colon-arg", "foo-prefixed-arg")
	for _, parent := range kws {
		if parent == "refine" || parent == "deviate" {
			r.c.Add("unspecified_skipped", int64(3*len(children)))
			continue
		}
		table := rfc6020.Sub[parent]
		for _, child := range children {
			for n := 0; n <= 2; n++ {
				if r.c.Expired() {
					return
				}
				if rfc6020.Unsettled(parent, child, n) {
					r.c.Add("unspecified_skipped", 1)
					continue
				}
				positions := []string{"last"}
				if !r.c.Quick() && n > 0 {
					positions = []string{"last", "first"}
				}
				if n > 0 && child != "m:ext" {
					// the same body with an extension statement in front of everything / at its end:
					// extension statements are allowed anywhere and exempt nothing else
					positions = append(positions, "ext-first", "ext-last")
				}
				for _, where := range positions {
					g := &gen{}
					var extra []string
					for i := 0; i < n; i++ {
						switch child {
						case "m:ext":
							extra = append(extra, "m:ext arg;")
						case "foo":
							extra = append(extra, "foo arg;")
						case "foo-colon-arg": // an unknown unprefixed keyword stays unknown whatever its argument is
							extra = append(extra, "foo \"RFC 6020: YANG\";")
						case "foo-prefixed-arg":
							extra = append(extra, "foo m:x { m:ext arg; }")
						default:
							extra = append(extra, g.stmt(child, "", nil))
						}
					}
					var ps string
					if where == "first" || where == "ext-first" || where == "ext-last" {
						// extra children before the required ones
						body := append([]string{}, extra...)
						if where == "ext-first" {
							body = append([]string{"m:ext arg;"}, body...)
						}
						for _, rq := range required(parent) {
							if rq != child {
								body = append(body, g.stmt(rq, "", nil))
							}
						}
						if parent == "module" || parent == "submodule" {
							continue
						}
						if parent == "list" {
							// RFC 6020 ABNF: a list has a key (configuration) and at least one data definition
							if child != "key" {
								body = append(body, "key k;")
							}
							body = append(body, "leaf k { type string; }")
						}
						if where == "ext-last" {
							body = append(body, "m:ext arg;")
						}
						arg := g.argument(parent)
						ps = parent
						if arg != "" {
							ps += " " + arg
						}
						ps += " { " + strings.Join(body, " ") + " }"
						if len(body) == 0 {
							ps = strings.TrimSuffix(ps, " {  }") + ";"
						}
					} else {
						ps = g.stmt(parent, child, extra)
					}
					text := g.place(parent, ps)
					expect := "accept"
					card, known := table[child]
					switch {
					case child == "m:ext":
					case strings.HasPrefix(child, "foo"):
						if n > 0 {
							expect = "reject"
						}
					case !known:
						if n > 0 {
							expect = "reject"
						}
					default:
						if n < card.Min || (card.Max >= 0 && n > card.Max) {
							expect = "reject"
						}
					}
					needle := child + "|" + parent
					if strings.HasPrefix(child, "foo") {
						needle = "foo|" + parent
					}
					id := fmt.Sprintf("card:%s:%s:%d:%s", parent, child, n, where)
					r.do(id, rec{text, expect, needle, fmt.Sprintf("%s>%s x%d", parent, child, n)}, n > 0 || expect == "reject")
				}
			}
		}
	}
	r.c.Sample(map[string]any{"triple": "leaf > units x2", "expect": "reject"})
	if r.c.Quick() {
		return
	}
	// pairs of children (both present once) under every parent
	for _, parent := range kws {
		if parent == "refine" || parent == "deviate" || parent == "module" || parent == "submodule" {
			continue
		}
		table := rfc6020.Sub[parent]
		for i, c1 := range kws {
			for _, c2 := range kws[i+1:] {
				if r.c.Expired() {
					return
				}
				_, k1 := table[c1]
				_, k2 := table[c2]
				if !k1 && !k2 {
					continue // already covered by the single-child cells
				}
				g := &gen{}
				body := []string{g.stmt(c1, "", nil), g.stmt(c2, "", nil)}
				for _, rq := range required(parent) {
					if rq != c1 && rq != c2 {
						body = append(body, g.stmt(rq, "", nil))
					}
				}
				if parent == "list" {
					if c1 != "key" && c2 != "key" {
						body = append(body, "key k;")
					}
					body = append(body, "leaf k { type string; }")
				}
				arg := g.argument(parent)
				ps := parent
				if arg != "" {
					ps += " " + arg
				}
				ps += " { " + strings.Join(body, " ") + " }"
				expect := "accept"
				if !k1 || !k2 {
					expect = "reject"
				}
				r.do(fmt.Sprintf("pair:%s:%s:%s", parent, c1, c2), rec{g.place(parent, ps), expect, c1 + "|" + c2 + "|" + parent, fmt.Sprintf("%s>%s+%s", parent, c1, c2)}, true)
			}
		}
	}
}

func replay(c *engine.Ctx, sub string, raw json.RawMessage) []engine.Violation {
	var r rec
	if json.Unmarshal(raw, &r) != nil {
		return []engine.Violation{{Key: "harness-bad-replay-file"}}
	}
	return check(r)
}

var _ = strconv.Itoa
