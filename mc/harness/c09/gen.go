package c09

import (
	"fmt"
	"sort"
	"strings"

	"verif/ref/rfc6020"
)

// gen builds minimal, otherwise valid YANG statements.
type gen struct{ n int }

func (g *gen) id(p string) string { g.n++; return fmt.Sprintf("%s%d", p, g.n) }

// argument returns a valid sample argument for keyword k.
func (g *gen) argument(k string) string {
	switch k {
	case "module", "submodule":
		return "m"
	case "import", "include", "belongs-to":
		return g.id("x")
	case "revision", "revision-date":
		g.n++
		return fmt.Sprintf("20%02d-01-01", 99-g.n%90)
	case "typedef", "container", "leaf", "leaf-list", "list", "choice", "case", "anyxml", "grouping", "rpc", "notification", "identity",
		"extension", "argument", "feature", "enum", "bit":
		return g.id("n")
	case "type":
		return "string"
	case "must", "when":
		return "\"a = 1\""
	case "uses", "base", "if-feature":
		return g.id("r")
	case "refine":
		return g.id("c")
	case "input", "output":
		return ""
	case "augment", "deviation":
		return "\"/m:" + g.id("c") + "\""
	case "deviate":
		return "not-supported"
	case "range", "length":
		return "\"1..2\""
	case "pattern":
		return "\"a\""
	case "yang-version":
		return "1"
	case "namespace":
		return "\"urn:" + g.id("u") + "\""
	case "prefix":
		return g.id("p")
	case "organization", "contact", "description", "reference", "units", "presence", "error-message", "error-app-tag":
		return "\"text\""
	case "default":
		return "d"
	case "status":
		return "current"
	case "config", "mandatory", "require-instance", "yin-element":
		return "true"
	case "ordered-by":
		return "user"
	case "key":
		return "k"
	case "unique":
		return "\"u1 u2\""
	case "min-elements", "value", "position":
		return "1"
	case "max-elements":
		return "2"
	case "path":
		return "\"/m:a\""
	case "fraction-digits":
		return "2"
	}
	return g.id("z")
}

var sectionRank = map[string]int{"yang-version": 0, "namespace": 0, "prefix": 0, "belongs-to": 0, "import": 1, "include": 1,
	"organization": 2, "contact": 2, "description": 2, "reference": 2, "revision": 3}

func rank(stmt string) int {
	kw := strings.Fields(stmt)[0]
	if r, ok := sectionRank[kw]; ok {
		return r
	}
	return 4
}

// required children of k per RFC 6020, in a fixed order.
func required(k string) []string {
	var out []string
	for c, card := range rfc6020.Sub[k] {
		if card.Min > 0 {
			out = append(out, c)
		}
	}
	sort.Strings(out)
	return out
}

// stmt renders keyword k with its required children (except those in omit)
// plus the extra child statements.
func (g *gen) stmt(k string, omit string, extra []string) string {
	var body []string
	for _, r := range required(k) {
		if r != omit {
			body = append(body, g.stmt(r, "", nil))
		}
	}
	if k == "list" {
		// RFC 6020 ABNF: a list has at least one data definition; a key is
		// required for configuration lists
		if omit != "key" {
			body = append(body, "key k;")
		}
		body = append(body, "leaf k { type string; }")
	}
	body = append(body, extra...)
	if k == "module" || k == "submodule" {
		sort.SliceStable(body, func(i, j int) bool { return rank(body[i]) < rank(body[j]) })
	}
	arg := g.argument(k)
	head := k
	if arg != "" {
		head += " " + arg
	}
	if len(body) == 0 {
		return head + ";"
	}
	return head + " { " + strings.Join(body, " ") + " }"
}

// context gives the chain of ancestors (outermost first) inside which k is placed.
var context = map[string][]string{
	"module": nil, "submodule": nil,
	"import": {"module"}, "include": {"module"}, "revision": {"module"}, "belongs-to": {"submodule"},
	"typedef": {"module"}, "type": {"module", "leaf"}, "container": {"module"}, "must": {"module", "container"},
	"leaf": {"module"}, "leaf-list": {"module"}, "list": {"module"}, "choice": {"module"}, "case": {"module", "choice"},
	"anyxml": {"module"}, "grouping": {"module"}, "uses": {"module"}, "refine": {"module", "uses"}, "rpc": {"module"},
	"input": {"module", "rpc"}, "output": {"module", "rpc"}, "notification": {"module"}, "augment": {"module"},
	"identity": {"module"}, "extension": {"module"}, "argument": {"module", "extension"}, "feature": {"module"},
	"deviation": {"module"}, "deviate": {"module", "deviation"}, "range": {"module", "leaf", "type"}, "length": {"module", "leaf", "type"},
	"pattern": {"module", "leaf", "type"}, "enum": {"module", "leaf", "type"}, "bit": {"module", "leaf", "type"}, "when": {"module", "container"},
	// leaves
	"yang-version": {"module"}, "namespace": {"module"}, "prefix": {"module"}, "organization": {"module"}, "contact": {"module"},
	"description": {"module"}, "reference": {"module"}, "units": {"module", "leaf"}, "revision-date": {"module", "import"},
	"default": {"module", "leaf"}, "status": {"module", "leaf"}, "config": {"module", "leaf"}, "mandatory": {"module", "leaf"},
	"presence": {"module", "container"}, "ordered-by": {"module", "list"}, "key": {"module", "list"}, "unique": {"module", "list"},
	"min-elements": {"module", "list"}, "max-elements": {"module", "list"}, "error-message": {"module", "container", "must"},
	"error-app-tag": {"module", "container", "must"}, "value": {"module", "leaf", "type", "enum"}, "position": {"module", "leaf", "type", "bit"},
	"path": {"module", "leaf", "type"}, "require-instance": {"module", "leaf", "type"}, "base": {"module", "identity"},
	"fraction-digits": {"module", "leaf", "type"}, "if-feature": {"module", "leaf"}, "yin-element": {"module", "extension", "argument"},
}

// place wraps statement s (of keyword k) into its context and returns a module text.
func (g *gen) place(k, s string) string {
	chain := context[k]
	for i := len(chain) - 1; i >= 0; i-- {
		anc := chain[i]
		omit := ""
		if i == len(chain)-1 {
			omit = k // the statement itself replaces the ancestor's required instance of it
		} else {
			omit = chain[i+1]
		}
		s = g.stmt(anc, omit, []string{s})
	}
	return s
}
