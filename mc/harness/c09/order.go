package c09

import (
	"fmt"
	"strings"

	"verif/ref/rfc6020"
)

func permutations(n int) [][]int {
	if n == 0 {
		return [][]int{{}}
	}
	var out [][]int
	for _, p := range permutations(n - 1) {
		for i := 0; i <= len(p); i++ {
			q := append(append(append([]int{}, p[:i]...), n-1), p[i:]...)
			out = append(out, q)
		}
	}
	return out
}

func (r *runner) order() {
	type sec struct{ rank int; text string }
	for _, kind := range []string{"module", "submodule"} {
		header := "namespace \"urn:m\"; prefix m;"
		if kind == "submodule" {
			header = "belongs-to m { prefix m; }"
		}
		all := []sec{{0, header}, {1, "import x { prefix x; }"}, {2, "organization \"o\";"}, {3, "revision 2001-01-01;"}, {4, "leaf a { type string; }"}}
		// every subset of the optional sections (header always present) in every order
		for mask := 0; mask < 16; mask++ {
			secs := []sec{all[0]}
			for b := 0; b < 4; b++ {
				if mask&(1<<b) != 0 {
					secs = append(secs, all[b+1])
				}
			}
			for _, perm := range permutations(len(secs)) {
				var parts []string
				sorted := true
				for i, pi := range perm {
					parts = append(parts, secs[pi].text)
					if i > 0 && secs[perm[i-1]].rank > secs[pi].rank {
						sorted = false
					}
				}
				expect := "reject"
				if sorted {
					expect = "accept"
				}
				text := kind + " m { " + strings.Join(parts, " ") + " }"
				r.do(fmt.Sprintf("order:%s:%d:%v", kind, mask, perm), rec{text, expect, "", "section-order:" + kind}, true)
			}
		}
		// order inside a section is free
		for _, perm := range permutations(3) {
			h := []string{"yang-version 1;", "namespace \"urn:m\";", "prefix m;"}
			if kind == "submodule" {
				h = []string{"yang-version 1;", "belongs-to m { prefix m; }", "description \"d\";"}
			}
			var parts []string
			for _, pi := range perm {
				parts = append(parts, h[pi])
			}
			text := kind + " m { " + strings.Join(parts, " ") + " leaf a { type string; } }"
			expect := "accept"
			if kind == "submodule" {
				// description (meta) must follow the header
				if perm[2] != 2 {
					expect = "reject"
				}
			}
			r.do(fmt.Sprintf("order:header:%s:%v", kind, perm), rec{text, expect, "", "header-order:" + kind}, true)
		}
		for _, perm := range permutations(4) {
			m := []string{"organization \"o\";", "contact \"c\";", "description \"d\";", "reference \"r\";"}
			var parts []string
			for _, pi := range perm {
				parts = append(parts, m[pi])
			}
			text := kind + " m { " + header + " import x { prefix x; } include s; " + strings.Join(parts, " ") + " revision 2001-01-01; }"
			r.do(fmt.Sprintf("order:meta:%s:%v", kind, perm), rec{text, "accept", "", "meta-order:" + kind}, true)
		}
	}
	// revision dates: strictly descending
	dates := []string{"2001-01-01", "2001-01-02", "2001-02-01", "2002-01-01", "1999-12-31"}
	for _, d1 := range dates {
		for _, d2 := range dates {
			expect := "reject"
			if d1 > d2 {
				expect = "accept"
			}
			text := "module m { namespace \"urn:m\"; prefix m; revision " + d1 + "; revision " + d2 + "; }"
			r.do("order:rev:"+d1+":"+d2, rec{text, expect, "revision", "revision-order"}, true)
			// extension statements are allowed anywhere, also between two revisions: the order rule
			// still applies across them (module and submodule)
			for ki, head := range []string{"module m { namespace \"urn:m\"; prefix m; ", "submodule m { belongs-to x { prefix m; } "} {
				for ei, layout := range []string{"revision %s; m:ext a; revision %s;", "m:ext a; revision %s { m:ext b; } m:ext c { m:ext d; } revision %s; m:ext e;"} {
					r.do(fmt.Sprintf("order:rev-ext:%d:%d:%s:%s", ki, ei, d1, d2), rec{head + fmt.Sprintf(layout, d1, d2) + " }", expect, "revision", "revision-order"}, true)
				}
			}
			for _, d3 := range dates {
				expect := "reject"
				if d1 > d2 && d2 > d3 {
					expect = "accept"
				}
				text := "module m { namespace \"urn:m\"; prefix m; revision " + d1 + " { description \"x\"; } revision " + d2 + "; revision " + d3 + "; }"
				r.do("order:rev3:"+d1+":"+d2+":"+d3, rec{text, expect, "revision", "revision-order"}, true)
				text = "module m { namespace \"urn:m\"; prefix m; revision " + d1 + "; revision " + d2 + "; m:ext a; revision " + d3 + "; }"
				r.do("order:rev3-ext:"+d1+":"+d2+":"+d3, rec{text, expect, "revision", "revision-order"}, true)
			}
		}
	}
	r.c.Sample(map[string]any{"order": "module m { import x { prefix x; } namespace \"urn:m\"; prefix m; }", "expect": "reject"})
}

type argKind struct {
	name      string
	templates []string // %s = quoted argument
	valid     func(string) (bool, bool)
	strings   []string
}

func b2(f func(string) bool) func(string) (bool, bool) {
	return func(s string) (bool, bool) { return f(s), true }
}

func quote(s string) string {
	return "\"" + strings.NewReplacer("\\", "\\\\", "\"", "\\\"").Replace(s) + "\""
}

const mhead = "module m { namespace \"urn:m\"; prefix m; "

func (r *runner) arguments() {
	idStrings := []string{"a", "_a", "a-b.c", "A9", "1a", "-a", ".a", "a b", "xmlfoo", "XmLa", "xm", "é", "", "a:b", "a/b", "a*", "a_", "a..b", "a\u00a0", "\fa", "a\u200b", "xml", "XML", "xMl", "Xml", "xm-l", "xmlx", "x", "_xml"}
	// every ASCII character (and one character of each longer encoding) behind, in front of and
	// inside an identifier
	for b := rune(1); b <= 0x7f; b++ {
		idStrings = append(idStrings, "a"+string(b)+"c", string(b)+"a", "a"+string(b))
	}
	for _, b := range []rune{0xe9, 0x0142, 0x20ac, 0x4e0a, 0x1f600, 0xff21} {
		idStrings = append(idStrings, "a"+string(b)+"c", string(b)+"a")
	}
	kinds := []argKind{
		{"identifier", []string{"leaf %s { type string; }", "container %s;", "grouping %s;", "feature %s;", "identity %s;", "extension %s;", "typedef %s { type string; }", "choice c { case %s; }", "rpc %s;"},
			b2(rfc6020.Identifier), idStrings},
		{"prefix", []string{"import x { prefix %s; }"}, b2(rfc6020.Identifier), idStrings},
		{"identifier-ref", []string{"leaf l { type %s; }", "uses %s;", "identity i { base %s; }", "leaf l { type string; if-feature %s; }"},
			b2(rfc6020.IdentifierRef), append(append([]string{}, idStrings...), "p:a", "p:1a", ":a", "a:", "p:q:r", "p: a", "p:xmla")},
		{"date", []string{"revision %s;", "import x { prefix x; revision-date %s; }"}, rfc6020.Date,
			[]string{"2001-02-03", "2001-2-03", "2001-13-40", "2001-+1-01", "01-02-2003", "2001-02-03 ", "20010203", "2001/02/03", "2001-02-30", "0000-00-00", "2001-02-3", "2001-02-031", "", "a"}},
		{"boolean", []string{"leaf l { type string; config %s; }", "leaf l { type string; mandatory %s; }", "extension e { argument a { yin-element %s; } }", "leaf l { type leafref { path \"../a\"; require-instance %s; } }"},
			b2(rfc6020.Boolean), []string{"true", "false", "True", "TRUE", "1", "0", "t", "T", "f", "yes", "", " true", "truee"}},
		{"non-negative-integer", []string{"leaf-list l { type string; min-elements %s; }", "leaf l { type bits { bit b { position %s; } } }"},
			b2(rfc6020.NonNegInt), []string{"0", "7", "10", "007", "+7", "-1", "-0", "0x10", "1_0", "1.0", "1e2", "", " 7", "unbounded", "010", "0b1"}},
		{"max-elements", []string{"leaf-list l { type string; max-elements %s; }"},
			b2(rfc6020.MaxValue), []string{"1", "7", "unbounded", "0", "007", "+7", "-1", "0x10", "1_0", "Unbounded", "", "1.0"}},
		{"integer", []string{"leaf l { type enumeration { enum e { value %s; } } }"},
			b2(rfc6020.Integer), []string{"0", "7", "-7", "-0", "007", "+7", "--1", "0x10", "1_0", "1.0", "", "2147483647", "-2147483648"}},
		{"status", []string{"leaf l { type string; status %s; }"}, b2(rfc6020.Status), []string{"current", "deprecated", "obsolete", "Current", "CURRENT", "obsoleted", "", "old"}},
		{"ordered-by", []string{"leaf-list l { type string; ordered-by %s; }"}, b2(rfc6020.OrderedBy), []string{"user", "system", "User", "SYSTEM", "", "any"}},
		{"deviate", []string{"deviation \"/m:a\" { deviate %s; }"}, b2(rfc6020.Deviate), []string{"add", "delete", "replace", "not-supported", "Add", "not_supported", "remove", ""}},
		{"range", []string{"leaf l { type int32 { range %s; } }"}, b2(rfc6020.Range),
			[]string{"1..2", "min..max", "1 | 3..4", "1|3..4", " 1..2", "1 .. 2", "-5..-1", "1.5..2.5", "1", "1..", "..1", "1...2", "a", "1..2 |", "|1", "1 2", "", "min", "max..min", "0x1..2", "+1..2", "1..2..3", "1\u00a0..\u00a02", "1\f|\f3", "1\u3000|\u30003"}},
		{"length", []string{"leaf l { type string { length %s; } }"}, b2(rfc6020.Length),
			[]string{"1..2", "min..max", "0 | 3..4", "1 .. 2", "-1..2", "1.5", "1", "1..", "..1", "a", "1 |", "", "max", "+1", "1 2", "010", "0x1", "1\u00a0..\u00a02", "0\f|\f3"}},
		{"key", []string{"list l { key %s; leaf a { type string; } leaf b { type string; } }"}, rfc6020.Key,
			[]string{"a", "a b", "a  b", "a\tb", "a\nb", " a", "a ", "a,b", "a/b", "/a", "1a", "", "a a", "m:a", "xmla",
				// separators that are white space for Unicode but not for RFC 6020 (sep = SP / HTAB / CRLF / LF)
				"a\fb", "a\vb", "a\u00a0b", "a\u0085b", "a\u2028b", "a\u3000b", "a\u00a0", "a\r\nb", "a\rb", "a^ b", "a b]", "a[1]", "a\\", "b`", "a@"}},
		{"unique", []string{"list l { key a; unique %s; leaf a { type string; } leaf b { type string; } container c { leaf d { type string; } } }"}, b2(rfc6020.Unique),
			[]string{"b", "b c/d", "c/d", "m:b", "c/m:d", "/b", "b/", "b//c", "b c/", "", " b", "1b", "b,c", "b\fc/d", "b\vc/d", "b\u00a0c/d", "b\u2028c/d", "b\u3000c/d", "b\tc/d", "b\nc/d"}},
		{"absolute-schema-nodeid", []string{"deviation %s { deviate not-supported; }", "augment %s { leaf z { type string; } }"}, b2(rfc6020.AbsoluteSchemaNodeid),
			[]string{"/m:a", "/m:a/m:b", "/a", "/a/b", "m:a", "a", "/", "/m:a/", "//a", "/m:1a", "/m:a b", "", "/m:a/..", "/m:a[k=1]", "/m:a^b", "/m:a/m:b]", "/m:a\\b", "/m:a`", "/m:a@b", "/m:a~", "/m^m:a", "/m:a/m:b[1]"}},
		{"descendant-schema-nodeid", []string{"uses g { refine %s { description \"d\"; } }"}, b2(rfc6020.DescendantSchemaNodeid),
			[]string{"a", "a/b", "m:a/m:b", "/a", "a/", "a//b", "", "1a", "a b", "../a", "a^b", "a/b]", "a[1]", "a\\b", "a`", "a@b"}},
		{"fraction-digits", []string{"leaf l { type decimal64 { fraction-digits %s; } }"}, b2(rfc6020.FractionDigits),
			[]string{"1", "2", "9", "10", "18", "19", "0", "01", "1.0", "-1", "", "+1", "100"}},
		{"yang-version", []string{"yang-version %s;"}, func(s string) (bool, bool) { return s == "1", s != "1.1" }, []string{"1", "2", "1.0", "1.1", "", "01", "one"}},
	}
	// range / length arguments generated from their grammar: every part "b" and "b..b" over a
	// boundary alphabet with valid and invalid members, alone and as the first or second of two parts
	partsOver := func(bounds []string) []string {
		var parts, out []string
		for _, a := range bounds {
			parts = append(parts, a)
			for _, b := range bounds {
				parts = append(parts, a+".."+b)
			}
		}
		for _, p := range parts {
			out = append(out, p, "1 | "+p, p+" | 7", "1..5|"+p, p+"|8..max")
		}
		return out
	}
	for i := range kinds {
		switch kinds[i].name {
		case "range":
			kinds[i].strings = append(kinds[i].strings, partsOver([]string{"1", "-5", "1.5", "min", "max", "abc", "0x10", "+5", "010", "2.", ""})...)
		case "length":
			kinds[i].strings = append(kinds[i].strings, partsOver([]string{"1", "0", "-5", "1.5", "min", "max", "abc", "0x10", "+5", "010", ""})...)
		}
	}
	for _, k := range kinds {
		for ti, tmpl := range k.templates {
			for _, s := range k.strings {
				valid, settled := k.valid(s)
				if (k.name == "range" || k.name == "length" || k.name == "unique") && rfc6020.EdgeSpace(s) {
					settled = false
				}
				if k.name == "absolute-schema-nodeid" && ti == 1 && !valid && rfc6020.DescendantSchemaNodeid(s) {
					// a descendant path on a top-level augment is left to the compiler
					// (pinned by the repository's TestAugmentRelativePathFails)
					settled = false
				}
				keySuffix := fmt.Sprintf("%q", s)
				if (k.name == "range" || k.name == "length") && valid {
					switch rfc6020.BoundaryOrder(s) {
					case "misordered":
						settled = false
					case "degenerate":
						keySuffix = "min..min-or-max..max" // one root cause, one key
					}
				}
				if !settled {
					r.c.Add("unspecified_skipped", 1)
					continue
				}
				stmt := strings.Replace(tmpl, "%s", quote(s), 1)
				text := mhead + stmt + " }"
				if strings.HasPrefix(tmpl, "yang-version") {
					text = "module m { " + stmt + " namespace \"urn:m\"; prefix m; }"
				}
				if strings.HasPrefix(tmpl, "revision ") || strings.HasPrefix(tmpl, "import") {
					text = mhead + stmt + " }"
				}
				expect := "reject"
				if valid {
					expect = "accept"
				}
				// the statement that carries the argument is the keyword right before %s
				pre := strings.Fields(tmpl[:strings.Index(tmpl, "%s")])
				needle := pre[len(pre)-1]
				r.do(fmt.Sprintf("arg:%s:%d:%q", k.name, ti, s), rec{text, expect, needle + "|" + s, "arg:" + k.name + ":" + keySuffix}, true)
			}
		}
	}
	// two statements with the same argument text but different argument syntaxes in one module:
	// the text is valid for the first kind and invalid for the second (or the other way round), so
	// the module must be rejected whatever came before (argument objects may be shared by text)
	for i, k1 := range kinds {
		for j, k2 := range kinds {
			if i == j || strings.HasPrefix(k1.templates[0], "yang-version") || strings.HasPrefix(k2.templates[0], "yang-version") {
				continue
			}
			for _, str := range k1.strings {
				v1, s1 := k1.valid(str)
				v2, s2 := k2.valid(str)
				if !s1 || !s2 || !v1 || v2 || rfc6020.EdgeSpace(str) {
					continue
				}
				st1 := strings.Replace(k1.templates[0], "%s", quote(str), 1)
				st2 := strings.Replace(k2.templates[0], "%s", quote(str), 1)
				for oi, body := range []string{st1 + " " + st2, st2 + " " + st1} {
					pre := strings.Fields(k2.templates[0][:strings.Index(k2.templates[0], "%s")])
					needle := pre[len(pre)-1]
					r.do(fmt.Sprintf("argpair:%s:%s:%d:%q", k1.name, k2.name, oi, str), rec{mhead + body + " }", "reject", needle + "|" + str, "arg:" + k2.name + ":" + fmt.Sprintf("%q", str) + ":next-to-valid-" + k1.name}, true)
				}
			}
		}
	}
	// patterns: clearly well-formed and clearly ill-formed regular expressions
	for _, p := range []struct {
		s  string
		ok bool
	}{{"a", true}, {"[a-z]+", true}, {"a|b", true}, {"(a)(b)?", true}, {"\\d{2}", true}, {"[a", false}, {"(a", false}, {"a)", false}, {"a{2", true}, {"*a", false}} {
		if p.s == "a{2" {
			continue
		}
		expect := "reject"
		if p.ok {
			expect = "accept"
		}
		r.do("arg:pattern:"+p.s, rec{mhead + "leaf l { type string { pattern " + quote(p.s) + "; } } }", expect, "pattern", "arg:pattern:" + p.s}, true)
	}
	r.c.Sample(map[string]any{"argument kind": "non-negative-integer", "statement": "min-elements \"007\";", "expect": "reject"})
}
