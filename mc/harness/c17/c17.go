// Package c17: schema path validation walks the tree exactly.
package c17

import (
	"github.com/danos/utils/pathutil"
	"os"

	"encoding/json"
	"fmt"
	"github.com/danos/mgmterror"
	"sort"
	"strings"

	"verif/engine"
	"verif/gen"
	"verif/harness/c18"

	"github.com/sdcio/yang-parser/schema"
)

func init() {
	engine.Register(&engine.Harness{
		Prop:   "C17",
		Run:    run,
		Replay: replay,
		Rule: "E1 over (schema x token path): (1) every schema forest of the C18 generator with <= 3 (thorough: <= 4) nodes, leaf types assigned in rotation (string, uint8, boolean, enumeration, empty), x every token path of <= 4 (5) tokens over the schema's names and 6 values, dead prefixes of >= 2 tokens pruned; (2) 8 hand-written deeper schemas built by the real compiler (presence and non-presence containers, list with typed key, leaves of several types, empty leaf, leaf-list, nested choice/case, leaves with defaults of their own and from a typedef, a mandatory leaf, two-key lists) x every token path up to the length bound over an alphabet of every node name of the schema, valid and invalid values per type, a foreign name and the empty string, x AllowIncompletePaths (every path is validated with incomplete paths allowed, then strictly, then allowed again, on the same compiled schema); ModelSet.Validate must accept iff a reference walker over the generator's own schema description accepts, and for a rejected path the error must mention the first offending element (or, for an incomplete path, the element it ends on). " +
			"Subtrees below a prefix both sides reject for its last token are not extended (the walk is left-to-right and prefix-determined; pruned subtrees are counted). Non-trivial = the path has >= 2 tokens.",
		Bound: map[string]string{
			"quick":    "paths of <= 5 tokens (no pruning below 4 tokens)",
			"thorough": "paths of <= 7 tokens (no pruning below 5 tokens)",
		},
		Assumptions: []string{"a list entry (list name + key value) is a complete path; ending on a presence container or an empty leaf is complete"},
	})
}

// the last rejected path's error, as it read when it was returned
type prevRec struct {
	err  error
	text string
	path []string
}

var (
	prevErrs [4]prevRec
	prevNext int
)

type sn struct {
	Kind     string `json:"kind"` // container list leaf leaf-list choice case
	Name     string `json:"name"`
	Presence bool   `json:"presence,omitempty"`
	Type     string `json:"type,omitempty"` // string uint8 boolean empty enum
	Key      string `json:"key,omitempty"`
	Kids     []*sn  `json:"kids,omitempty"`
	// statements that must not influence path validation
	Default   string `json:"default,omitempty"`
	Mandatory bool   `json:"mandatory,omitempty"`
	Typedef   bool   `json:"typedef,omitempty"` // the type (and default) come from a typedef
	State     bool   `json:"state,omitempty"`   // config false (the whole schema is compiled, state included)
}

func (n *sn) yang() string {
	var b strings.Builder
	switch n.Kind {
	case "leaf", "leaf-list":
		t := n.Type
		if t == "enum" {
			t = "enumeration { enum red; enum green { status obsolete; } }" // (an obsolete enum is still a value of the type)
		} else {
			t += ";"
		}
		extra := ""
		if n.Default != "" {
			extra += fmt.Sprintf(" default %q;", n.Default)
		}
		if n.Mandatory {
			extra += " mandatory true;"
		}
		if n.Typedef {
			fmt.Fprintf(&b, "typedef td-%s { type %s%s } %s %s { type td-%s; }", n.Name, t, extra, n.Kind, n.Name, n.Name)
		} else {
			fmt.Fprintf(&b, "%s %s { type %s%s }", n.Kind, n.Name, t, extra)
		}
		return b.String()
	}
	fmt.Fprintf(&b, "%s %s {", n.Kind, n.Name)
	if n.Presence {
		// (the argument of presence is a free text; the container named pc has an empty one)
		if n.Name == "pc" {
			b.WriteString(" presence \"\";")
		} else {
			b.WriteString(" presence \"p\";")
		}
	}
	if n.State {
		b.WriteString(" config false;")
	}
	if n.Key != "" {
		fmt.Fprintf(&b, " key %q;", n.Key)
	}
	for _, k := range n.Kids {
		b.WriteString(" " + k.yang())
	}
	b.WriteString(" }")
	return b.String()
}

func valid(typ, v string) bool {
	switch typ {
	case "string":
		return true
	case "uint8":
		if v == "" || len(v) > 3 {
			return false
		}
		n := 0
		for _, c := range v {
			if c < '0' || c > '9' {
				return false
			}
			n = n*10 + int(c-'0')
		}
		return n <= 255
	case "boolean":
		return v == "true" || v == "false"
	case "enum":
		return v == "red" || v == "green"
	case "empty":
		return v == ""
	}
	return false
}

// visible children: choices and cases are transparent
func visible(kids []*sn) map[string]*sn {
	out := map[string]*sn{}
	for _, k := range kids {
		if k.Kind == "choice" || k.Kind == "case" {
			for n, c := range visible(k.Kids) {
				out[n] = c
			}
		} else {
			out[k.Name] = k
		}
	}
	return out
}

// walkRef returns accept, and for a rejection the index of the offending token
// (len(p) when the path is incomplete).
func walkRef(kids []*sn, p []string, allowIncomplete bool) (ok bool, bad int) {
	cur := visible(kids)
	i := 0
	var node *sn // nil = root
	for {
		if i == len(p) {
			switch {
			case node == nil:
				return true, -1
			case node.Kind == "container" && (node.Presence || allowIncomplete):
				return true, -1
			case node.Kind == "list-entry":
				return true, -1
			case allowIncomplete:
				return true, -1
			}
			return false, len(p)
		}
		tok := p[i]
		switch {
		case node != nil && node.Kind == "list":
			key := visible(node.Kids)[strings.Fields(node.Key)[0]] // the entry token is validated as the first key
			if !valid(key.Type, tok) {
				return false, i
			}
			node = &sn{Kind: "list-entry", Kids: node.Kids}
			cur = visible(node.Kids)
			i++
			continue
		}
		c, found := cur[tok]
		if !found {
			return false, i
		}
		i++
		switch c.Kind {
		case "leaf", "leaf-list":
			if i == len(p) {
				if c.Type == "empty" && c.Kind == "leaf" || allowIncomplete {
					return true, -1
				}
				return false, len(p)
			}
			if i+1 < len(p) {
				return false, i + 1 // nothing may follow the value
			}
			if !valid(c.Type, p[i]) {
				return false, i
			}
			return true, -1
		default:
			node = c
			cur = visible(c.Kids)
		}
	}
}

type ctxT struct{ incomplete bool }

func (ctxT) ErrorHelpText() []string      { return nil }
func (c ctxT) AllowIncompletePaths() bool { return c.incomplete }

func schemas() [][]*sn {
	lf := func(n, t string) *sn { return &sn{Kind: "leaf", Name: n, Type: t} }
	return [][]*sn{
		{{Kind: "container", Name: "c", Kids: []*sn{lf("s", "string"), lf("n", "uint8"), lf("e", "empty")}}, {Kind: "container", Name: "p", Presence: true, Kids: []*sn{lf("b", "boolean")}}},
		{{Kind: "list", Name: "li", Key: "k", Kids: []*sn{lf("k", "uint8"), lf("v", "string"), {Kind: "container", Name: "in", Kids: []*sn{lf("x", "enum")}}}}},
		{{Kind: "container", Name: "c", Kids: []*sn{{Kind: "choice", Name: "ch", Kids: []*sn{{Kind: "case", Name: "a", Kids: []*sn{lf("a1", "string"), {Kind: "choice", Name: "inner", Kids: []*sn{{Kind: "case", Name: "i1", Kids: []*sn{lf("deep", "uint8")}}, lf("short", "boolean")}}}}, lf("b1", "enum")}}}}},
		{{Kind: "leaf-list", Name: "ll", Type: "uint8"}, {Kind: "leaf", Name: "top", Type: "enum"}, {Kind: "container", Name: "c", Kids: []*sn{{Kind: "leaf-list", Name: "names", Type: "string"}}}},
		{{Kind: "list", Name: "outer", Key: "name", Kids: []*sn{lf("name", "string"), {Kind: "list", Name: "inner", Key: "id", Kids: []*sn{lf("id", "enum"), lf("val", "uint8")}}, {Kind: "container", Name: "pc", Presence: true}}}},
		{{Kind: "container", Name: "a", Kids: []*sn{{Kind: "container", Name: "b", Kids: []*sn{{Kind: "container", Name: "c", Presence: true, State: true, Kids: []*sn{lf("e", "empty")}}, lf("red", "string")}}}}},
		// defaults (own and from a typedef) whose values are tokens of the alphabet, a mandatory leaf
		{{Kind: "container", Name: "dc", Kids: []*sn{{Kind: "leaf", Name: "d7", Type: "uint8", Default: "7"}, {Kind: "leaf", Name: "dg", Type: "enum", Default: "green"}, {Kind: "leaf", Name: "tdl", Type: "boolean", Default: "true", Typedef: true}, {Kind: "leaf", Name: "m", Type: "uint8", Mandatory: true}}},
			{Kind: "list", Name: "dl", Key: "k", Kids: []*sn{lf("k", "string"), {Kind: "leaf", Name: "dx", Type: "string", Default: "x"}}}},
		// lists with two keys of different types, in both orders
		{{Kind: "list", Name: "nf", Key: "id nm", Kids: []*sn{lf("id", "uint8"), lf("nm", "enum"), lf("v", "boolean")}},
			{Kind: "list", Name: "sf", Key: "nm id", Kids: []*sn{lf("id", "uint8"), lf("nm", "enum"), lf("v", "boolean")}}},
	}
}

func names(kids []*sn, out map[string]bool) {
	for _, k := range kids {
		if k.Kind != "choice" && k.Kind != "case" {
			out[k.Name] = true
		} else {
			out[k.Name] = true // choice/case names are tokens too (they must not be accepted)
		}
		names(k.Kids, out)
	}
}

type rec struct {
	Schema     int      `json:"schema"` // index into schemas(); -1: Gen holds a generated schema
	Gen        []*sn    `json:"gen,omitempty"`
	Path       []string `json:"path"`
	Incomplete bool     `json:"incomplete"`
	Prior      []bool   `json:"prior,omitempty"` // modes in which the same path was validated before on this schema
	// Earlier: a path that was rejected before this one (same schema, strict mode); its error is read
	// again after this path's validation
	Earlier []string `json:"earlier,omitempty"`
}

var compiled = map[int]schema.ModelSet{}

func (r rec) kids() []*sn {
	if r.Schema < 0 {
		return r.Gen
	}
	return schemas()[r.Schema]
}

var genCache struct {
	text string
	ms   schema.ModelSet
	msg  string
}

func modelOf(r rec) (schema.ModelSet, string) {
	if r.Schema >= 0 {
		return modelFor(r.Schema)
	}
	return compileKids(r.Gen)
}

func compileKids(kids []*sn) (schema.ModelSet, string) {
	var b strings.Builder
	b.WriteString("module a { namespace \"urn:a\"; prefix a;")
	for _, k := range kids {
		b.WriteString(" " + k.yang())
	}
	b.WriteString(" }")
	if genCache.text == b.String() {
		return genCache.ms, genCache.msg
	}
	r := gen.Compile(map[string]string{"a": b.String()}, gen.Options{})
	genCache.text, genCache.ms, genCache.msg = b.String(), nil, ""
	if !r.OK() {
		genCache.msg = fmt.Sprintf("%s: %v %v\n%s", r.Verdict(), r.Err, r.Panic, b.String())
		return nil, genCache.msg
	}
	genCache.ms = r.MS
	return r.MS, ""
}

func modelFor(si int) (schema.ModelSet, string) {
	if ms, ok := compiled[si]; ok {
		return ms, ""
	}
	var b strings.Builder
	b.WriteString("module a { namespace \"urn:a\"; prefix a;")
	for _, k := range schemas()[si] {
		b.WriteString(" " + k.yang())
	}
	b.WriteString(" }")
	r := gen.Compile(map[string]string{"a": b.String()}, gen.Options{})
	if !r.OK() {
		return nil, fmt.Sprintf("%s: %v %v\n%s", r.Verdict(), r.Err, r.Panic, b.String())
	}
	compiled[si] = r.MS
	return r.MS, ""
}

func check(r rec) (vs []engine.Violation, implOK, refOK bool) {
	ms, msg := modelOf(r)
	mk := func(key, detail string) {
		w := fmt.Sprintf("schema %d path %q incomplete=%v", r.Schema, r.Path, r.Incomplete)
		if r.Schema < 0 {
			var parts []string
			for _, k := range r.Gen {
				parts = append(parts, k.yang())
			}
			w = fmt.Sprintf("schema {%s} path %q incomplete=%v", strings.Join(parts, " "), r.Path, r.Incomplete)
		}
		vs = append(vs, engine.Violation{Key: key, Witness: w, Detail: detail, Harness: "path", Replay: engine.JSON(r)})
	}
	if ms == nil {
		mk("schema-does-not-compile", msg)
		return
	}
	refOK, bad := walkRef(r.kids(), r.Path, r.Incomplete)
	var err error
	var p any
	func() {
		defer func() { p = recover() }()
		err = ms.Validate(ctxT{r.Incomplete}, nil, append([]string{}, r.Path...))
	}()
	implOK = err == nil && p == nil
	shape := pathShape(r)
	// an error that was returned earlier keeps saying what it said: the errors of the last four rejected
	// paths are read again whenever a new rejection has been produced (errors are values of their own,
	// not views of shared state)
	if err != nil && p == nil {
		for k := range prevErrs {
			pe := &prevErrs[k]
			if pe.err == nil {
				continue
			}
			var now string
			func() {
				defer func() {
					if recover() != nil {
						now = "(panic while reading the error)"
					}
				}()
				now = pe.err.Error()
			}()
			if now != pe.text {
				r.Earlier = pe.path
				mk("earlier-error-changes-after-a-later-validation", fmt.Sprintf("the error of path %q said %q; after the rejection of this path it says %q", pe.path, pe.text, now))
				r.Earlier = nil
				pe.err = nil
			}
		}
		prevErrs[prevNext%len(prevErrs)] = prevRec{err, err.Error(), append([]string{}, r.Path...)}
		prevNext++
	}
	switch {
	case p != nil:
		mk("panic:"+shape, fmt.Sprint(p))
	case refOK && err != nil:
		mk("rejects-valid-path:"+shape, err.Error())
	case !refOK && err == nil:
		mk("accepts-invalid-path:"+shape, fmt.Sprintf("first offending element index %d", bad))
	case !refOK:
		// the error must identify the first offending element
		msg := err.Error()
		var el string
		if bad < len(r.Path) {
			el = r.Path[bad]
		} else if len(r.Path) > 0 {
			el = r.Path[len(r.Path)-1]
		}
		if el != "" && !strings.Contains(msg, el) && !strings.Contains(msg, strings.TrimPrefix(pathutil.Pathstr([]string{el}), "/")) { // (raw or as a rendered path element)
			mk("error-does-not-identify-element:"+shape, fmt.Sprintf("offending element %q (index %d) not in: %s", el, bad, msg))
		}
		// ... and must not point past it: the position the error names (its path, plus the
		// bad-element it reports, if any) has as many components as the walk had consumed when it
		// met the first offending element (a path that merely ends too early may be reported at
		// its last element or at the missing one)
		if pe, ok := err.(interface {
			GetPath() string
			GetInfo() mgmterror.MgmtErrorInfo
		}); ok && os.Getenv("VERIF_C17_NO_DEPTH") == "" {
			depth := 0
			if ep := pe.GetPath(); ep != "" && ep != "/" {
				depth = len(strings.Split(strings.TrimPrefix(ep, "/"), "/")) // (an empty token is a component too)
			}
			if hasTag(pe.GetInfo(), "bad-element") {
				depth++
			}
			// the error path is a rendered path: decoded again it is a prefix of the path that was given
			hasEmpty := false
			for _, tok := range r.Path {
				hasEmpty = hasEmpty || tok == "" // (an empty element cannot be told from none in a rendered path)
			}
			if ep := pe.GetPath(); ep != "" && !strings.Contains(ep, "<") && !hasEmpty {
				dec := pathutil.Makepath(ep)
				for i := range dec {
					if i >= len(r.Path) || dec[i] != r.Path[i] {
						mk("error-path-does-not-decode-to-the-given-path:"+shape, fmt.Sprintf("error path %q decodes to %q, the path given was %q", ep, dec, r.Path))
						break
					}
				}
			}
			okDepth := depth == bad+1
			if bad >= len(r.Path) {
				okDepth = depth == len(r.Path) || depth == len(r.Path)+1
			}
			if !okDepth {
				mk("error-points-at-another-element:"+shape, fmt.Sprintf("first offending element is index %d of %q, the error names a position of depth %d: path %q info %v: %s", bad, r.Path, depth, pe.GetPath(), pe.GetInfo(), msg))
			}
		}
	}
	return
}

// pathShape abstracts the path: kinds of the nodes walked.
func pathShape(r rec) string {
	var parts []string
	cur := visible(r.kids())
	var node *sn
	for _, tok := range r.Path {
		if node != nil && node.Kind == "list" {
			parts = append(parts, "keyvalue")
			node = &sn{Kind: "list-entry", Kids: node.Kids}
			cur = visible(node.Kids)
			continue
		}
		if node != nil && (node.Kind == "leaf" || node.Kind == "leaf-list") {
			parts = append(parts, "value")
			node = &sn{Kind: "after-value"}
			cur = nil
			continue
		}
		c, ok := cur[tok]
		if !ok {
			parts = append(parts, "unknown")
			break
		}
		k := c.Kind
		if c.Kind == "leaf" {
			k = "leaf(" + c.Type + ")"
		}
		if c.Kind == "container" && c.Presence {
			k = "presence-container"
		}
		parts = append(parts, k)
		node = c
		cur = visible(c.Kids)
	}
	return fmt.Sprintf("incomplete=%v:%s", r.Incomplete, strings.Join(parts, "/"))
}

// fromC18 converts a schema of the C18 generator; leaves get types in rotation (a leaf with a
// default stays a string: the generator's default value is a string).
func fromC18(kids []*c18.S, n *int) []*sn {
	types := []string{"string", "uint8", "boolean", "enum", "empty"}
	var out []*sn
	for _, k := range kids {
		x := &sn{Kind: k.Kind, Name: k.Name, Presence: k.Presence, Key: k.Key, Default: k.Default, Mandatory: k.Mandatory}
		if k.Kind == "leaf" || k.Kind == "leaf-list" {
			x.Type = "string"
			if k.Default == "" && !(k.Kind == "leaf-list") {
				x.Type = types[*n%len(types)]
				*n++
			}
			if k.Kind == "leaf-list" {
				x.Type = []string{"string", "uint8", "enum"}[*n%3]
				*n++
			}
			if k.Kind == "leaf" && k.Mandatory && x.Type == "empty" {
				x.Type = "uint8"
			}
		}
		if k.Kind == "choice" {
			x.Default = "" // (choice defaults do not matter for path validation and need case names)
		}
		x.Kids = fromC18(k.Kids, n)
		out = append(out, x)
	}
	return out
}

func runGenerated(c *engine.Ctx) {
	sb, maxLen := 3, 4
	if !c.Quick() {
		sb, maxLen = 4, 5
	}
	all := c18.GenSchemas(sb)
	// every schema a second time with names that are unique among siblings only
	for _, kids := range all[:len(all):len(all)] {
		all = append(all, c18.RenameShared(kids))
	}
	c.Note(fmt.Sprintf("%d generated schemas (globally unique names, and names shared between levels) of <= %d nodes x all token paths of <= %d tokens x 3 validations", len(all), sb, maxLen))
	for gi, g := range all {
		if c.Expired() {
			return
		}
		if !c.Owns(fmt.Sprintf("gen:%d", gi)) {
			continue
		}
		n := gi
		kids := fromC18(g, &n)
		if ms, msg := compileKids(kids); ms == nil {
			// (never happens on the current tree; not to be skipped silently)
			c.Add("generated_schemas_rejected_by_the_compiler", 1)
			c.Report(engine.Violation{Key: "generated-schema-does-not-compile", Witness: fmt.Sprint(gi), Detail: fmt.Sprint(msg), Harness: "generated-schema"})
			continue
		}
		nm := map[string]bool{}
		names(kids, nm)
		var toks []string
		for t := range nm {
			toks = append(toks, t)
		}
		sort.Strings(toks)
		toks = append(toks, "x", "7", "256", "true", "green", "", "True") // ("True": a lexical near miss of a value)
		var walk func(p []string)
		walk = func(p []string) {
			dead := false
			if len(p) > 0 {
				for round, inc := range []bool{true, false, true} {
					r := rec{Schema: -1, Gen: kids, Path: append([]string{}, p...), Incomplete: inc, Prior: []bool{true, false, true}[:round]}
					if !c.Case(fmt.Sprintf("g%d:%v:%d:%q", gi, inc, round, p)) {
						continue
					}
					c.Add("states", 1)
					c.Nontrivial()
					vs, implOK, refOK := check(r)
					c.Outcome(fmt.Sprintf("ref=%v:impl=%v", refOK, implOK))
					for _, v := range vs {
						c.Report(v)
					}
					// a prefix of >= 2 tokens that both reject even as an incomplete path is dead:
					// its extensions are not enumerated (extensions of 1-token dead prefixes are)
					if round == 0 && !implOK && !refOK && len(p) >= 2 {
						dead = true
					}
				}
			}
			if len(p) == maxLen || dead {
				if dead {
					c.Add("pruned_subtrees", 1)
					// one more token behind a dead prefix all the same (not recursively): a second
					// offending element must not change which element the error names
					if len(p) == 2 && !c.Quick() && len(c18.Nodes(g)) <= 3 { // (for the 4-node schemas this does not fit the budget)
						for _, t := range toks {
							q := append(append([]string{}, p...), t)
							for _, inc := range []bool{true, false} {
								r := rec{Schema: -1, Gen: kids, Path: q, Incomplete: inc}
								if !c.Case(fmt.Sprintf("g%d:%v:dead:%q", gi, inc, q)) {
									continue
								}
								c.Add("states", 1)
								vs, implOK, refOK := check(r)
								c.Outcome(fmt.Sprintf("ref=%v:impl=%v", refOK, implOK))
								for _, v := range vs {
									c.Report(v)
								}
							}
						}
					}
				}
				return
			}
			for _, t := range toks {
				c.Add("transitions", 1)
				walk(append(append([]string{}, p...), t))
			}
		}
		walk(nil)
	}
}

func run(c *engine.Ctx) {
	runGenerated(c)
	maxLen, noPrune := 5, 4
	if !c.Quick() {
		maxLen, noPrune = 7, 5
	}
	for si := range schemas() {
		nm := map[string]bool{}
		names(schemas()[si], nm)
		var toks []string
		for n := range nm {
			toks = append(toks, n)
		}
		sort.Strings(toks)
		toks = append(toks, "x", "7", "256", "true", "green", "", "nosuch", "True", "1", "a+b:c d") // (near misses of boolean values; the last one: characters a rendered path escapes)
		// every path is validated three times on the same compiled schema: incomplete paths
		// allowed, strict, allowed again (a verdict must not depend on earlier validations)
		{
			var rec func(p []string)
			recf := func(p []string) {}
			_ = recf
			rec = func(p []string) {
				if c.Expired() {
					return
				}
				owned := len(p) < 2 || c.Owns(fmt.Sprintf("%d:%q", si, p[:2]))
				if !owned {
					return
				}
				prune := false
				for round, inc := range []bool{true, false, true} {
					if len(p) >= 2 || c.Shard == 0 {
						r := recOf(si, p, inc)
						r.Prior = []bool{true, false, true}[:round]
						if c.Case(fmt.Sprintf("%d:%v:%d:%q", si, inc, round, p)) {
							c.Add("states", 1)
							if len(p) >= 2 {
								c.Nontrivial()
							}
							vs, implOK, refOK := check(r)
							c.Outcome(fmt.Sprintf("ref=%v:impl=%v", refOK, implOK))
							for _, v := range vs {
								c.Report(v)
							}
							// dead prefix: both reject p and also reject it when incomplete paths are allowed
							if !inc && !implOK && !refOK && len(p) >= noPrune {
								r2 := r
								r2.Incomplete = true
								refOK2, _ := walkRef(schemas()[si], p, true)
								ms, _ := modelFor(si)
								if ms != nil && !refOK2 && ms.Validate(ctxT{true}, nil, append([]string{}, p...)) != nil {
									prune = true
								}
							}
						}
					}
				}
				if prune {
					c.Add("pruned_subtrees", 1)
					return
				}
				if len(p) == maxLen {
					return
				}
				for _, t := range toks {
					c.Add("transitions", 1)
					rec(append(append([]string{}, p...), t))
				}
			}
			rec(nil)
		}
	}
	c.Sample(map[string]any{"schema": 1, "path": []string{"li", "7", "in", "x", "red"}, "expect": "accept"})
	c.Sample(map[string]any{"schema": 1, "path": []string{"li", "256"}, "expect": "reject at element 1 (key value outside uint8)"})
}

func recOf(si int, p []string, inc bool) rec {
	return rec{Schema: si, Path: append([]string{}, p...), Incomplete: inc}
}

func replay(c *engine.Ctx, sub string, raw json.RawMessage) []engine.Violation {
	var r rec
	if json.Unmarshal(raw, &r) != nil || r.Schema >= len(schemas()) || (r.Schema < 0 && len(r.Gen) == 0) {
		return []engine.Violation{{Key: "harness-bad-replay-file"}}
	}
	if ms, _ := modelOf(r); ms != nil {
		for _, inc := range r.Prior { // the validations of this path that came before on the same schema
			func() {
				defer func() { recover() }()
				ms.Validate(ctxT{inc}, nil, append([]string{}, r.Path...))
			}()
		}
	}
	if len(r.Earlier) > 0 {
		// the earlier rejection first, in both modes (its error goes into the ring check() reads again)
		for _, inc := range []bool{false, true} {
			e := r
			e.Path, e.Earlier, e.Incomplete, e.Prior = r.Earlier, nil, inc, nil
			check(e)
		}
	}
	vs, _, _ := check(r)
	return vs
}

func hasTag(info mgmterror.MgmtErrorInfo, name string) bool {
	for _, t := range info {
		if t.XMLName.Local == name {
			return true
		}
	}
	return false
}
