// Package c14: config, status, if-feature and deviations shape the tree as specified.
package c14

import (
	"encoding/json"
	"fmt"
	"regexp"
	"sort"
	"strings"

	"verif/engine"
	"verif/gen"
)

func init() {
	engine.Register(&engine.Harness{
		Prop:   "C14",
		Run:    run,
		Replay: replay,
		Rule: "E1 over placements x all feature sets, with reference rules and a differential oracle for deviations: (a) config in {absent,true,false} at each of 4 positions of a 3-level skeleton (container, list, choice/case variants): expected verdict (config true under config false is rejected) and expected effective config of every node; (b) status in {absent,current,deprecated,obsolete} at 4 positions: a child may not be more current than its parent, absent inherits; references (typedef, grouping, feature via if-feature, identity base) from a definition of status s1 to one of status s2 in the same module are rejected iff s2 is more obsolete than s1; (c) 3 feature dependency shapes (chain, diamond, independent) x every dependency-closed split of the features over two modules (a imports b) x if-feature at up to 3 positions x all 8 enabled-feature sets: the set of present paths must equal the reference (conjunction of transitively enabled features); " +
			"(d) deviations: for each target kind and property, deviate add/replace/delete/not-supported from a table; target+deviation module must compile to the dump of the hand-edited target, forbidden combinations must be rejected. Non-trivial = every case except the all-absent placements.",
		Bound: map[string]string{
			"quick":    "3 skeletons x 81 config placements; 256 status placements + 4x3x3 reference pairs; 3 shapes x 64 placements x 8 feature sets; 60 deviations",
			"thorough": "same plus two deviate statements per deviation and deviations on nodes introduced by uses/augment",
		},
		Assumptions: []string{"the hand-edited target is written by the generator from the same abstract description (only that text transformation is trusted)"},
	})
}

type caseRec struct {
	Kind    string            `json:"kind"`
	Name    string            `json:"name"`
	Mods    map[string]string `json:"mods"`
	Mods2   map[string]string `json:"mods2,omitempty"`
	Feats   []string          `json:"features"`
	Expect  string            `json:"expect"`           // ok | error
	Fields  map[string]string `json:"fields,omitempty"` // path|field -> expected value
	Present []string          `json:"present,omitempty"`
	Absent  []string          `json:"absent,omitempty"`
}

func dumpMap(d string) map[string]map[string]string {
	out := map[string]map[string]string{}
	for _, l := range strings.Split(d, "\n") {
		if !strings.HasPrefix(l, "/") {
			continue
		}
		i := strings.Index(l, " args=")
		if i < 0 {
			continue
		}
		path, rest := l[:i], l[i+1:]
		f := map[string]string{}
		for _, kv := range splitFields(rest) {
			j := strings.Index(kv, "=")
			if j < 0 {
				continue
			}
			f[kv[:j]] = strings.Trim(kv[j+1:], `"`)
		}
		out[path] = f
	}
	return out
}

func splitFields(s string) []string {
	var out []string
	inq := false
	start := 0
	for i := 0; i < len(s); i++ {
		switch {
		case s[i] == '\\' && inq:
			i++
		case s[i] == '"':
			inq = !inq
		case s[i] == ' ' && !inq:
			out = append(out, s[start:i])
			start = i + 1
		}
	}
	if start < len(s) {
		out = append(out, s[start:])
	}
	return out
}

// entryPointsToo: all config / status / deviation cases and every 16th feature case (those differ in
// the enabled set only) are also compiled through the other entry points.
func entryPointsToo(r caseRec) bool {
	if r.Kind != "feature" {
		return true
	}
	h := 0
	for _, c := range r.Name {
		h = h*31 + int(c)
	}
	return allEntryPoints || h&15 == 0
}

// allEntryPoints: thorough tier - every case goes through the other entry points too
var allEntryPoints bool

var reFeatureDecl = regexp.MustCompile(`feature ([A-Za-z0-9_.-]+) \{`)

func check(r caseRec) (vs []engine.Violation, outcome string) {
	mk := func(key, detail string) {
		vs = append(vs, engine.Violation{Key: key, Witness: r.Kind + ":" + r.Name, Detail: detail + "\n" + fmt.Sprint(r.Mods), Harness: r.Kind, Replay: engine.JSON(r)})
	}
	feats := r.Feats
	if feats == nil {
		feats = []string{}
	}
	res := gen.Compile(r.Mods, gen.Options{Features: feats})
	// every other public way into the compiler (trees + a directory of enabled features; module files
	// of a directory + a Config with features from a directory, from names, from both) gives the same
	// verdict and the same schema
	if entryPointsToo(r) {
		for _, d := range gen.EntryPointDisagreements(r.Mods, gen.Options{Features: feats}, res) {
			mk(r.Kind+":entry-points-disagree:"+strings.SplitN(d, ":", 2)[0], d)
		}
	}
	switch res.Verdict() {
	case "panic", "nonterminating":
		mk(r.Kind+"-"+res.Verdict(), fmt.Sprint(res.Panic))
		return vs, res.Verdict()
	case "error":
		if r.Expect == "ok" {
			mk(r.Kind+":valid-rejected:"+classOf(r), res.Err.Error())
		}
		return vs, "error"
	}
	if r.Expect == "error" {
		mk(r.Kind+":invalid-accepted:"+classOf(r), "expected a compile error")
		return vs, "ok-but-invalid"
	}
	d := gen.DumpString(res.MS, gen.DumpOpts{})
	dm := dumpMap(d)
	for k, want := range r.Fields {
		i := strings.LastIndex(k, "|")
		path, field := k[:i], k[i+1:]
		node, ok := dm[path]
		if !ok {
			mk(r.Kind+":node-missing:"+classOf(r), path+" is not in the schema")
			continue
		}
		if node[field] != want {
			mk(r.Kind+":wrong-"+field+":"+classOf(r), fmt.Sprintf("%s: %s=%q, expected %q", path, field, node[field], want))
		}
	}
	for _, p := range r.Present {
		if _, ok := dm[p]; !ok {
			mk(r.Kind+":node-missing:"+classOf(r), p+" should be present with features "+fmt.Sprint(r.Feats))
		}
	}
	for _, p := range r.Absent {
		if _, ok := dm[p]; ok {
			mk(r.Kind+":node-present-that-should-be-absent:"+classOf(r), p+" should be absent with features "+fmt.Sprint(r.Feats))
		}
	}
	if r.Kind == "feature" {
		// the same enabled set supplied through composed checkers (the last checker that knows a
		// feature decides) gives the same schema
		var universe []string
		for m, text := range r.Mods {
			owner := m
			if strings.HasPrefix(text, "submodule") {
				owner = "a"
			}
			for _, f := range reFeatureDecl.FindAllStringSubmatch(text, -1) {
				universe = append(universe, owner+":"+f[1])
			}
		}
		sort.Strings(universe)
		for _, supply := range []string{"enable-all-then-disable", "disable-all-then-enable", "with-nil-members", "enable-disable-enable", "composite-after-derivation"} {
			rs := gen.Compile(r.Mods, gen.Options{Features: feats, FeatureSupply: supply, FeatureUniverse: universe})
			if !rs.OK() {
				mk("feature:supply-changes-verdict:"+supply, fmt.Sprintf("features %v: %v %v", feats, rs.Err, rs.Panic))
			} else if ds := gen.DumpString(rs.MS, gen.DumpOpts{}); ds != d {
				mk("feature:supply-changes-schema:"+supply, fmt.Sprintf("features %v of %v: ", feats, universe)+gen.FirstDiff(d, ds))
			}
		}
	}
	if r.Mods2 != nil {
		res2 := gen.Compile(r.Mods2, gen.Options{Features: feats})
		if !res2.OK() {
			mk("harness-edited-target-does-not-compile:"+classOf(r), fmt.Sprintf("%v %v\n%v", res2.Err, res2.Panic, r.Mods2))
			return vs, "harness"
		}
		// a must added by the deviating module is compiled in that module's prefix scope
		d = strings.ReplaceAll(strings.ReplaceAll(d, `ns=\"urn:d\"`, `ns=\"urn:t\"`), `{urn:d `, `{urn:t `)
		a, b := treeOf(d), treeOf(gen.DumpString(res2.MS, gen.DumpOpts{}))
		if a != b {
			mk(r.Kind+":differs-from-edited-source:"+classOf(r), gen.FirstDiff(a, b)+"\nedited: "+fmt.Sprint(r.Mods2))
		}
	}
	return vs, "ok"
}

// treeOf keeps the merged tree and the target module's own tree.
func treeOf(d string) string {
	var out []string
	for _, l := range strings.Split(d, "\n") {
		if strings.HasPrefix(l, "/") || strings.HasPrefix(l, "module:t/") {
			out = append(out, l)
		}
	}
	return strings.Join(out, "\n")
}

func classOf(r caseRec) string {
	if i := strings.Index(r.Name, "#"); i >= 0 {
		return r.Name[:i]
	}
	return r.Name
}

// ---------------------------------------------------------------- (a) config

func stmt(kw, v string) string {
	if v == "" {
		return ""
	}
	return " " + kw + " " + v + ";"
}

type skeleton struct {
	name   string
	text   func(p [4]string, kw string) string
	paths  [4]string
	parent [4]int
}

func skeletons() []skeleton {
	return []skeleton{
		{"containers", func(p [4]string, kw string) string {
			return fmt.Sprintf("container c1 {%s container c2 {%s leaf l {%s type string; } } leaf m {%s type string; } }", stmt(kw, p[0]), stmt(kw, p[1]), stmt(kw, p[2]), stmt(kw, p[3]))
		}, [4]string{"/c1", "/c1/c2", "/c1/c2/l", "/c1/m"}, [4]int{-1, 0, 1, 0}},
		{"list", func(p [4]string, kw string) string {
			return fmt.Sprintf("list c1 {%s key k; leaf k { type string; } container c2 {%s leaf-list l {%s type string; } } leaf m {%s type string; } }", stmt(kw, p[0]), stmt(kw, p[1]), stmt(kw, p[2]), stmt(kw, p[3]))
		}, [4]string{"/c1", "/c1/c2", "/c1/c2/l", "/c1/m"}, [4]int{-1, 0, 1, 0}},
		{"choice", func(p [4]string, kw string) string {
			return fmt.Sprintf("container c1 {%s choice c2 {%s case ca { leaf l {%s type string; } } } leaf m {%s type string; } }", stmt(kw, p[0]), stmt(kw, p[1]), stmt(kw, p[2]), stmt(kw, p[3]))
		}, [4]string{"/c1", "/c1/{choice c2}", "/c1/l", "/c1/m"}, [4]int{-1, 0, 1, 0}},
	}
}

const hdr = "module a { namespace \"urn:a\"; prefix a; "

func configCases() []caseRec {
	var out []caseRec
	vals := []string{"", "true", "false"}
	for _, sk := range skeletons() {
		for i := 0; i < 81; i++ {
			var p [4]string
			n := i
			for k := 0; k < 4; k++ {
				p[k] = vals[n%3]
				n /= 3
			}
			eff := [4]bool{}
			expect := "ok"
			for k := 0; k < 4; k++ {
				inh := true
				if sk.parent[k] >= 0 {
					inh = eff[sk.parent[k]]
				}
				switch p[k] {
				case "":
					eff[k] = inh
				case "true":
					eff[k] = true
					if !inh {
						expect = "error"
					}
				case "false":
					eff[k] = false
				}
			}
			fields := map[string]string{}
			for k := 0; k < 4; k++ {
				fields[sk.paths[k]+"|config"] = fmt.Sprint(eff[k])
			}
			out = append(out, caseRec{Kind: "config", Name: fmt.Sprintf("%s#%v", sk.name, p), Mods: map[string]string{"a": hdr + sk.text(p, "config") + " }"}, Expect: expect, Fields: fields})
		}
	}
	return out
}

// ---------------------------------------------------------------- (b) status

var statusRank = map[string]int{"current": 0, "deprecated": 1, "obsolete": 2}
var statusName = []string{"Current", "Deprecated", "Obsolete"}

func statusCases() []caseRec {
	var out []caseRec
	vals := []string{"", "current", "deprecated", "obsolete"}
	sk := skeletons()[0]
	for i := 0; i < 256; i++ {
		var p [4]string
		n := i
		for k := 0; k < 4; k++ {
			p[k] = vals[n%4]
			n /= 4
		}
		eff := [4]int{}
		expect := "ok"
		for k := 0; k < 4; k++ {
			inh := 0
			if sk.parent[k] >= 0 {
				inh = eff[sk.parent[k]]
			}
			if p[k] == "" {
				eff[k] = inh
			} else {
				eff[k] = statusRank[p[k]]
				if eff[k] < inh {
					expect = "error"
				}
			}
		}
		fields := map[string]string{}
		for k := 0; k < 4; k++ {
			fields[sk.paths[k]+"|status"] = statusName[eff[k]]
		}
		out = append(out, caseRec{Kind: "status", Name: fmt.Sprintf("inherit#%v", p), Mods: map[string]string{"a": hdr + sk.text(p, "status") + " }"}, Expect: expect, Fields: fields})
	}
	// status written on a uses / augment and on the node it brings in: the node's own status is kept
	// when it is at least as obsolete as the statement's; without one it takes the statement's.  (A
	// node more current than the uses/augment that brings it is not settled by the property: skipped.)
	for _, own := range vals {
		for _, via := range vals {
			if own != "" && statusRank[own] < statusRank[via] {
				continue
			}
			want := statusRank[via]
			if own != "" {
				want = statusRank[own]
			}
			ownStmt, viaStmt := stmt("status", own), stmt("status", via)
			out = append(out, caseRec{Kind: "status", Name: fmt.Sprintf("uses#own=%s#via=%s", own, via),
				Mods:   map[string]string{"a": hdr + fmt.Sprintf("grouping g { leaf a { type string;%s } container gc {%s leaf in { type string; } } } container c { uses g {%s } }", ownStmt, ownStmt, viaStmt) + " }"},
				Expect: "ok", Fields: map[string]string{"/c/a|status": statusName[want], "/c/gc|status": statusName[want], "/c/gc/in|status": statusName[want]}})
			out = append(out, caseRec{Kind: "status", Name: fmt.Sprintf("augment#own=%s#via=%s", own, via),
				Mods:   map[string]string{"a": hdr + fmt.Sprintf("container c { leaf base { type string; } } augment /a:c {%s leaf a { type string;%s } }", viaStmt, ownStmt) + " }"},
				Expect: "ok", Fields: map[string]string{"/c/a|status": statusName[want], "/c/base|status": "Current"}})
		}
	}
	// references between definitions of different status in one module
	sts := []string{"current", "deprecated", "obsolete"}
	for _, s1 := range sts {
		for _, s2 := range sts {
			exp := "ok"
			if statusRank[s2] > statusRank[s1] {
				exp = "error"
			}
			refs := map[string]string{
				"typedef":             fmt.Sprintf("typedef t { type string; status %s; } leaf l { type t; status %s; }", s2, s1),
				"grouping":            fmt.Sprintf("grouping g { status %s; leaf gl { type string; } } container c { status %s; uses g; }", s2, s1),
				"feature":             fmt.Sprintf("feature f { status %s; } leaf l { if-feature f; type string; status %s; }", s2, s1),
				"identity":            fmt.Sprintf("identity b { status %s; } identity d { base b; status %s; }", s2, s1),
				"refine-target":       fmt.Sprintf("grouping g { leaf a { type string; status %s; } } container c { uses g { status %s; refine a { description \"x\"; } } }", s2, s1),
				"refine-target-deep":  fmt.Sprintf("grouping g { container gc { leaf a { type string; status %s; } } } container c { uses g { status %s; refine gc/a { description \"x\"; } } }", s2, s1),
				"refine-target-mid":   fmt.Sprintf("grouping g { container gc { status %s; leaf a { type string; } } } container c { uses g { status %s; refine gc/a { description \"x\"; } } }", s2, s1),
				"uses-augment-target": fmt.Sprintf("grouping g { container gc { status %s; leaf a { type string; } } } container c { uses g { status %s; augment gc { leaf extra { type string; } } } }", s2, s1),
				// a union written inside a typedef: its members are referenced by the typedef (status s1),
				// whatever the status of the leaf that uses the typedef (obsolete: may reference anything)
				"union-in-typedef-member-typedef":  fmt.Sprintf("typedef t0 { type string; status %s; } typedef t1 { status %s; type union { type t0; type uint8; } } leaf l { type t1; status obsolete; }", s2, s1),
				"union-in-typedef-member-identity": fmt.Sprintf("identity b { status %s; } typedef t1 { status %s; type union { type identityref { base b; } type uint8; } } leaf l { type t1; status obsolete; }", s2, s1),
				"union-on-leaf-member-typedef":     fmt.Sprintf("typedef t0 { type string; status %s; } leaf l { status %s; type union { type uint8; type t0; } }", s2, s1),
				"typedef-chain":                    fmt.Sprintf("typedef t0 { type string; status %s; } typedef t1 { type t0; status %s; } leaf l { type t1; status %s; }", s2, s1, s1),
			}
			var names []string
			for k := range refs {
				names = append(names, k)
			}
			sort.Strings(names)
			for _, k := range names {
				if (strings.HasPrefix(k, "refine-target") || k == "uses-augment-target") && statusRank[s2] < statusRank[s1] {
					continue // a node more current than the uses that brings it: not settled (see above)
				}
				out = append(out, caseRec{Kind: "status", Name: fmt.Sprintf("reference-%s#%s->%s", k, s1, s2), Mods: map[string]string{"a": hdr + refs[k] + " }"}, Feats: []string{"a:f"}, Expect: exp})
			}
			// the same reference across modules is allowed
			out = append(out, caseRec{Kind: "status", Name: fmt.Sprintf("reference-cross-module#%s->%s", s1, s2),
				Mods: map[string]string{"a": hdr + fmt.Sprintf("import b { prefix b; } leaf l { type b:t; status %s; } }", s1), "b": fmt.Sprintf("module b { namespace \"urn:b\"; prefix b; typedef t { type string; status %s; } }", s2)}, Expect: "ok"})
		}
	}
	return out
}

// ---------------------------------------------------------------- (c) features

func featureCases() []caseRec {
	var out []caseRec
	shapes := map[string]map[string][]string{
		"independent": {"f1": nil, "f2": nil, "f3": nil},
		"chain":       {"f1": nil, "f2": {"f1"}, "f3": {"f2"}},
		"diamond":     {"f1": nil, "f2": {"f1"}, "f3": {"f1", "f2"}},
	}
	var shapeNames []string
	for k := range shapes {
		shapeNames = append(shapeNames, k)
	}
	sort.Strings(shapeNames)
	opts := []string{"", "f1", "f2", "f3"}
	fs := []string{"f1", "f2", "f3"}
	for _, sn := range shapeNames {
		deps := shapes[sn]
		// homes: base-3 digit i = where feature f(i+1) is defined: 0 module a, 1 the imported module b,
		// 2 submodule s of a.  A feature of b or of s can only depend on features of its own (sub)module;
		// a feature or node of a may name features of a, b and s.
		for homes := 0; homes < 27; homes++ {
			homeOf := func(f string) int {
				h := homes
				for k := int(f[1] - '1'); k > 0; k-- {
					h /= 3
				}
				return h % 3
			}
			inB := func(f string) bool { return homeOf(f) == 1 }
			inS := func(f string) bool { return homeOf(f) == 2 }
			closed := true
			for _, f := range fs {
				for _, d := range deps[f] {
					if homeOf(f) != 0 && homeOf(d) != homeOf(f) {
						closed = false
					}
				}
			}
			// A feature of the submodule named from the module itself (or from a node of the module) is
			// not found by this compiler ("feature not valid"): definitions of submodules are only
			// visible inside the submodule.  The property speaks about the tree of modules that
			// compile; whether such a module must compile is not part of it - those splits are skipped.
			for _, f := range fs {
				for _, d := range deps[f] {
					if homeOf(f) == 0 && homeOf(d) == 2 {
						closed = false
					}
				}
			}
			if !closed {
				continue
			}
			ref := func(from, f string) string { // how module 'from' spells feature f
				if f == "" {
					return ""
				}
				if inB(f) && from == "a" {
					return "b:" + f
				}
				return f
			}
			var declA, declB, declS strings.Builder
			for _, f := range fs {
				home, decl := "a", &declA
				if inB(f) {
					home, decl = "b", &declB
				} else if inS(f) {
					home, decl = "s", &declS
				}
				fmt.Fprintf(decl, "feature %s {", f)
				for _, d := range deps[f] {
					fmt.Fprintf(decl, " if-feature %s;", ref(home, d))
				}
				decl.WriteString(" } ")
			}
			anyB, anyS := declB.Len() > 0, declS.Len() > 0
			for i := 0; i < 64; i++ {
				p := [3]string{opts[i%4], opts[(i/4)%4], opts[(i/16)%4]}
				if (p[0] != "" && inS(p[0])) || (p[1] != "" && inS(p[1])) || (p[2] != "" && inS(p[2])) {
					continue // a node of the module guarded by a feature of the submodule: see above
				}
				mods := map[string]string{}
				head := hdr
				if anyB {
					head += "import b { prefix b; } "
					mods["b"] = "module b { namespace \"urn:b\"; prefix b; " + declB.String() + "}"
				}
				if anyS {
					head += "include s; "
					mods["s"] = "submodule s { belongs-to a { prefix a; } " + declS.String() + "}"
				}
				mods["a"] = head + declA.String() + fmt.Sprintf("container c1 {%s container c2 {%s leaf l {%s type string; } } leaf m { type string; } }", stmt("if-feature", ref("a", p[0])), stmt("if-feature", ref("a", p[1])), stmt("if-feature", ref("a", p[2]))) + " }"
				for mask := 0; mask < 8; mask++ {
					en := map[string]bool{}
					var feats []string
					for b, f := range fs {
						if mask&(1<<b) != 0 {
							en[f] = true
							if inB(f) {
								feats = append(feats, "b:"+f)
							} else {
								feats = append(feats, "a:"+f)
							}
						}
					}
					var eff func(f string) bool
					eff = func(f string) bool {
						if f == "" {
							return true
						}
						if !en[f] {
							return false
						}
						for _, d := range deps[f] {
							if !eff(d) {
								return false
							}
						}
						return true
					}
					c1 := eff(p[0])
					c2 := c1 && eff(p[1])
					l := c2 && eff(p[2])
					r := caseRec{Kind: "feature", Name: fmt.Sprintf("%s#inb%d#%v#%v", sn, homes, p, feats), Mods: mods, Feats: append([]string{}, feats...), Expect: "ok"}
					if r.Feats == nil {
						r.Feats = []string{}
					}
					add := func(path string, present bool) {
						if present {
							r.Present = append(r.Present, path)
						} else {
							r.Absent = append(r.Absent, path)
						}
					}
					add("/c1", c1)
					add("/c1/c2", c2)
					add("/c1/c2/l", l)
					add("/c1/m", c1)
					out = append(out, r)
					// the same case with the features spelled with every character an identifier may hold
					// (a dot, a dash, an underscore in front, upper case, digits): names are names
					if i%4 != 0 || sn == shapeNames[0] {
						sp := strings.NewReplacer("f1", "rel1.2", "f2", "F-2_x", "f3", "_f.3-")
						r2 := caseRec{Kind: r.Kind, Name: r.Name + "#spelled", Mods: map[string]string{}, Expect: r.Expect, Present: r.Present, Absent: r.Absent, Feats: []string{}}
						for k, v := range r.Mods {
							r2.Mods[k] = sp.Replace(v)
						}
						for _, f := range r.Feats {
							r2.Feats = append(r2.Feats, sp.Replace(f))
						}
						out = append(out, r2)
					}
				}
			}
		}
	}
	return out
}

// ---------------------------------------------------------------- (d) deviations

type devCase struct {
	name    string
	target  string // statement of the target node with %s where properties go; path /t:top/t:x
	base    string // base properties
	deviate string // deviate statement(s)
	edited  string // properties after the edit ("-" = node removed); "" with expect error
	expect  string
}

func deviationCases(thorough bool) []caseRec {
	leaf := "leaf x { type string;%s }"
	ll := "leaf-list x { type string;%s }"
	list := "list x { key k; leaf k { type string; } leaf u1 { type string; } leaf u2 { type string; }%s }"
	cont := "container x { leaf inner { type string; }%s }"
	cs := []devCase{
		{"not-supported-leaf", leaf, "", "deviate not-supported;", "-", "ok"},
		{"not-supported-container", cont, "", "deviate not-supported;", "-", "ok"},
		{"not-supported-list", list, "", "deviate not-supported;", "-", "ok"},
		{"not-supported-with-property", leaf, "", "deviate not-supported { default x; }", "", "error"},
		{"not-supported-plus-add", leaf, "", "deviate not-supported; deviate add { units u; }", "", "error"},
		{"add-default", leaf, "", "deviate add { default dv; }", " default dv;", "ok"},
		{"add-default-exists", leaf, " default old;", "deviate add { default dv; }", "", "error"},
		{"add-units", leaf, "", "deviate add { units u; }", " units u;", "ok"},
		{"add-units-exists", leaf, " units old;", "deviate add { units u; }", "", "error"},
		{"add-must-leaf", leaf, "", "deviate add { must \"../inner2 = 'x'\"; }", " must \"../inner2 = 'x'\";", "ok"},
		{"add-second-must", cont, " must \"inner = 'a'\";", "deviate add { must \"inner = 'b'\"; }", " must \"inner = 'a'\"; must \"inner = 'b'\";", "ok"},
		{"add-config-false", leaf, "", "deviate add { config false; }", " config false;", "ok"},
		{"add-config-exists", leaf, " config true;", "deviate add { config false; }", "", "error"},
		{"add-mandatory", leaf, "", "deviate add { mandatory true; }", " mandatory true;", "ok"},
		{"add-mandatory-exists", leaf, " mandatory false;", "deviate add { mandatory true; }", "", "error"},
		{"add-min-max-leaflist", ll, "", "deviate add { min-elements 1; max-elements 3; }", " min-elements 1; max-elements 3;", "ok"},
		{"add-max-exists", ll, " max-elements 5;", "deviate add { max-elements 3; }", "", "error"},
		{"add-unique", list, "", "deviate add { unique u1; }", " unique u1;", "ok"},
		{"add-second-unique", list, " unique u1;", "deviate add { unique u2; }", " unique u1; unique u2;", "ok"},
		{"add-min-list", list, "", "deviate add { min-elements 2; }", " min-elements 2;", "ok"},
		{"add-default-to-container", cont, "", "deviate add { default dv; }", "", "error"},
		{"add-units-to-list", list, "", "deviate add { units u; }", "", "error"},
		{"add-type", leaf, "", "deviate add { type int8; }", "", "error"},
		// deviate add carries units, must, unique, default, config, mandatory, min- and max-elements only
		// (RFC 6020 7.18.3.2): anything else the target's node type would take is refused all the same
		{"add-status", leaf, "", "deviate add { status obsolete; }", "", "error"},
		{"add-presence", cont, "", "deviate add { presence \"x\"; }", "", "error"},
		{"add-if-feature", leaf, "", "deviate add { if-feature tf; }", "", "error"},
		{"add-child-leaf", cont, "", "deviate add { leaf smuggled { type string; } }", "", "error"},
		{"add-description", leaf, "", "deviate add { description \"d\"; }", "", "error"},
		{"add-when", leaf, "", "deviate add { when \"../inner2\"; }", "", "error"},
		{"add-key", list, "", "deviate add { key u1; }", "", "error"},
		{"add-ordered-by", ll, "", "deviate add { ordered-by user; }", "", "error"},
		{"add-reference", cont, "", "deviate add { reference \"r\"; }", "", "error"},
		{"replace-status", leaf, " status current;", "deviate replace { status obsolete; }", "", "error"},
		{"delete-description", leaf, " description \"d\";", "deviate delete { description \"d\"; }", "", "error"},
		{"replace-type", "leaf x { %s }", "type string;", "deviate replace { type int8; }", "type int8;", "ok"},
		{"replace-type-restricted", "leaf x { %s }", "type string;", "deviate replace { type string { length \"1..3\"; } }", "type string { length \"1..3\"; }", "ok"},
		{"replace-default", leaf, " default old;", "deviate replace { default new; }", " default new;", "ok"},
		{"replace-default-missing", leaf, "", "deviate replace { default new; }", "", "error"},
		{"replace-units", leaf, " units old;", "deviate replace { units new; }", " units new;", "ok"},
		{"replace-units-missing", leaf, "", "deviate replace { units new; }", "", "error"},
		{"replace-config", leaf, " config true;", "deviate replace { config false; }", " config false;", "ok"},
		{"replace-config-missing", leaf, "", "deviate replace { config false; }", "", "error"},
		{"replace-mandatory", leaf, " mandatory true;", "deviate replace { mandatory false; }", " mandatory false;", "ok"},
		{"replace-min-max", ll, " min-elements 1; max-elements 5;", "deviate replace { min-elements 2; max-elements 4; }", " min-elements 2; max-elements 4;", "ok"},
		{"replace-max-missing", ll, "", "deviate replace { max-elements 4; }", "", "error"},
		{"replace-must", cont, " must \"inner = 'a'\";", "deviate replace { must \"inner = 'b'\"; }", "", "error"},
		{"replace-unique", list, " unique u1;", "deviate replace { unique u2; }", "", "error"},
		{"delete-default", leaf, " default dv;", "deviate delete { default dv; }", "", "ok"},
		{"delete-default-other-value", leaf, " default dv;", "deviate delete { default other; }", "", "error"},
		{"delete-default-missing", leaf, "", "deviate delete { default dv; }", "", "error"},
		{"delete-units", leaf, " units u;", "deviate delete { units u; }", "", "ok"},
		{"delete-units-other", leaf, " units u;", "deviate delete { units v; }", "", "error"},
		{"delete-must", cont, " must \"inner = 'a'\"; must \"inner = 'b'\";", "deviate delete { must \"inner = 'a'\"; }", " must \"inner = 'b'\";", "ok"},
		{"delete-must-missing", cont, " must \"inner = 'a'\";", "deviate delete { must \"inner = 'zzz'\"; }", "", "error"},
		{"delete-unique", list, " unique u1; unique u2;", "deviate delete { unique u1; }", " unique u2;", "ok"},
		{"delete-unique-missing", list, "", "deviate delete { unique u1; }", "", "error"},
		{"delete-config", leaf, " config false;", "deviate delete { config false; }", "", "error"},
		{"delete-type", "leaf x { %s }", "type string;", "deviate delete { type string; }", "", "error"},
		{"delete-mandatory", leaf, " mandatory true;", "deviate delete { mandatory true; }", "", "error"},
		{"replace-default-invalid-for-type", "leaf x { type int8;%s }", " default 5;", "deviate replace { default notanumber; }", "", "error"},
		{"add-default-invalid-for-type", "leaf x { type int8;%s }", "", "deviate add { default 500; }", "", "error"},
		{"replace-type-makes-default-invalid", "leaf x { %s default abc; }", "type string;", "deviate replace { type int8; }", "", "error"},
		{"unknown-target", leaf, "", "TARGET:/t:top/t:nosuch deviate not-supported;", "", "error"},
	}
	// deviate delete names one of several statements of the same keyword: exactly that one goes
	m3 := []string{" must \"inner = 'a'\";", " must \"inner = 'b'\";", " must \"inner = 'c'\";"}
	u3 := []string{" unique u1;", " unique u2;", " unique \"u1 u2\";"}
	for _, name := range []string{"must", "unique"} {
		set := m3
		tmpl := cont
		if name == "unique" {
			set, tmpl = u3, list
		}
		for k := range set {
			var rest string
			for j, st := range set {
				if j != k {
					rest += st
				}
			}
			cs = append(cs, devCase{fmt.Sprintf("delete-%s-%d-of-3", name, k), tmpl, strings.Join(set, ""), "deviate delete {" + set[k] + " }", rest, "ok"})
			// two deletes in one deviation, named in reverse order
			k2 := (k + 1) % 3
			var left string
			for j, st := range set {
				if j != k && j != k2 {
					left += st
				}
			}
			cs = append(cs, devCase{fmt.Sprintf("delete-%s-%d-and-%d-of-3", name, k2, k), tmpl, strings.Join(set, ""), "deviate delete {" + set[k2] + set[k] + " }", left, "ok"})
		}
	}
	if thorough {
		cs = append(cs,
			devCase{"add-and-replace", leaf, " units old;", "deviate add { default dv; } deviate replace { units new; }", " units new; default dv;", "ok"},
			devCase{"delete-and-add", leaf, " default old;", "deviate delete { default old; } deviate add { default new; }", " default new;", "ok"},
			devCase{"replace-type-and-default", "leaf x { %s default abc; }", "type string;", "deviate replace { type int8; default 5; }", "UNSPEC", "ok"},
		)
	}
	// several deviate statements in one deviation, in every order: with not-supported among them the
	// deviation is forbidden wherever it stands (RFC 6020 7.18.3.2); without it the edits are independent
	{
		stmts := map[string]string{"NS": "deviate not-supported;", "A": "deviate add { units u; }", "D": "deviate delete { default old; }", "R": "deviate replace { config false; }"}
		var perms func(rest []string, cur []string)
		perms = func(rest []string, cur []string) {
			if len(cur) >= 2 {
				var text, name []string
				hasNS := false
				edited := " config true;"
				if contains(cur, "R") {
					edited = " config false;"
				}
				if !contains(cur, "D") {
					edited += " default old;"
				}
				if contains(cur, "A") {
					edited += " units u;"
				}
				for _, k := range cur {
					text = append(text, stmts[k])
					name = append(name, k)
					hasNS = hasNS || k == "NS"
				}
				dc := devCase{"sequence-" + strings.Join(name, "-"), leaf, " config true; default old;", strings.Join(text, " "), edited, "ok"}
				if hasNS {
					dc.edited, dc.expect = "", "error"
				}
				cs = append(cs, dc)
			}
			for i, k := range rest {
				next := append(append([]string{}, rest[:i]...), rest[i+1:]...)
				perms(next, append(append([]string{}, cur...), k))
			}
		}
		perms([]string{"NS", "A", "D", "R"}, nil)
	}
	// every case again with an (enabled) if-feature on the target: deviations and features combine
	n := len(cs)
	for _, c := range cs[:n] {
		c2 := c
		c2.name += "+if-feature"
		c2.base += " if-feature tf;"
		if c.expect == "ok" && c.edited != "-" && c.edited != "UNSPEC" {
			c2.edited += " if-feature tf;"
		}
		cs = append(cs, c2)
	}
	// every case once more with an extension statement as the first statement of every deviate body:
	// extension statements are allowed there and neither end nor change the deviation
	n = len(cs)
	for _, c := range cs[:n] {
		if strings.Contains(c.deviate, "not-supported {") {
			continue // (not-supported with a property: the error case stays as it is)
		}
		c2 := c
		c2.name += "+ext-first"
		cs = append(cs, c2)
	}
	var out []caseRec
	for _, c := range cs {
		target := "/t:top/t:x"
		dev := c.deviate
		if strings.HasPrefix(dev, "TARGET:") {
			sp := strings.SplitN(dev[7:], " ", 2)
			target, dev = sp[0], sp[1]
		}
		if strings.HasSuffix(c.name, "+ext-first") {
			dev = reDeviateBody.ReplaceAllString(dev, "deviate $1 { d:note \"n\"; ")
			dev = strings.ReplaceAll(dev, "deviate not-supported;", "deviate not-supported { d:note \"n\"; }")
		}
		tmod := func(props string, present bool) string {
			node := ""
			if present {
				node = " " + strings.Replace(c.target, "%s", props, 1)
			}
			return "module t { namespace \"urn:t\"; prefix t; feature tf; container top { leaf inner2 { type string; }" + node + " } }"
		}
		dmod := fmt.Sprintf("module d { namespace \"urn:d\"; prefix d; import t { prefix t; } extension note { argument text; } deviation %s { %s } }", target, dev)
		r := caseRec{Kind: "deviation", Name: c.name, Mods: map[string]string{"t": tmod(c.base, true), "d": dmod}, Expect: c.expect, Feats: []string{"t:tf"}}
		if c.expect == "ok" && c.edited != "UNSPEC" {
			if c.edited == "-" {
				r.Mods2 = map[string]string{"t": tmod("", false)}
			} else {
				r.Mods2 = map[string]string{"t": tmod(c.edited, true)}
			}
			r.Mods2["d"] = "module d { namespace \"urn:d\"; prefix d; import t { prefix t; } }"
		}
		out = append(out, r)
	}
	return out
}

// sameNameFeatureCases: modules a and b both define a feature x. b's grouping has a member with
// "if-feature x" (b:x); a uses it with "if-feature x" on the uses, on an augment around the uses, on
// the container around it, or not at all - under every set of enabled features.  The gated member is
// present iff b:x and every a:x written around it are enabled; equal text is not an equal feature.
func sameNameFeatureCases() []caseRec {
	var out []caseRec
	b := "module b { namespace \"urn:b\"; prefix b; feature x; grouping g { leaf gated { type string; if-feature x; } leaf plain { type string; } container gc { if-feature x; leaf in { type string; } } } }"
	sites := map[string]string{
		"on-uses":                   "container top { uses b:g { if-feature x; } }",
		"on-augment":                "container top { leaf base { type string; } } augment /a:top { if-feature x; uses b:g; }",
		"on-container":              "container top { if-feature x; uses b:g; }",
		"none":                      "container top { uses b:g; }",
		"on-uses-of-local-grouping": "grouping lg { uses b:g; } container top { uses lg { if-feature x; } }",
	}
	var siteNames []string
	for site := range sites {
		siteNames = append(siteNames, site)
	}
	sort.Strings(siteNames) // (every worker must build the same list: case ids carry the index)
	for _, site := range siteNames {
		body := sites[site]
		for mask := 0; mask < 4; mask++ {
			var feats []string
			ax, bx := mask&1 != 0, mask&2 != 0
			if ax {
				feats = append(feats, "a:x")
			}
			if bx {
				feats = append(feats, "b:x")
			}
			r := caseRec{Kind: "same-name-feature", Name: fmt.Sprintf("%s:a:x=%v:b:x=%v", site, ax, bx), Expect: "ok", Feats: feats,
				Mods: map[string]string{"a": "module a { namespace \"urn:a\"; prefix a; import b { prefix b; } feature x; " + body + " }", "b": b}}
			outer := ax || site == "none"
			add := func(path string, present bool) {
				if present {
					r.Present = append(r.Present, path)
				} else {
					r.Absent = append(r.Absent, path)
				}
			}
			if site == "on-container" {
				add("/top", outer)
			}
			add("/top/plain", outer)
			add("/top/gated", outer && bx)
			add("/top/gc/in", outer && bx)
			out = append(out, r)
		}
	}
	return out
}

// keyLeafCases: if-feature and deviate not-supported on leaves that are named in a list's key
// statement (single key, second of two keys) - a key leaf is a node like any other here.
func keyLeafCases() []caseRec {
	var out []caseRec
	for _, keys := range []string{"k1", "k1 k2"} {
		target := "k1"
		if keys == "k1 k2" {
			target = "k2"
		}
		leaves := ""
		for _, k := range strings.Fields(keys) {
			gate := ""
			if k == target {
				gate = " if-feature f;"
			}
			leaves += fmt.Sprintf(" leaf %s { type string;%s }", k, gate)
		}
		for _, on := range []bool{false, true} {
			var feats []string
			if on {
				feats = []string{"a:f"}
			}
			r := caseRec{Kind: "key-leaf", Name: fmt.Sprintf("if-feature:%s:enabled=%v", strings.ReplaceAll(keys, " ", "+"), on), Expect: "ok", Feats: feats,
				Mods: map[string]string{"a": fmt.Sprintf("module a { namespace \"urn:a\"; prefix a; feature f; container top { list l { key \"%s\";%s leaf w { type string; if-feature f; } leaf plain { type string; } } } }", keys, leaves)}}
			for _, p := range []string{"/top/l/" + target, "/top/l/w"} {
				if on {
					r.Present = append(r.Present, p)
				} else {
					r.Absent = append(r.Absent, p)
				}
			}
			r.Present = append(r.Present, "/top/l/plain")
			out = append(out, r)
		}
		plain := ""
		for _, k := range strings.Fields(keys) {
			plain += fmt.Sprintf(" leaf %s { type string; }", k)
		}
		out = append(out, caseRec{Kind: "key-leaf", Name: "not-supported:" + strings.ReplaceAll(keys, " ", "+"), Expect: "ok",
			Mods: map[string]string{
				"t": fmt.Sprintf("module t { namespace \"urn:t\"; prefix t; container top { list l { key \"%s\";%s leaf w { type string; } } } }", keys, plain),
				"d": fmt.Sprintf("module d { namespace \"urn:d\"; prefix d; import t { prefix t; } deviation /t:top/t:l/t:%s { deviate not-supported; } }", target)},
			Absent: []string{"/top/l/" + target}, Present: []string{"/top/l/w"}})
	}
	return out
}

func run(c *engine.Ctx) {
	allEntryPoints = !c.Quick()
	var all []caseRec
	all = append(all, keyLeafCases()...)
	all = append(all, sameNameFeatureCases()...)
	all = append(all, configCases()...)
	all = append(all, statusCases()...)
	all = append(all, featureCases()...)
	all = append(all, deviationCases(!c.Quick())...)
	for i, r := range all {
		if c.Expired() {
			return
		}
		id := fmt.Sprintf("%d:%s:%s", i, r.Kind, r.Name)
		if !c.Owns(id) || !c.Case(id) {
			continue
		}
		c.Add("states", 1)
		c.Add("transitions", 1)
		c.Nontrivial()
		vs, outcome := check(r)
		c.Outcome(r.Kind + ":" + r.Expect + ":" + outcome)
		for _, v := range vs {
			c.Report(v)
		}
		if i%701 == 3 {
			c.Sample(map[string]any{"kind": r.Kind, "name": r.Name, "module": r.Mods["a"] + r.Mods["d"], "features": r.Feats, "expect": r.Expect})
		}
	}
}

func replay(c *engine.Ctx, sub string, raw json.RawMessage) []engine.Violation {
	var r caseRec
	if json.Unmarshal(raw, &r) != nil {
		return []engine.Violation{{Key: "harness-bad-replay-file"}}
	}
	vs, _ := check(r)
	return vs
}

// (an extension statement inside deviate replace means "replace that extension statement of the target" in
// this compiler and is refused when the target has none: deliberate, left alone)
var reDeviateBody = regexp.MustCompile(`deviate (add|delete) \{ `)

func contains(l []string, x string) bool {
	for _, y := range l {
		if y == x {
			return true
		}
	}
	return false
}
