// Package c19: encoders and decoders round-trip and decoding is total.
package c19

import (
	"encoding/xml"
	"bytes"
	"encoding/json"
	"fmt"
	"math/big"
	"sort"
	"strconv"
	"strings"

	"verif/engine"
	"verif/harness/c18"
	"verif/gen"

	"github.com/sdcio/yang-parser/data/datanode"
	"github.com/sdcio/yang-parser/data/encoding"
	"github.com/sdcio/yang-parser/schema"
	"github.com/sdcio/yang-parser/verifrt"
)

func init() {
	engine.Register(&engine.Harness{
		Prop:   "C19",
		Run:    run,
		Replay: replay,
		Rule: "E1 over (schema x tree x encoding) and over decoder inputs, E2 over the JSON reader's map order. (1) Every schema forest of the C18 generator (leaf / leaf-list / presence and non-presence containers / lists / choices and cases, <= 3 nodes quick, <= 4 thorough) x every data tree valid under it (reference validation of C18; <= 4 / <= 5 nodes) x 3 encodings: decode(encode(tree)) must equal the tree. (2) A two-module schema with int8/int64/uint64/decimal64/boolean/empty/string/enumeration/identityref (own and foreign module, an identity name that exists in both modules, an identityref leaf augmented in from the other module)/union leaves, user- and system-ordered lists and leaf-lists, presence container, augmented nodes. Round trip: every data tree made of up to 2 (quick) / 3 (thorough) slots (leaf with each value of its alphabet incl. 64-bit extremes and strings needing escaping, leaf-lists, lists with 1-2 entries, containers) is encoded as RFC 7951, plain JSON and XML by the real writers and decoded by the real readers; the decoded tree must equal the original (sibling order free, list and leaf-list order kept when ordered-by user). For the JSON readers every map-iteration order (owned choice points, deviation bound 1) must give the same tree. " +
			"Totality: every byte prefix, every single-token deletion, duplication and replacement (token alphabet of the format) of every encoding, and every string of <= 4 tokens, is decoded under a step horizon: no panic; on success every leaf value in the returned tree must be accepted by its schema type and, where a reference parser (encoding/json with UseNumber, encoding/xml) finds the literal in the input, a literal the type rejects must not have been altered into an accepted value. Non-trivial = the tree has a list, leaf-list, 64-bit number, escaped string or foreign-module node, or the mutated input still decodes.",
		Bound: map[string]string{"quick": "trees of <= 2 slots; mutations of the encodings of all 1-slot trees; token strings <= 3", "thorough": "trees of <= 3 slots; mutations of all 2-slot trees; token strings <= 4"},
		Assumptions: []string{"map iteration inside encoding/json and the rfc7951 package is not owned; the reader's own range over the decoded map is"},
	})
}

const modA = `module a { namespace "urn:a"; prefix a;
 identity base; identity one { base base; } identity dup { base base; } identity lonely;
 typedef idt { type identityref { base base; } }
 container c {
  leaf i8 { type int8; } leaf u64 { type uint64; } leaf i64 { type int64; }
  leaf d { type decimal64 { fraction-digits 2; } } leaf b { type boolean; } leaf e { type empty; }
  leaf s { type string; } leaf en { type enumeration { enum x; enum y; } }
  leaf idr { type identityref { base base; } }
  leaf un { type union { type int8; type enumeration { enum auto; } } }
  leaf us { type union { type string { pattern "[a-z]+"; } type string { length "5"; } } }
  leaf idn { type identityref { base lonely; } }
  leaf dot.ted-name_0 { type string; } leaf _u { type uint8; } leaf UPPER { type boolean; }
  leaf-list ll { type string; ordered-by user; } leaf-list ls { type uint8; }
  list li { key k; ordered-by user; leaf k { type string; } leaf v { type int8; } }
  list ls2 { key k; leaf k { type uint8; } leaf w { type string; } }
  list l2k { key "k k2"; leaf k { type string; } leaf k2 { type uint8; } leaf z { type string; } }
  container in { presence p; leaf x { type string; } }
 } }`
const modB = `module b { namespace "urn:b"; prefix b; import a { prefix a; }
 identity two { base a:base; } identity dup { base a:base; }
 augment /a:c { leaf fromb { type string; } leaf idrb { type identityref { base a:base; } } leaf idrt { type a:idt; } container cb { leaf y { type int8; } } } }`

type D struct {
	Name   string   `json:"name"`
	Values []string `json:"values,omitempty"`
	Kids   []*D     `json:"kids,omitempty"`
}

func (d *D) node() datanode.DataNode {
	var ch []datanode.DataNode
	for _, k := range d.Kids {
		ch = append(ch, k.node())
	}
	return datanode.CreateDataNode(d.Name, ch, d.Values)
}

func lf(n string, v ...string) *D { return &D{Name: n, Values: v} }

func entry(key string, kids ...*D) *D {
	return &D{Name: key, Kids: append([]*D{lf("k", key)}, kids...)}
}

// slots: alternatives for each schema child of /c
func slots() [][]*D {
	return [][]*D{
		{lf("i8", "-128"), lf("i8", "0"), lf("i8", "127")},
		{lf("u64", "0"), lf("u64", "18446744073709551615"), lf("u64", "9007199254740993")},
		{lf("i64", "-9223372036854775808"), lf("i64", "9223372036854775807"), lf("i64", "-1")},
		{lf("d", "1.50"), lf("d", "-0.01"), lf("d", "92233720368547758.07"), lf("d", "3"), lf("d", "-92233720368547758.08"), lf("d", "-92233720368547758.00")},
		{lf("b", "true"), lf("b", "false")},
		{lf("e", "")},
		{lf("s", ""), lf("s", "a"), lf("s", "q\"\\<&é\n\t>"), lf("s", " lead and trail "), lf("s", "C:\\temp\\new"), lf("s", "a\\u0041b\\.\\s"), lf("s", "/"), lf("s", "\x7f"), lf("s", "<!--x-->]]>")},
		{lf("en", "x")},
		{lf("idr", "one"), lf("idr", "b:two"), lf("idr", "dup"), lf("idr", "b:dup")},
		{lf("idrb", "two"), lf("idrb", "a:one"), lf("idrb", "dup"), lf("idrb", "a:dup")},
		{lf("idrt", "two"), lf("idrt", "a:one"), lf("idrt", "dup"), lf("idrt", "a:dup")}, // identityref through a typedef of the other module
		{lf("un", "5"), lf("un", "auto")},
		{lf("us", "abc"), lf("us", "12345")}, // a union of restricted strings only
		{lf("dot.ted-name_0", "v"), lf("_u", "7"), lf("UPPER", "true")}, // names of every class an identifier may have
		{lf("ll", "b", "a"), lf("ll", "a"), lf("ll", "z", "y", "x"), lf("ll", "x\\ty", "\\\\")},
		{lf("ls", "3", "1", "2"), lf("ls", "255")},
		{{Name: "li", Kids: []*D{entry("k2", lf("v", "1")), entry("k1")}}, {Name: "li", Kids: []*D{entry("only", lf("v", "-5"))}}, {Name: "li", Kids: []*D{entry("k\\n1"), entry("k 2\"")}}},
		{{Name: "ls2", Kids: []*D{entry("3"), entry("1", lf("w", "ww"))}}},
		// a list with two keys: entries that share the first key, entries that share the second
		{{Name: "l2k", Kids: []*D{entry("red", lf("k2", "1"), lf("z", "a")), entry("red", lf("k2", "2"))}},
			{Name: "l2k", Kids: []*D{entry("red", lf("k2", "1")), entry("blue", lf("k2", "1"), lf("z", "b"))}},
			{Name: "l2k", Kids: []*D{entry("x", lf("k2", "0"))}}},
		{{Name: "in"}, {Name: "in", Kids: []*D{lf("x", "inner")}}},
		{lf("fromb", "v")},
		{{Name: "cb", Kids: []*D{lf("y", "7")}}},
	}
}

var userOrdered = map[string]bool{"ll": true, "li": true}

// canon renders a tree; order of user-ordered list entries / leaf-list values kept.
func canonNode(n datanode.DataNode, path string, parentUser bool, out *[]string) {
	kids := append([]datanode.DataNode{}, n.YangDataChildrenNoSorting()...)
	if !parentUser {
		sort.SliceStable(kids, func(i, j int) bool { return kids[i].YangDataName() < kids[j].YangDataName() })
	}
	for i, k := range kids {
		name := k.YangDataName()
		p := path + "/" + name
		if parentUser {
			p = fmt.Sprintf("%s/#%d:%s", path, i, name)
		}
		vals := append([]string{}, k.YangDataValuesNoSorting()...)
		if !userOrdered[name] {
			sort.Strings(vals)
		}
		if len(k.YangDataChildrenNoSorting()) == 0 {
			if (name == "ll" || name == "ls") && len(vals) == 0 {
				continue // a leaf-list without values has no instances
			}
			if name == "ll" && len(vals) == 1 && vals[0] == "" && false {
				continue
			}
			*out = append(*out, p+"="+strings.Join(vals, "\x1f"))
		} else {
			*out = append(*out, p)
		}
		canonNode(k, p, userOrdered[name] && len(k.YangDataChildrenNoSorting()) > 0 && name != "in" && name != "cb", out)
	}
}

func canon(n datanode.DataNode) string {
	var out []string
	canonNode(n, "", false, &out)
	return strings.Join(out, "\n")
}

var encNames = map[encoding.EncType]string{encoding.RFC7951: "rfc7951", encoding.JSON: "json", encoding.XML: "xml"}

func encode(ms schema.ModelSet, enc encoding.EncType, n datanode.DataNode) (b []byte, p any) {
	defer func() { p = recover() }()
	switch enc {
	case encoding.RFC7951:
		return encoding.ToRFC7951(ms, n), nil
	case encoding.JSON:
		return encoding.ToJSON(ms, n), nil
	}
	return encoding.ToXML(ms, n), nil
}

type decRes struct {
	tree    datanode.DataNode
	err     error
	panic   any
	horizon bool
	choices []int
}

func decode(ms schema.ModelSet, enc encoding.EncType, in []byte, order []int) (r decRes) {
	if order != nil {
		k := 0
		verifrt.SetChooser(func(site, n, nalt int) int {
			r.choices = append(r.choices, nalt)
			c := 0
			if k < len(order) && order[k] < nalt {
				c = order[k]
			}
			k++
			return c
		})
		defer verifrt.SetChooser(nil)
	}
	verifrt.SetHorizon(int64(5000*len(in) + 200000))
	defer func() {
		if p := recover(); p != nil {
			r.panic = p
		}
		r.horizon = verifrt.HorizonHit
		verifrt.SetHorizon(0)
		if r.horizon {
			r.panic = nil
		}
	}()
	r.tree, r.err = encoding.NewUnmarshaller(enc).SetValidation(schema.ValidateAll).Unmarshal(ms, in)
	return
}

func entryPoints(enc encoding.EncType) []string {
	common := []string{"NewUnmarshaller", "NewUnmarshaller+DontValidate", "NewUnmarshaller+ValidateConfig+ValidateAll"}
	switch enc {
	case encoding.RFC7951:
		return append(common, "UnmarshalRFC7951", "UnmarshalRFC7951WithoutValidation")
	case encoding.JSON:
		return append(common, "UnmarshalJSON", "UnmarshalJSONWithoutValidation")
	}
	return append(common, "UnmarshalXML")
}

func decodeVia(ms schema.ModelSet, enc encoding.EncType, in []byte, via string) (tree datanode.DataNode, err error, pn any) {
	defer func() { pn = recover() }()
	switch via {
	case "NewUnmarshaller":
		tree, err = encoding.NewUnmarshaller(enc).Unmarshal(ms, in)
	case "NewUnmarshaller+DontValidate":
		tree, err = encoding.NewUnmarshaller(enc).SetValidation(schema.DontValidate).Unmarshal(ms, in)
	case "NewUnmarshaller+ValidateConfig+ValidateAll":
		tree, err = encoding.NewUnmarshaller(enc).SetValidation(schema.ValidateConfig).SetValidation(schema.ValidateAll).Unmarshal(ms, in)
	case "UnmarshalRFC7951":
		tree, err = encoding.UnmarshalRFC7951(ms, in)
	case "UnmarshalRFC7951WithoutValidation":
		tree, err = encoding.UnmarshalRFC7951WithoutValidation(ms, in)
	case "UnmarshalJSON":
		tree, err = encoding.UnmarshalJSON(ms, in)
	case "UnmarshalJSONWithoutValidation":
		tree, err = encoding.UnmarshalJSONWithoutValidation(ms, encoding.Config, in)
	case "UnmarshalXML":
		tree, err = encoding.UnmarshalXML(ms, in)
	}
	return
}

type rec struct {
	Tree  *D     `json:"tree,omitempty"`
	Enc   string `json:"enc"`
	Input string `json:"input_quoted,omitempty"`
}

var model schema.ModelSet

func getModel() (schema.ModelSet, string) {
	if model != nil {
		return model, ""
	}
	r := gen.Compile(map[string]string{"a": modA, "b": modB}, gen.Options{})
	if !r.OK() {
		return nil, fmt.Sprintf("%s %v %v", r.Verdict(), r.Err, r.Panic)
	}
	model = r.MS
	return model, ""
}

func encByName(n string) encoding.EncType {
	for k, v := range encNames {
		if v == n {
			return k
		}
	}
	return encoding.JSON
}

func slotClass(t *D) string {
	var names []string
	for _, k := range t.Kids[0].Kids {
		names = append(names, k.Name)
	}
	sort.Strings(names)
	return strings.Join(names, "+")
}

func checkRoundTrip(ms schema.ModelSet, t *D, enc encoding.EncType) (vs []engine.Violation, bytesOut []byte) {
	mk := func(key, detail string) {
		vs = append(vs, engine.Violation{Key: key, Witness: fmt.Sprintf("%s tree=%s", encNames[enc], show(t)), Detail: detail, Harness: "roundtrip", Replay: engine.JSON(rec{Tree: t, Enc: encNames[enc]})})
	}
	orig := t.node()
	b, p := encode(ms, enc, orig)
	if p != nil {
		mk("encoder-panic:"+encNames[enc]+":"+slotClass(t), fmt.Sprint(p))
		return vs, nil
	}
	r := decode(ms, enc, b, []int{})
	cls := encNames[enc] + ":" + slotClass(t)
	switch {
	case r.horizon:
		mk("decoder-nonterminating:"+cls, string(b))
	case r.panic != nil:
		mk("decoder-panic:"+cls, fmt.Sprint(r.panic)+" on "+string(b))
	case r.err != nil:
		mk("own-encoding-rejected:"+cls, fmt.Sprintf("%v on %s", r.err, b))
	default:
		want, got := canon(orig), canon(r.tree)
		if want != got {
			mk("round-trip-differs:"+cls, fmt.Sprintf("encoded %s\nexpected %q\ngot      %q", b, want, got))
			return vs, b
		}
		// every other way into the decoders (package functions with and without validation, an
		// Unmarshaller with its default settings and with validation off) gives the same tree for
		// this valid input
		for _, via := range entryPoints(enc) {
			tree, err, pn := decodeVia(ms, enc, b, via)
			if pn != nil || err != nil || tree == nil || canon(tree) != want {
				mk("entry-point-decodes-differently:"+via+":"+slotClass(t), fmt.Sprintf("encoded %s\nthrough %s: err=%v panic=%v\nexpected %q\ngot      %q", b, via, err, pn, want, func() string {
					if tree != nil {
						return canon(tree)
					}
					return ""
				}()))
				return vs, b
			}
		}
		// every map order of the reader gives the same tree
		for i, n := range r.choices {
			for alt := 1; alt < n; alt++ {
				order := make([]int, i+1)
				order[i] = alt
				r2 := decode(ms, enc, b, order)
				if r2.err != nil || r2.panic != nil || canon(r2.tree) != want {
					mk("decoded-tree-depends-on-map-order:"+cls, fmt.Sprintf("order %v: err=%v panic=%v tree=%q", order, r2.err, r2.panic, func() string {
						if r2.tree != nil {
							return canon(r2.tree)
						}
						return ""
					}()))
					return vs, b
				}
			}
		}
	}
	return vs, b
}

func show(t *D) string {
	if len(t.Kids) == 0 {
		return t.Name + "=" + strings.Join(t.Values, ",")
	}
	var p []string
	for _, k := range t.Kids {
		p = append(p, show(k))
	}
	return t.Name + "{" + strings.Join(p, " ") + "}"
}

// ---------------------------------------------------------------- totality

// leafValuesValid walks the decoded tree and validates every leaf value.
func leafValuesValid(sn schema.Node, n datanode.DataNode, path string, bad *[]string, depth int) {
	if depth > 30 || sn == nil {
		return
	}
	seen := map[string]bool{}
	_, parentIsList := sn.(schema.List)
	for _, k := range n.YangDataChildrenNoSorting() {
		csn := sn.Child(k.YangDataName())
		p := path + "/" + k.YangDataName()
		// a node occurs once under its parent (entries of a list excepted: they are told apart by their keys)
		if seen[k.YangDataName()] && !parentIsList {
			*bad = append(*bad, p+": the decoded tree has this node twice under one parent")
		}
		seen[k.YangDataName()] = true
		if csn == nil {
			*bad = append(*bad, p+": no such schema node")
			continue
		}
		switch csn.(type) {
		case schema.Leaf, schema.LeafList:
			for _, v := range k.YangDataValuesNoSorting() {
				func() {
					defer func() {
						if r := recover(); r != nil {
							*bad = append(*bad, fmt.Sprintf("%s: Validate panics: %v", p, r))
						}
					}()
					if err := csn.Type().Validate(nil, []string{}, v); err != nil {
						*bad = append(*bad, fmt.Sprintf("%s=%q: %v", p, v, err))
					}
				}()
			}
		default:
			leafValuesValid(csn, k, p, bad, depth+1)
		}
	}
}

// jsonLiterals extracts leaf literals from a JSON text: path -> literal text
func jsonLiterals(in []byte) map[string][]string {
	dec := json.NewDecoder(bytes.NewReader(in))
	dec.UseNumber()
	var v any
	if dec.Decode(&v) != nil {
		return nil
	}
	out := map[string][]string{}
	var walk func(path string, x any)
	strip := func(k string) string {
		if i := strings.Index(k, ":"); i >= 0 {
			return k[i+1:]
		}
		return k
	}
	walk = func(path string, x any) {
		switch t := x.(type) {
		case map[string]any:
			for k, c := range t {
				walk(path+"/"+strip(k), c)
			}
		case []any:
			for _, c := range t {
				walk(path, c)
			}
		case json.Number:
			out[path] = append(out[path], "N"+t.String())
		case string:
			out[path] = append(out[path], "S"+t)
		case bool:
			out[path] = append(out[path], "B"+strconv.FormatBool(t))
		case nil:
			out[path] = append(out[path], "Z")
		}
	}
	walk("", v)
	return out
}

// alteredValues reports leaves whose JSON number literal is not a value of the
// type although the decoder returned an accepted value for it.
func alteredValues(ms schema.ModelSet, tree datanode.DataNode, lits map[string][]string) []string {
	var bad []string
	var walk func(sn schema.Node, n datanode.DataNode, path string, depth int)
	walk = func(sn schema.Node, n datanode.DataNode, path string, depth int) {
		if depth > 30 || sn == nil {
			return
		}
		for _, k := range n.YangDataChildrenNoSorting() {
			csn := sn.Child(k.YangDataName())
			if csn == nil {
				continue
			}
			p := path + "/" + k.YangDataName()
			switch csn.(type) {
			case schema.Leaf, schema.LeafList:
				// list entries are named by their key value: strip them from the literal path
				lp := litPath(p)
				ls := lits[lp]
				vals := k.YangDataValuesNoSorting()
				if len(ls) != len(vals) {
					continue
				}
				for i, l := range ls {
					if l[0] != 'N' && l[0] != 'S' {
						continue
					}
					lit := l[1:]
					if lit == vals[i] {
						continue
					}
					if l[0] == 'N' && sameNumber(lit, vals[i]) {
						continue // e.g. 1e2 for 100: the same number in another spelling
					}
					if err := csn.Type().Validate(nil, []string{}, lit); err != nil {
						// the one legitimate rewriting: an identity written with its module name
						// (RFC 7951 6.8) is returned in the form the identityref type accepts
						if l[0] == 'S' && strings.HasSuffix(lit, ":"+vals[i]) && identityrefAccepts(csn.Type(), vals[i]) {
							continue
						}
						bad = append(bad, fmt.Sprintf("%s: input literal %s is not a value of the type but the decoder returned %q", p, lit, vals[i]))
					}
				}
			default:
				walk(csn, k, p, depth+1)
			}
		}
	}
	walk(ms, tree, "", 0)
	return bad
}

// identityrefAccepts: some identityref type (the type itself or a member of the union, nested
// unions included) accepts v.
func identityrefAccepts(t schema.Type, v string) bool {
	switch x := t.(type) {
	case schema.Identityref:
		return x.Validate(nil, []string{}, v) == nil
	case schema.Union:
		for _, m := range x.Typs() {
			if identityrefAccepts(m, v) {
				return true
			}
		}
	}
	return false
}

// xmlLiterals: path of local element names -> text of every element without child elements.
func xmlLiterals(in []byte) map[string][]string {
	dec := xml.NewDecoder(bytes.NewReader(in))
	out := map[string][]string{}
	var path []string
	var text []string
	var hasKids []bool
	for {
		tok, err := dec.Token()
		if err != nil {
			break
		}
		switch t := tok.(type) {
		case xml.StartElement:
			if len(hasKids) > 0 {
				hasKids[len(hasKids)-1] = true
			}
			path, text, hasKids = append(path, t.Name.Local), append(text, ""), append(hasKids, false)
		case xml.CharData:
			if len(text) > 0 {
				text[len(text)-1] += string(t)
			}
		case xml.EndElement:
			if len(path) == 0 {
				return nil
			}
			if !hasKids[len(hasKids)-1] && len(path) > 1 {
				p := "/" + strings.Join(path[1:], "/")
				out[p] = append(out[p], "S"+text[len(text)-1])
			}
			path, text, hasKids = path[:len(path)-1], text[:len(text)-1], hasKids[:len(hasKids)-1]
		}
	}
	return out
}

func sameNumber(a, b string) bool {
	x, ok1 := new(big.Float).SetPrec(256).SetString(a)
	y, ok2 := new(big.Float).SetPrec(256).SetString(b)
	return ok1 && ok2 && x.Cmp(y) == 0
}

// litPath removes list-entry path elements (the element after a list name).
func litPath(p string) string {
	parts := strings.Split(strings.TrimPrefix(p, "/"), "/")
	var out []string
	for i := 0; i < len(parts); i++ {
		out = append(out, parts[i])
		if (parts[i] == "li" || parts[i] == "ls2" || parts[i] == "l2k") && i+1 < len(parts) {
			i++ // skip the entry name
		}
	}
	return "/" + strings.Join(out, "/")
}

func checkInput(ms schema.ModelSet, enc encoding.EncType, in []byte) (vs []engine.Violation, decoded bool) {
	mk := func(key, detail string) {
		vs = append(vs, engine.Violation{Key: key, Witness: encNames[enc] + ":" + strconv.Quote(string(in)), Detail: detail, Harness: "input", Replay: engine.JSON(rec{Enc: encNames[enc], Input: strconv.Quote(string(in))})})
	}
	r := decode(ms, enc, in, nil)
	switch {
	case r.horizon:
		mk("decoder-nonterminating:"+encNames[enc], "")
		return vs, false
	case r.panic != nil:
		mk("decoder-panic:"+encNames[enc]+":"+panicClass(r.panic), fmt.Sprint(r.panic))
		return vs, false
	case r.err != nil:
		return nil, false
	case r.tree == nil:
		mk("decoder-neither-tree-nor-error:"+encNames[enc], "")
		return vs, false
	}
	var bad []string
	leafValuesValid(ms, r.tree, "", &bad, 0)
	if len(bad) > 0 {
		mk("decoded-tree-does-not-conform:"+encNames[enc], strings.Join(bad, "; "))
	}
	lits := jsonLiterals(in)
	if enc == encoding.XML {
		lits = xmlLiterals(in)
	}
	if lits != nil {
		if alt := alteredValues(ms, r.tree, lits); len(alt) > 0 {
			mk("rejected-value-silently-altered:"+encNames[enc], strings.Join(alt, "; "))
		}
	}
	return vs, true
}

func panicClass(p any) string {
	s := fmt.Sprint(p)
	if len(s) > 60 {
		s = s[:60]
	}
	return strings.Map(func(r rune) rune {
		if r >= '0' && r <= '9' {
			return 'N'
		}
		return r
	}, s)
}

// valueToken: the token is a JSON string or number, or XML character data; inner is its text.
func valueToken(tok string, enc encoding.EncType) (inner string, ok bool) {
	if tok == "" {
		return "", false
	}
	if enc == encoding.XML {
		return tok, tok[0] != '<' && strings.TrimSpace(tok) != ""
	}
	if tok[0] == '"' && len(tok) >= 2 && !strings.ContainsAny(tok[1:len(tok)-1], "\\\"") {
		return tok[1 : len(tok)-1], true
	}
	if tok[0] == '-' || (tok[0] >= '0' && tok[0] <= '9') {
		return tok, true
	}
	return "", false
}

func jsonTokens(b []byte) []string {
	var toks []string
	s := string(b)
	for i := 0; i < len(s); {
		c := s[i]
		switch {
		case strings.ContainsRune("{}[]:,", rune(c)):
			toks = append(toks, string(c))
			i++
		case c == '"':
			j := i + 1
			for j < len(s) && s[j] != '"' {
				if s[j] == '\\' {
					j++
				}
				j++
			}
			toks = append(toks, s[i:min(j+1, len(s))])
			i = j + 1
		default:
			j := i
			for j < len(s) && !strings.ContainsRune("{}[]:,\"", rune(s[j])) {
				j++
			}
			toks = append(toks, s[i:j])
			i = j
		}
	}
	return toks
}

// xmlElementEnd: index of the end tag that closes the start tag at toks[i] (-1 if none).
func xmlElementEnd(toks []string, i int) int {
	depth := 0
	for j := i; j < len(toks); j++ {
		t := toks[j]
		switch {
		case strings.HasPrefix(t, "</"):
			depth--
			if depth == 0 {
				return j
			}
		case strings.HasPrefix(t, "<") && !strings.HasSuffix(t, "/>"):
			depth++
		}
	}
	return -1
}

func xmlTokens(b []byte) []string {
	var toks []string
	s := string(b)
	for i := 0; i < len(s); {
		if s[i] == '<' {
			j := strings.IndexByte(s[i:], '>')
			if j < 0 {
				toks = append(toks, s[i:])
				break
			}
			toks = append(toks, s[i:i+j+1])
			i += j + 1
		} else {
			j := strings.IndexByte(s[i:], '<')
			if j < 0 {
				j = len(s) - i
			}
			toks = append(toks, s[i:i+j])
			i += j
		}
	}
	return toks
}

var jsonAlpha = []string{"{", "}", "[", "]", ":", ",", "\"c\"", "\"a:c\"", "\"i8\"", "\"ls\"", "\"li\"", "\"k\"", "\"s\"", "\"x\"", "1", "-1", "1.5", "1e30", "300", "true", "null", "[null]"}
var xmlAlpha = []string{"<data>", "</data>", "<c xmlns=\"urn:a\">", "<c>", "</c>", "<i8>", "</i8>", "<ls>", "</ls>", "<li>", "</li>", "<k>", "</k>", "1", "x", "&amp;", "<", "<nosuch>", "</nosuch>", "<e/>"}

func run(c *engine.Ctx) {
	runSettingsHistories(c)
	ms, msg := getModel()
	if ms == nil {
		c.Report(engine.Violation{Key: "schema-does-not-compile", Detail: msg})
		return
	}
	runGenerated(c)
	sl := slots()
	var trees []*D
	add := func(kids ...*D) {
		trees = append(trees, &D{Name: "data", Kids: []*D{{Name: "c", Kids: kids}}})
	}
	nOne := 0
	for _, s := range sl {
		for _, v := range s {
			add(v)
			nOne++
		}
	}
	for i := range sl {
		for j := i + 1; j < len(sl); j++ {
			for _, v := range sl[i] {
				for _, w := range sl[j] {
					add(v, w)
				}
			}
		}
	}
	nTwo := len(trees)
	if !c.Quick() {
		for i := range sl {
			for j := i + 1; j < len(sl); j++ {
				for k := j + 1; k < len(sl); k++ {
					add(sl[i][0], sl[j][len(sl[j])-1], sl[k][0])
				}
			}
		}
	}
	encs := []encoding.EncType{encoding.RFC7951, encoding.JSON, encoding.XML}
	mutateUpTo := nOne
	if !c.Quick() {
		mutateUpTo = nTwo
	}
	for ti, t := range trees {
		if c.Expired() {
			return
		}
		if !c.Owns(fmt.Sprintf("tree:%d", ti)) {
			continue
		}
		for _, enc := range encs {
			if !c.Case(fmt.Sprintf("rt:%d:%s", ti, encNames[enc])) {
				continue
			}
			c.Add("states", 1)
			c.Add("transitions", 1)
			c.Nontrivial()
			vs, b := checkRoundTrip(ms, t, enc)
			c.Outcome(fmt.Sprintf("roundtrip:%s:viol=%v", encNames[enc], len(vs) > 0))
			for _, v := range vs {
				c.Report(v)
			}
			if b == nil || ti >= mutateUpTo {
				continue
			}
			// mutations of this encoding
			doIn := func(id string, in []byte) {
				if !c.Case(id) {
					return
				}
				c.Add("states", 1)
				c.Add("transitions", 1)
				vs, decoded := checkInput(ms, enc, in)
				if decoded {
					c.Nontrivial()
				}
				c.Outcome(fmt.Sprintf("input:%s:decoded=%v:viol=%v", encNames[enc], decoded, len(vs) > 0))
				for _, v := range vs {
					c.Report(v)
				}
			}
			for i := 0; i < len(b); i++ {
				doIn(fmt.Sprintf("pre:%d:%s:%d", ti, encNames[enc], i), b[:i])
			}
			toks, alpha := jsonTokens(b), jsonAlpha
			if enc == encoding.XML {
				toks, alpha = xmlTokens(b), xmlAlpha
			}
			for i := range toks {
				del := strings.Join(append(append([]string{}, toks[:i]...), toks[i+1:]...), "")
				doIn(fmt.Sprintf("del:%d:%s:%d", ti, encNames[enc], i), []byte(del))
				dup := strings.Join(append(append(append([]string{}, toks[:i+1]...), toks[i]), toks[i+1:]...), "")
				doIn(fmt.Sprintf("dup:%d:%s:%d", ti, encNames[enc], i), []byte(dup))
				for ai, a := range alpha {
					rep := strings.Join(append(append(append([]string{}, toks[:i]...), a), toks[i+1:]...), "")
					doIn(fmt.Sprintf("rep:%d:%s:%d:%d", ti, encNames[enc], i, ai), []byte(rep))
				}
				// XML: the element that starts here once more right behind itself, in the same and in
				// another namespace (a leaf or container may occur once; a foreign namespace is no excuse)
				if enc == encoding.XML && strings.HasPrefix(toks[i], "<") && !strings.HasPrefix(toks[i], "</") && !strings.HasSuffix(toks[i], "/>") && i > 0 {
					if end := xmlElementEnd(toks, i); end > 0 {
						elem := append([]string{}, toks[i:end+1]...)
						for ni, ns := range []string{"", "urn:other", "urn:b"} {
							cp := append([]string{}, elem...)
							if ns != "" {
								name := strings.Fields(strings.Trim(cp[0], "<>"))[0]
								cp[0] = "<" + name + " xmlns=\"" + ns + "\">"
							}
							rep := strings.Join(toks[:end+1], "") + strings.Join(cp, "") + strings.Join(toks[end+1:], "")
							doIn(fmt.Sprintf("xmlrep:%d:%d:%d", ti, i, ni), []byte(rep))
						}
					}
				}
				// a value written with a module name in front of it, as identities are: only an
				// identityref may lose that prefix again
				if inner, isValue := valueToken(toks[i], enc); isValue {
					for mi, mod := range []string{"a", "b", "nosuch"} {
						pv := mod + ":" + inner
						if enc != encoding.XML {
							pv = "\"" + pv + "\""
						}
						rep := strings.Join(append(append(append([]string{}, toks[:i]...), pv), toks[i+1:]...), "")
						doIn(fmt.Sprintf("pfx:%d:%s:%d:%d", ti, encNames[enc], i, mi), []byte(rep))
					}
				}
			}
		}
		if ti == 40 {
			b, _ := encode(ms, encoding.RFC7951, t.node())
			c.Sample(map[string]any{"tree": show(t), "rfc7951": string(b)})
		}
	}
	// a leaf-list node without values is not a valid data tree, but what the writers emit for it must at least be well-formed
	for _, enc := range []encoding.EncType{encoding.RFC7951, encoding.JSON} {
		t := &D{Name: "data", Kids: []*D{{Name: "c", Kids: []*D{lf("s", "x"), lf("ll"), lf("ls")}}}}
		if c.Owns("emptyll:"+encNames[enc]) && c.Case("emptyll:"+encNames[enc]) {
			b, p := encode(ms, enc, t.node())
			if p != nil || !json.Valid(b) {
				c.Report(engine.Violation{Key: "malformed-json-output:" + encNames[enc], Witness: show(t), Detail: fmt.Sprintf("panic=%v output=%s", p, b), Harness: "roundtrip", Replay: engine.JSON(rec{Tree: t, Enc: encNames[enc]})})
			}
		}
	}
	// values that their type refuses, one leaf at a time, in every encoding: an error, whatever the
	// type has to say about what it would have accepted (us, idn: nothing)
	for li, lv := range [][2]string{{"us", "1"}, {"us", "ABCDEF"}, {"idn", "x"}, {"idn", "lonely"}, {"idn", "a:lonely"}, {"en", "z"}, {"un", "zz"}, {"b", "True"}, {"i8", "128"}, {"d", "1.234"}, {"idr", "nosuch"}, {"ls", "256"}, {"e", "x"}} {
		for _, enc := range encs {
			var in string
			switch enc {
			case encoding.XML:
				in = "<data><c xmlns=\"urn:a\"><" + lv[0] + ">" + lv[1] + "</" + lv[0] + "></c></data>"
			case encoding.RFC7951:
				in = "{\"a:c\":{\"" + lv[0] + "\":\"" + lv[1] + "\"}}"
			default:
				in = "{\"c\":{\"" + lv[0] + "\":\"" + lv[1] + "\"}}"
			}
			id := fmt.Sprintf("refused:%d:%s", li, encNames[enc])
			if !c.Owns(id) || !c.Case(id) {
				continue
			}
			c.Add("states", 1)
			c.Nontrivial()
			vs, decoded := checkInput(ms, enc, []byte(in))
			if decoded {
				vs = append(vs, engine.Violation{Key: "refused-value-decoded:" + lv[0], Witness: in, Detail: "the decoder accepts a value outside the leaf's type", Harness: "input", Replay: engine.JSON(rec{Enc: encNames[enc], Input: strconv.Quote(in)})})
			}
			c.Outcome(fmt.Sprintf("refused:%s:decoded=%v:viol=%v", encNames[enc], decoded, len(vs) > 0))
			for _, v := range vs {
				c.Report(v)
			}
		}
	}
	// token strings
	maxLen := 3
	if !c.Quick() {
		maxLen = 4
	}
	for _, enc := range encs {
		alpha := jsonAlpha
		if enc == encoding.XML {
			alpha = xmlAlpha
		}
		var rec func(p []string)
		rec = func(p []string) {
			if c.Expired() {
				return
			}
			if len(p) >= 2 || c.Shard == 0 {
				in := strings.Join(p, "")
				if c.Case(fmt.Sprintf("tok:%s:%q", encNames[enc], in)) {
					c.Add("states", 1)
					vs, decoded := checkInput(ms, enc, []byte(in))
					c.Outcome(fmt.Sprintf("tokens:%s:decoded=%v", encNames[enc], decoded))
					for _, v := range vs {
						c.Report(v)
					}
				}
			}
			if len(p) == maxLen {
				return
			}
			for _, a := range alpha {
				next := append(append([]string{}, p...), a)
				if len(next) == 2 && !c.Owns(encNames[enc]+strings.Join(next, "\x01")) {
					continue
				}
				c.Add("transitions", 1)
				rec(next)
			}
		}
		rec(nil)
	}
	for i := range identityInputs {
		id := fmt.Sprintf("identity:%d", i)
		if c.Owns(id) && c.Case(id) {
			c.Add("states", 1)
			vs := checkIdentityInput(ms, i)
			c.Outcome(fmt.Sprintf("identity-input:viol=%v", len(vs) > 0))
			for _, v := range vs {
				c.Report(v)
			}
		}
	}
	// hand-written decoder inputs with values next to the type bounds
	for i, in := range []string{
		`{"c":{"i8":1.5}}`, `{"c":{"i8":127.9}}`, `{"c":{"i8":1e2}}`, `{"c":{"i8":128}}`, `{"c":{"u64":18446744073709551615}}`, `{"c":{"u64":18446744073709551616}}`,
		`{"c":{"i64":9223372036854775807}}`, `{"c":{"i64":-9223372036854775808}}`, `{"c":{"i64":9223372036854775808}}`, `{"c":{"ls":[1,2.5]}}`, `{"c":{"ls":[256]}}`,
		`{"c":{"un":1.5}}`, `{"c":{"d":1.5}}`, `{"c":{"s":5}}`, `{"c":{"b":"true"}}`, `{"c":{"e":null}}`, `{"c":{"e":[null]}}`, `{"c":{"i8":"5"}}`, `{"c":{"u64":"18446744073709551615"}}`,
	} {
		for _, enc := range []encoding.EncType{encoding.RFC7951, encoding.JSON} {
			id := fmt.Sprintf("hand:%d:%s", i, encNames[enc])
			if c.Owns(id) && c.Case(id) {
				c.Add("states", 1)
				vs, decoded := checkInput(ms, enc, []byte(in))
				c.Outcome(fmt.Sprintf("hand:%s:decoded=%v:viol=%v", encNames[enc], decoded, len(vs) > 0))
				for _, v := range vs {
					c.Report(v)
				}
			}
		}
	}
}

// identityInputs: XML identityref values with explicit prefix bindings; want "" =
// the value names no identity derived from the base and must be rejected.
var identityInputs = []struct{ leaf, attrs, text, want string }{
	{"idr", ``, "one", "one"}, {"idr", ``, "nosuch", ""}, {"idr", ` xmlns:x="urn:a"`, "x:one", "one"}, {"idr", ` xmlns:x="urn:a"`, "x:dup", "dup"},
	{"idr", ` xmlns:x="urn:b"`, "x:dup", "b:dup"}, {"idr", ` xmlns:x="urn:b"`, "x:two", "b:two"}, {"idr", ` xmlns:x="urn:b"`, "x:one", ""},
	{"idr", ` xmlns:x="urn:no-such"`, "x:one", ""}, {"idr", ` xmlns:x="urn:no-such"`, "x:two", ""}, {"idr", ` xmlns:x="urn:a"`, "x:two", ""},
	{"idrb", ` xmlns="urn:b"`, "two", "two"}, {"idrb", ` xmlns="urn:b"`, "dup", "dup"}, {"idrb", ` xmlns="urn:b" xmlns:x="urn:a"`, "x:dup", "a:dup"},
	{"idrb", ` xmlns="urn:b" xmlns:x="urn:a"`, "x:two", ""}, {"idrb", ` xmlns="urn:b" xmlns:x="urn:no-such"`, "x:dup", ""},
}

func checkIdentityInput(ms schema.ModelSet, i int) []engine.Violation {
	in := identityInputs[i]
	text := fmt.Sprintf(`<data><c xmlns="urn:a"><%s%s>%s</%s></c></data>`, in.leaf, in.attrs, in.text, in.leaf)
	r := decode(ms, encoding.XML, []byte(text), nil)
	mk := func(key, detail string) []engine.Violation {
		return []engine.Violation{{Key: key, Witness: "xml:" + text, Detail: detail, Harness: "identity", Replay: engine.JSON(map[string]int{"identity": i})}}
	}
	switch {
	case r.panic != nil || r.horizon:
		return mk("decoder-panic:xml:identityref", fmt.Sprint(r.panic))
	case in.want == "" && r.err == nil && r.tree != nil:
		return mk("rejected-value-silently-altered:xml:identityref", "the value names no identity of the base; decoded as "+canon(r.tree))
	case in.want != "" && (r.err != nil || r.tree == nil):
		return mk("valid-identityref-rejected:xml", fmt.Sprint(r.err))
	case in.want != "" && canon(r.tree) != "/c\n/c/"+in.leaf+"="+in.want:
		return mk("identityref-decoded-as-another-identity:xml", fmt.Sprintf("expected %s=%s, got %q", in.leaf, in.want, canon(r.tree)))
	}
	return nil
}

// ---------------------------------------------------------------- generated schemas

type genRec struct {
	Schema []*c18.S `json:"schema"`
	Tree   *c18.D   `json:"tree"`
	Enc    string   `json:"enc"`
}

// canonG renders a tree with siblings and values sorted (generated schemas are system-ordered).
func canonG(n datanode.DataNode) string { return canonGn(n, true) }

func canonGn(n datanode.DataNode, root bool) string {
	name := n.YangDataName()
	if root {
		name = "" // the name of the root is not data
	}
	kids := n.YangDataChildrenNoSorting()
	if len(kids) == 0 {
		vals := append([]string{}, n.YangDataValuesNoSorting()...)
		sort.Strings(vals)
		return name + "=" + strings.Join(vals, "\x1f")
	}
	var parts []string
	for _, k := range kids {
		parts = append(parts, canonGn(k, false))
	}
	sort.Strings(parts)
	return name + "{" + strings.Join(parts, " ") + "}"
}

var genModel struct {
	key string
	ms  schema.ModelSet
}

func checkGenerated(r genRec) (vs []engine.Violation) {
	text := "module a { namespace \"urn:a\"; prefix a; " + c18.SchemaText(r.Schema) + " }"
	if genModel.key != text {
		res := gen.Compile(map[string]string{"a": text}, gen.Options{})
		genModel.key, genModel.ms = text, nil
		if res.OK() {
			genModel.ms = res.MS
		}
	}
	ms := genModel.ms
	if ms == nil {
		// the generator only produces valid YANG: a schema that does not compile is a harness defect
		return []engine.Violation{{Key: "harness-generated-schema-does-not-compile", Witness: text, Detail: text, Harness: "generated", Replay: engine.JSON(r)}}
	}
	enc := encByName(r.Enc)
	mk := func(key, detail string) {
		vs = append(vs, engine.Violation{Key: key, Witness: fmt.Sprintf("%s schema {%s} tree %s", r.Enc, c18.SchemaText(r.Schema), r.Tree), Detail: detail, Harness: "generated", Replay: engine.JSON(r)})
	}
	orig := (&c18.D{Name: "data", Kids: r.Tree.Kids}).Node()
	b, p := encode(ms, enc, orig)
	if p != nil {
		mk("encoder-panic:generated:"+r.Enc, fmt.Sprint(p))
		return
	}
	d := decode(ms, enc, b, nil)
	switch {
	case d.horizon || d.panic != nil:
		mk("decoder-panic:generated:"+r.Enc, fmt.Sprint(d.panic)+" on "+string(b))
	case d.err != nil:
		mk("own-encoding-rejected:generated:"+r.Enc+":"+shapeOf(r.Schema), fmt.Sprintf("%v on %s", d.err, b))
	case canonG(orig) != canonG(d.tree):
		mk("round-trip-differs:generated:"+r.Enc+":"+shapeOf(r.Schema), fmt.Sprintf("encoded %s\nexpected %s\ngot      %s", b, canonG(orig), canonG(d.tree)))
	}
	return
}

// shapeOf: node kinds of the schema (for finding keys).
func shapeOf(kids []*c18.S) string {
	var b strings.Builder
	for i, k := range kids {
		if k.Kind == "leaf" && k.Name == "k" {
			continue
		}
		if i > 0 {
			b.WriteString(",")
		}
		b.WriteString(k.Kind)
		if k.Presence {
			b.WriteString("!p")
		}
		if len(k.Kids) > 0 {
			b.WriteString("{" + shapeOf(k.Kids) + "}")
		}
	}
	return b.String()
}

var valueMaps = []func(string) string{
	func(v string) string { return v },
	func(v string) string {
		if v == "k1" || v == "v" || v == "1" {
			return ""
		}
		return v
	},
	func(v string) string { return v + "<&\"'\\>/ \u00e9" },
}

// mapValues returns a copy of the tree with every leaf value (and with it the name of the list
// entry a key value identifies) replaced.
func mapValues(d *c18.D, f func(string) string) *c18.D {
	c := &c18.D{Name: d.Name}
	for _, v := range d.Values {
		c.Values = append(c.Values, f(v))
	}
	for _, k := range d.Kids {
		c.Kids = append(c.Kids, mapValues(k, f))
	}
	// a list entry is named after its key value: entries are the children of a node whose children
	// all start with a key leaf carrying the child's name
	for i, k := range d.Kids {
		if len(k.Kids) > 0 && len(k.Kids[0].Values) == 1 && k.Kids[0].Values[0] == k.Name {
			c.Kids[i].Name = f(k.Name)
		}
	}
	return c
}

func runGenerated(c *engine.Ctx) {
	sb, db := 3, 5
	if !c.Quick() {
		sb, db = 4, 6
	}
	all := c18.GenSchemas(sb)
	// every schema a second time with names that are unique among siblings only
	// (the first node of every container is called like the list keys)
	for _, kids := range all[:len(all):len(all)] {
		all = append(all, c18.RenameShared(kids))
	}
	c.Note(fmt.Sprintf("%d generated schemas of <= %d nodes (each with globally unique names and with names shared between levels) x valid data trees of <= %d nodes x 3 encodings", len(all), sb, db))
	for gi, kids := range all {
		if c.Expired() {
			return
		}
		if !c.Owns(fmt.Sprintf("gen:%d", gi)) {
			continue
		}
		for ti, t := range c18.DataTrees(kids, db) {
			root0 := &c18.D{Name: "root", Kids: t}
			if len(t) == 0 || !c18.ValidTree(kids, root0) {
				continue
			}
			// the same tree with other strings as values (every generated leaf is a string): the first
			// key and the plain value empty; every value with the characters the encodings escape
			for vi, vm := range valueMaps {
				root := mapValues(root0, vm)
				for _, enc := range []string{"rfc7951", "json", "xml"} {
					if !c.Case(fmt.Sprintf("g%d:%d:%d:%s", gi, ti, vi, enc)) {
						continue
					}
					c.Add("states", 1)
					c.Add("transitions", 1)
					vs := checkGenerated(genRec{kids, root, enc})
					c.Outcome(fmt.Sprintf("generated:%s:values=%d:viol=%v", enc, vi, len(vs) > 0))
					for _, v := range vs {
						c.Report(v)
					}
				}
			}
		}
	}
}

func replay(c *engine.Ctx, sub string, raw json.RawMessage) []engine.Violation {
	if sub == "settings" {
		return replaySettings(raw)
	}
	if sub == "generated" {
		var r genRec
		if json.Unmarshal(raw, &r) != nil || r.Tree == nil {
			return []engine.Violation{{Key: "harness-bad-replay-file"}}
		}
		return checkGenerated(r)
	}
	if sub == "identity" {
		var m map[string]int
		ms, _ := getModel()
		if json.Unmarshal(raw, &m) != nil || ms == nil || m["identity"] < 0 || m["identity"] >= len(identityInputs) {
			return []engine.Violation{{Key: "harness-bad-replay-file"}}
		}
		return checkIdentityInput(ms, m["identity"])
	}
	var r rec
	if json.Unmarshal(raw, &r) != nil {
		return []engine.Violation{{Key: "harness-bad-replay-file"}}
	}
	ms, msg := getModel()
	if ms == nil {
		return []engine.Violation{{Key: "schema-does-not-compile", Detail: msg}}
	}
	if r.Tree != nil {
		vs, _ := checkRoundTrip(ms, r.Tree, encByName(r.Enc))
		return vs
	}
	in, _ := strconv.Unquote(r.Input)
	vs, _ := checkInput(ms, encByName(r.Enc), []byte(in))
	return vs
}
