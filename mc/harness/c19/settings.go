package c19

import (
	"encoding/json"
	"fmt"

	"verif/engine"
	"verif/gen"

	"github.com/sdcio/yang-parser/data/encoding"
	"github.com/sdcio/yang-parser/schema"
)

// Unmarshaller settings do not travel: every sequence of <= 3 decodings, each through a NEW
// unmarshaller that is used with its default settings (D: must reject the document that lacks a
// mandatory leaf) or switched to DontValidate first (N: must return the tree), over the three
// encodings.  The verdict of each decoding is the verdict it has alone.

const settingsModule = `module v { namespace "urn:v"; prefix v; container c { leaf m { type string; mandatory true; } leaf o { type string; } } }`

var settingsDocs = map[string]string{
	"rfc7951": `{"v:c":{"o":"x"}}`,
	"json":    `{"c":{"o":"x"}}`,
	"xml":     `<data><c xmlns="urn:v"><o>x</o></c></data>`,
}

type settingsOp struct {
	Enc  string `json:"enc"`
	Mode string `json:"mode"` // D default settings | N DontValidate
}

var settingsMS schema.ModelSet

func settingsModel() schema.ModelSet {
	if settingsMS == nil {
		if r := gen.Compile(map[string]string{"v": settingsModule}, gen.Options{}); r.OK() {
			settingsMS = r.MS
		}
	}
	return settingsMS
}

func performSettings(ms schema.ModelSet, o settingsOp) (verdict string) {
	defer func() {
		if p := recover(); p != nil {
			verdict = fmt.Sprint("panic: ", p)
		}
	}()
	u := encoding.NewUnmarshaller(encByName(o.Enc))
	if o.Mode == "N" {
		u = u.SetValidation(schema.DontValidate)
	}
	if _, err := u.Unmarshal(ms, []byte(settingsDocs[o.Enc])); err != nil {
		return "error"
	}
	return "tree"
}

// settingsLog: every decoding this process has made so far (histories are not separated by a reset -
// there is none - so the replay artefact of a violation is the whole log up to it).
var settingsLog []settingsOp

func checkSettingsHistory(h []settingsOp) []engine.Violation {
	ms := settingsModel()
	if ms == nil {
		return []engine.Violation{{Key: "harness-settings-schema-does-not-compile"}}
	}
	for i, o := range h {
		want := map[string]string{"D": "error", "N": "tree"}[o.Mode]
		settingsLog = append(settingsLog, o)
		if got := performSettings(ms, o); got != want {
			return []engine.Violation{{Key: "unmarshaller-settings-leak:" + o.Enc + ":" + o.Mode, Witness: fmt.Sprintf("%d decodings ending in %v", len(settingsLog), h[:i+1]),
				Detail: fmt.Sprintf("decoding %d of this process (a new %s unmarshaller, mode %s) gives %q, alone it gives %q; the replay file holds all decodings made before it", len(settingsLog), o.Enc, o.Mode, got, want), Harness: "settings", Replay: engine.JSON(settingsLog)}}
		}
	}
	return nil
}

func runSettingsHistories(c *engine.Ctx) {
	var alpha []settingsOp
	for _, enc := range []string{"rfc7951", "json", "xml"} {
		alpha = append(alpha, settingsOp{enc, "D"}, settingsOp{enc, "N"})
	}
	var rec func(h []settingsOp)
	rec = func(h []settingsOp) {
		if len(h) > 0 {
			id := fmt.Sprintf("settings:%v", h)
			if c.Owns(id) && c.Case(id) {
				c.Add("states", 1)
				c.Add("transitions", int64(len(h)))
				c.Nontrivial()
				vs := checkSettingsHistory(h)
				c.Outcome(fmt.Sprintf("settings:viol=%v", len(vs) > 0))
				for _, v := range vs {
					c.Report(v)
				}
			}
		}
		if len(h) == 3 {
			return
		}
		for _, o := range alpha {
			rec(append(append([]settingsOp{}, h...), o))
		}
	}
	rec(nil)
}

func replaySettings(raw json.RawMessage) []engine.Violation {
	var h []settingsOp
	if json.Unmarshal(raw, &h) != nil || len(h) == 0 {
		return []engine.Violation{{Key: "harness-bad-replay-file"}}
	}
	return checkSettingsHistory(h)
}
