// Package c12: uses, refine and augment expand to the equivalent inline definition.
package c12

import (
	"encoding/json"
	"fmt"
	"regexp"
	"strings"

	"verif/engine"
	"verif/gen"
)

func init() {
	engine.Register(&engine.Harness{
		Prop:   "C12",
		Run:    run,
		Replay: replay,
		Rule: "E1 over grouping structures with a differential oracle: one abstract structure (grouping body from an 8-item menu, optional nested uses (at the top level of the grouping or inside a container of its body), definition site: same module / imported module / submodule, use site: module top / container / list / case / another grouping / own augment, one refinement from a menu of 9 incl. a nested target path, an augment inside the uses, when / if-feature / status on the uses, top-level augments of the own and of an imported module, deliberate sibling clashes and inapplicable refinements; plus 7 hand-written pairs with groupings defined in nested and sibling scopes; plus two modules using the same imported grouping with every pair of modifications in one compilation) is rendered twice: with grouping/uses/refine/augment, and inlined (bodies copied in place, refinements applied textually, when/if-feature/status copied onto every introduced node). " +
			"Both are compiled by the real compiler and the canonical dumps must be equal; for nodes introduced by a uses/augment carrying a when, the run-as-parent flag is checked separately and excluded from the comparison; for cross-module augments the introduced subtree is compared after substituting the augmenting module's name and namespace. Clashes and inapplicable refinements must be errors. Non-trivial = every structure (each contains a uses or an augment).",
		Bound: map[string]string{
			"quick":    "single-item bodies x 2 nestings x 3 definition sites x 6 use sites x one modification at a time (13)",
			"thorough": "two-item bodies and pairs of modifications",
		},
		Assumptions: []string{"only the text transformation (inlining) is trusted; it is applied by the generator to its own abstract structure"},
	})
}

// N is an abstract schema node.
type N struct {
	Kind  string // leaf leaf-list container list choice case
	Name  string
	Type  string   // leaf type name ("string", "int8", "T" = typedef t)
	Props []string // extra statements rendered verbatim, e.g. `default "x";`
	Kids  []*N
}

func (n *N) clone() *N {
	c := &N{Kind: n.Kind, Name: n.Name, Type: n.Type, Props: append([]string{}, n.Props...)}
	for _, k := range n.Kids {
		c.Kids = append(c.Kids, k.clone())
	}
	return c
}

func (n *N) render(typedefPrefix string) string {
	var b strings.Builder
	fmt.Fprintf(&b, "%s %s {", n.Kind, n.Name)
	if n.Kind == "leaf" || n.Kind == "leaf-list" {
		t := n.Type
		if t == "T" {
			t = typedefPrefix + "t"
		}
		fmt.Fprintf(&b, " type %s;", t)
	}
	if n.Kind == "list" {
		b.WriteString(" key k;")
	}
	for _, p := range n.Props {
		// GFEAT: a feature of the module that defines the grouping (prefixed like its typedef when
		// the text is written in another module)
		// GOFF: the defining module's feature "off" - the using module has a feature of the same name
		b.WriteString(" " + strings.ReplaceAll(strings.ReplaceAll(p, "GFEAT", typedefPrefix+"gfeat"), "GOFF", typedefPrefix+"off"))
	}
	for _, k := range n.Kids {
		b.WriteString(" " + k.render(typedefPrefix))
	}
	b.WriteString(" }")
	return b.String()
}

func find(nodes []*N, path string) *N {
	parts := strings.Split(path, "/")
	cur := nodes
	var n *N
	for _, p := range parts {
		n = nil
		for _, c := range cur {
			if c.Name == p {
				n = c
			}
			// look through choice/case: schema node ids include them, so no
		}
		if n == nil {
			return nil
		}
		cur = n.Kids
	}
	return n
}

func lf(name, typ string, props ...string) *N {
	return &N{Kind: "leaf", Name: name, Type: typ, Props: props}
}

// body menu
func bodyMenu() map[string][]*N {
	return map[string][]*N{
		"leaf":      {lf("l", "string")},
		"leaf-def":  {lf("l", "string", `default "dv";`)},
		"container": {{Kind: "container", Name: "c", Kids: []*N{lf("l", "string"), lf("m", "int8")}}},
		"list":      {{Kind: "list", Name: "li", Kids: []*N{lf("k", "string"), lf("v", "string")}}},
		"choice":    {{Kind: "choice", Name: "ch", Kids: []*N{{Kind: "case", Name: "ca", Kids: []*N{lf("x", "string")}}, lf("y", "string")}}},
		"leaf-list": {{Kind: "leaf-list", Name: "ll", Type: "string"}},
		"typedef":   {lf("l", "T")},
		"must":      {{Kind: "container", Name: "c", Props: []string{`must "l = 'x'" { error-message "em"; }`}, Kids: []*N{lf("l", "string")}}},
		// every statement a refine may carry is already there with another value: the refined one replaces it
		"prefilled": {lf("l", "string", `default "dv";`, `description "od";`),
			{Kind: "container", Name: "c", Props: []string{`presence "op";`, `description "oc";`, `config true;`}, Kids: []*N{lf("l", "string", `default "id";`), lf("m", "int8")}},
			{Kind: "leaf-list", Name: "ll", Type: "string", Props: []string{"min-elements 2;", "max-elements 7;"}}},
		"prefilled-list": {{Kind: "list", Name: "li", Props: []string{"min-elements 2;", "max-elements 9;", `description "ol";`}, Kids: []*N{lf("k", "string"), lf("v", "string")}}},
		// mandatory nodes (top-level augments only: fine in the own module, refused in another one)
		"mand-leaf":      {lf("l", "string", "mandatory true;")},
		"mand-choice":    {{Kind: "choice", Name: "ch", Props: []string{"mandatory true;"}, Kids: []*N{lf("x", "string"), lf("y", "string")}}},
		"mand-list":      {{Kind: "list", Name: "li", Props: []string{"min-elements 1;"}, Kids: []*N{lf("k", "string"), lf("v", "string")}}},
		"mand-container": {{Kind: "container", Name: "c", Kids: []*N{lf("l", "string", "mandatory true;"), lf("m", "int8")}}},
		// if-feature written inside the grouping: it names a feature of the defining module
		"iffeature": {{Kind: "container", Name: "c", Kids: []*N{lf("l", "string", "if-feature GFEAT;"), lf("m", "int8")}}, lf("top", "string", "if-feature GFEAT;")},
		// ... and one that names the defining module's feature "off" (enabled for an imported grouping)
		// while the using module's feature "off" is disabled: equal text, different features
		"iffeature-same": {{Kind: "container", Name: "c", Kids: []*N{lf("l", "string", "if-feature GOFF;"), lf("m", "int8")}}, lf("top", "string", "if-feature GOFF;")},
	}
}

var bodyNames = []string{"leaf", "leaf-def", "container", "list", "choice", "leaf-list", "typedef", "must", "iffeature", "iffeature-same", "prefilled", "prefilled-list"}

// Mod is one modification of the uses.
type Mod struct {
	Kind string `json:"kind"` // "", refine-*, augment, when, if-feature, status
}

var mods = []string{"", "augment-uses-when", "augment-uses-if-feature-off", "augment-uses-status", "augment-when", "refine-default", "refine-mandatory", "refine-config", "refine-presence", "refine-description", "refine-min", "refine-must", "refine-nested", "augment", "when", "if-feature", "if-feature-off", "status"}

type Structure struct {
	Body   []string `json:"body"`           // names from the menu
	Nested bool     `json:"nested"`         // the grouping uses a second grouping
	Deep   bool     `json:"deep,omitempty"` // ... from inside a container of its body (not at its top level)
	Def    string   `json:"def"`            // same | import | submodule
	Site   string   `json:"site"`           // top container list case grouping augment
	Mods   []string `json:"mods"`
	Clash  bool     `json:"clash"`
}

func (s Structure) String() string {
	return fmt.Sprintf("body=%v nested=%v deep=%v def=%s site=%s mods=%v clash=%v", s.Body, s.Nested, s.Deep, s.Def, s.Site, s.Mods, s.Clash)
}

type rendered struct {
	uses, inline map[string]string
	expect       string   // ok | error
	whenPaths    []string // nodes introduced by an augment with a when: run-as-parent required
	stripParent  bool     // a when was copied from a uses/augment: the flag is not part of the comparison
}

// applicable reports whether mod m can be applied to the body; target path and statement.
func modTarget(m string, body []*N) (target, stmt string, ok bool) {
	has := func(p string) bool { return find(body, p) != nil }
	kind := func(p string) string {
		if n := find(body, p); n != nil {
			return n.Kind
		}
		return ""
	}
	switch m {
	case "refine-default":
		if kind("l") == "leaf" {
			if find(body, "l").Type == "T" {
				return "l", `default "3";`, true
			}
			return "l", `default "rv";`, true
		}
	case "refine-mandatory":
		if kind("l") == "leaf" && !strings.Contains(strings.Join(find(body, "l").Props, " "), "default") {
			return "l", `mandatory true;`, true
		}
	case "refine-config":
		if has("c") {
			return "c", `config false;`, true
		}
	case "refine-presence":
		if kind("c") == "container" {
			return "c", `presence "rp";`, true
		}
	case "refine-description":
		for _, t := range []string{"l", "c", "li", "ll", "ch"} {
			if has(t) {
				return t, `description "rd";`, true
			}
		}
	case "refine-min":
		if kind("ll") == "leaf-list" {
			return "ll", `min-elements 1;`, true
		}
		if kind("li") == "list" {
			return "li", `min-elements 1;`, true
		}
	case "refine-must":
		if kind("c") == "container" {
			return "c", `must "m > 0";`, true
		}
	case "refine-nested":
		if has("c/l") {
			return "c/l", `default "nested";`, true
		}
	}
	return "", "", false
}

func build(s Structure) (r rendered, applicable bool) {
	if s.Def == "submodule" && strings.Contains(" "+strings.Join(s.Body, " ")+" ", " iffeature") {
		// the in-place variant would name a feature of the submodule from the module, which this
		// compiler does not resolve (see C14): no in-place equivalent to compare with
		return r, false
	}
	menu := bodyMenu()
	var body []*N
	for i, bn := range s.Body {
		for _, n := range menu[bn] {
			c := n.clone()
			if i > 0 {
				var ren func(x *N)
				ren = func(x *N) {
					if x.Name != "k" {
						x.Name += "2"
					}
					for _, k := range x.Kids {
						ren(k)
					}
				}
				ren(c)
				for j, p := range c.Props {
					c.Props[j] = strings.ReplaceAll(p, "\"l = 'x'\"", "\"l2 = 'x'\"")
				}
			}
			body = append(body, c)
		}
	}
	needsTypedef := false
	for _, bn := range s.Body {
		if bn == "typedef" {
			needsTypedef = true
		}
	}
	inner := []*N{lf("inner", "string", `default "in";`)}

	// --- the uses statement and its modifications
	usesExtra := ""
	inl := []*N{}
	for _, n := range body {
		inl = append(inl, n.clone())
	}
	if s.Nested && s.Deep {
		inl = append(inl, &N{Kind: "container", Name: "wrap", Kids: []*N{inner[0].clone()}})
	} else if s.Nested {
		inl = append(inl, inner[0].clone())
	}
	r.expect = "ok"
	for _, m := range s.Mods {
		switch {
		case m == "":
		case strings.HasPrefix(m, "refine-"):
			target, stmt, ok := modTarget(m, body)
			if !ok {
				return r, false
			}
			usesExtra += fmt.Sprintf(" refine %s { %s }", target, stmt)
			n := find(inl, target)
			// a refined statement replaces the one of the same keyword
			kw := strings.Fields(stmt)[0]
			var props []string
			for _, p := range n.Props {
				if strings.Fields(p)[0] != kw || kw == "must" {
					props = append(props, p)
				}
			}
			n.Props = append(props, stmt)
		case strings.HasPrefix(m, "augment-uses-"):
			// an augment inside the uses that carries when / if-feature / status and itself
			// contains a uses: the statement applies to the nodes of that inner uses too
			if !s.Nested {
				return r, false
			}
			tgt := ""
			for _, t := range []string{"c", "li"} {
				if find(body, t) != nil {
					tgt = t
					break
				}
			}
			if tgt == "" {
				return r, false
			}
			prop := map[string]string{"augment-uses-when": `when "k = 'on'";`, "augment-uses-if-feature-off": `if-feature off;`, "augment-uses-status": `status deprecated;`}[m]
			g2 := "g2"
			if s.Def == "import" {
				g2 = "b:g2"
			}
			usesExtra += fmt.Sprintf(" augment %s { %s leaf direct { type string; } uses %s; }", tgt, prop, g2)
			n := find(inl, tgt)
			d := lf("direct", "string", prop)
			in := inner[0].clone()
			in.Props = append(in.Props, prop)
			n.Kids = append(n.Kids, d, in)
			if m == "augment-uses-when" {
				r.whenPaths = append(r.whenPaths, "direct", in.Name)
			}
		case m == "augment" || m == "augment-when":
			tgt := ""
			for _, t := range []string{"c", "li", "ch"} {
				if find(body, t) != nil {
					tgt = t
					break
				}
			}
			if tgt == "" {
				return r, false
			}
			add := lf("added", "string")
			var addN *N = add
			if find(body, tgt).Kind == "choice" {
				addN = &N{Kind: "case", Name: "addedcase", Kids: []*N{add}}
			}
			if m == "augment-when" {
				// the when of an augment is evaluated on the augment's target: every node it
				// introduces carries it with run-as-parent (RFC 6020 7.15, and the property's
				// "when ... written on a uses or augment apply to every node it introduces")
				usesExtra += fmt.Sprintf(" augment %s { when \"k = 'on'\"; %s }", tgt, addN.render(""))
				in := addN.clone()
				in.Props = append(in.Props, `when "k = 'on'";`)
				n := find(inl, tgt)
				n.Kids = append(n.Kids, in)
				if addN.Kind == "case" {
					r.whenPaths = append(r.whenPaths, "{choice "+addN.Name+"}")
				} else {
					r.whenPaths = append(r.whenPaths, addN.Name)
				}
				break
			}
			usesExtra += fmt.Sprintf(" augment %s { %s }", tgt, addN.render(""))
			n := find(inl, tgt)
			n.Kids = append(n.Kids, addN.clone())
		case m == "when":
			usesExtra += ` when "../flag = 'on'";`
			for _, n := range inl {
				n.Props = append(n.Props, `when "../flag = 'on'";`)
			}
			r.stripParent = true
		case m == "if-feature":
			usesExtra += ` if-feature feat;`
			for _, n := range inl {
				n.Props = append(n.Props, `if-feature feat;`)
			}
		case m == "if-feature-off":
			usesExtra += ` if-feature off;`
			for _, n := range inl {
				n.Props = append(n.Props, `if-feature off;`)
			}
		case m == "status":
			usesExtra += ` status deprecated;`
			for _, n := range inl {
				n.Props = append(n.Props, `status deprecated;`)
			}
		}
	}

	// --- grouping definitions
	tdPrefixDef, tdPrefixUse := "", ""
	gref := "g"
	if s.Def == "import" {
		gref = "b:g"
		tdPrefixUse = "b:"
	}
	var gdef strings.Builder
	if needsTypedef {
		gdef.WriteString(" typedef t { type int8 { range \"1..5\"; } }")
	}
	if s.Nested {
		gdef.WriteString(" grouping g2 {")
		for _, n := range inner {
			gdef.WriteString(" " + n.render(tdPrefixDef))
		}
		gdef.WriteString(" }")
	}
	gdef.WriteString(" grouping g {")
	for _, n := range body {
		gdef.WriteString(" " + n.render(tdPrefixDef))
	}
	if s.Nested && s.Deep {
		gdef.WriteString(" container wrap { uses g2; }")
	} else if s.Nested {
		gdef.WriteString(" uses g2;")
	}
	gdef.WriteString(" }")

	usesStmt := "uses " + gref
	if usesExtra != "" {
		usesStmt += " {" + usesExtra + " }"
	} else {
		usesStmt += ";"
	}
	var inlText strings.Builder
	for _, n := range inl {
		inlText.WriteString(" " + n.render(tdPrefixUse))
	}
	clash := ""
	if s.Clash {
		clash = " leaf " + body[0].Name + " { type string; }"
		r.expect = "error"
	}

	site := func(content string) string {
		common := " leaf flag { type string; }" + clash
		switch s.Site {
		case "top":
			return common + " " + content
		case "container":
			return " container site {" + common + " " + content + " }"
		case "list":
			return " list site { key sk; leaf sk { type string; }" + common + " " + content + " }"
		case "case":
			return " choice sitech { case siteca {" + common + " " + content + " } leaf other { type string; } }"
		case "case-below-siblings":
			// the plain siblings (and the clashing one) stand in front of the choice, the uses inside a
			// case of it: the nodes of a case are siblings of the nodes around the choice
			return " container site {" + common + " choice sitech { case siteca { " + content + " } leaf other2 { type string; } } }"
		case "rpc-input":
			return " rpc op { input {" + common + " " + content + " } }"
		case "rpc-output":
			return " rpc op { output {" + common + " " + content + " } }"
		case "notification":
			return " notification ev {" + common + " " + content + " }"
		case "grouping":
			return " container site { uses outer; }"
		case "augment":
			return " container site { leaf base { type string; } } augment /a:site {" + common + " " + content + " }"
		}
		return content
	}
	header := "module a { namespace \"urn:a\"; prefix a;"
	if s.Def == "import" {
		header += " import b { prefix b; }"
	}
	if s.Def == "submodule" {
		header += " include s;"
	}
	header += " feature feat; feature off;"
	if s.Def != "submodule" {
		header += " feature gfeat;" // (a submodule does not see its module's features: there it is defined in the submodule)
	}
	typedefInA := ""
	if needsTypedef && s.Def != "import" && s.Def != "submodule" {
		typedefInA = ""
	}
	mkA := func(content string, withG bool) string {
		var b strings.Builder
		b.WriteString(header)
		if s.Def == "same" && withG {
			b.WriteString(gdef.String())
		} else if s.Def == "same" && needsTypedef {
			b.WriteString(" typedef t { type int8 { range \"1..5\"; } }")
		}
		if s.Def == "submodule" && !withG && needsTypedef {
			// the typedef still lives in the submodule
		}
		b.WriteString(typedefInA)
		if s.Site == "grouping" {
			b.WriteString(" grouping outer { leaf flag { type string; }" + clash + " " + content + " }")
		}
		b.WriteString(site(content))
		b.WriteString(" }")
		return b.String()
	}
	r.uses = map[string]string{"a": mkA(usesStmt, true)}
	r.inline = map[string]string{"a": mkA(strings.TrimSpace(inlText.String()), false)}
	if s.Site == "grouping" {
		// the inline variant has no outer grouping either
		in := header
		if s.Def == "same" && needsTypedef {
			in += " typedef t { type int8 { range \"1..5\"; } }"
		}
		in += " container site { leaf flag { type string; }" + clash + " " + strings.TrimSpace(inlText.String()) + " } }"
		r.inline["a"] = in
	}
	switch s.Def {
	case "import":
		b := "module b { namespace \"urn:b\"; prefix b; feature gfeat; feature off;" + gdef.String() + " }"
		bInl := "module b { namespace \"urn:b\"; prefix b; feature gfeat; feature off;"
		if needsTypedef {
			bInl += " typedef t { type int8 { range \"1..5\"; } }"
		}
		bInl += " }"
		r.uses["b"], r.inline["b"] = b, bInl
	case "submodule":
		sub := "submodule s { belongs-to a { prefix a; } feature gfeat;" + gdef.String() + " }"
		subInl := "submodule s { belongs-to a { prefix a; } feature gfeat;"
		if needsTypedef {
			subInl += " typedef t { type int8 { range \"1..5\"; } }"
		}
		subInl += " }"
		r.uses["s"], r.inline["s"] = sub, subInl
	}
	return r, true
}

var reParent = regexp.MustCompile(`parent=(true|false) `)
var reMach = regexp.MustCompile(` mach=\\"(?:[^\\]|\\[^"]|\\\\")*?\\"`)

func normalise(d string) string {
	return reParent.ReplaceAllString(d, "")
}

// The Space of a type name records the module in whose text the (unprefixed)
// type reference was written, not where the typedef lives; it is a label, not
// part of the schema, and differs between a copied and an in-place reference.
var reTypeSpace = regexp.MustCompile(`\{name=[A-Za-z0-9_.-]*\|`)

func stripTypeSpace(d string) string { return reTypeSpace.ReplaceAllString(d, "{name=|") }

type rec struct {
	S Structure `json:"structure"`
}

// featuresFor: 'feat' of the using module and 'gfeat' of the DEFINING module are enabled; for an
// imported grouping a:gfeat stays disabled, so resolving the grouping's if-feature in the using
// module changes the outcome.
func featuresFor(s Structure) []string {
	if s.Def == "import" {
		return []string{"a:feat", "b:gfeat", "b:off"}
	}
	return []string{"a:feat", "a:gfeat"}
}

func check(s Structure) (vs []engine.Violation, outcome string) {
	r, ok := build(s)
	if !ok {
		return nil, "inapplicable"
	}
	mk := func(key, detail string) {
		vs = append(vs, engine.Violation{Key: key, Witness: s.String(), Detail: detail + "\n--- uses variant: " + fmt.Sprint(r.uses) + "\n--- inline variant: " + fmt.Sprint(r.inline), Harness: "structure", Replay: engine.JSON(rec{s})})
	}
	opts := gen.Options{Features: featuresFor(s)}
	ru := gen.Compile(r.uses, opts)
	ri := gen.Compile(r.inline, opts)
	cls := fmt.Sprintf("site=%s:def=%s:mods=%v", s.Site, s.Def, s.Mods)
	switch {
	case ru.Verdict() == "panic" || ru.Verdict() == "nonterminating":
		mk("uses-variant-"+ru.Verdict()+":"+cls, fmt.Sprint(ru.Panic))
		return vs, "panic"
	case r.expect == "error":
		if ru.OK() {
			mk("sibling-clash-accepted:data-node-vs-"+s.Body[0], "the uses introduces a node whose name already exists at the use site")
		}
		return vs, "expected-error"
	case !ri.OK():
		// the combination is invalid when written in place (e.g. default and mandatory): the uses form must be rejected too
		if ru.OK() {
			mk("uses-variant-accepts-what-inline-rejects:"+cls, fmt.Sprintf("inline variant: %v %v", ri.Err, ri.Panic))
		}
		return vs, "both-rejected"
	case !ru.OK():
		mk("uses-variant-rejected:"+cls, ru.Err.Error())
		return vs, "uses-rejected"
	}
	du, di := gen.DumpString(ru.MS, gen.DumpOpts{}), gen.DumpString(ri.MS, gen.DumpOpts{})
	du, di = stripTypeSpace(du), stripTypeSpace(di)
	if len(r.whenPaths) > 0 {
		// every node introduced by the augment must carry the augment's when with run-as-parent set
		// (asserted on the raw dump; a node that is absent from the in-place variant too, e.g.
		// because a second modification disables its feature, has nothing to assert)
		for _, p := range r.whenPaths {
			found, exists := false, false
			for _, line := range strings.Split(di, "\n") {
				if strings.HasSuffix(strings.SplitN(line, " args=", 2)[0], "/"+p) {
					exists = true
				}
			}
			for _, line := range strings.Split(du, "\n") {
				if strings.HasSuffix(strings.SplitN(line, " args=", 2)[0], "/"+p) && strings.Contains(line, `parent=true`) {
					found = true
				}
			}
			if exists && !found {
				mk("uses-when-not-run-as-parent:"+cls, "node "+p+" introduced by a uses with a when statement does not carry the when with run-as-parent")
			}
		}
		du, di = normalise(du), normalise(di)
	}
	// module-level "Data()" and grouping bookkeeping are not in the dump; whens: strip run-as-parent
	if r.stripParent {
		du, di = normalise(du), normalise(di)
	}
	if du != di {
		mk("expansion-differs-from-inline:"+cls, gen.FirstDiff(du, di))
	}
	return vs, "compared"
}

// ---------------------------------------------------------------- scoped definitions

// scopePair: groupings defined in nested scopes (RFC 6020 5.5): the uses text and
// the same module written in place.
type scopePair struct {
	Name   string            `json:"name"`
	Uses   map[string]string `json:"uses"`
	Inline map[string]string `json:"inline"`
}

func scopePairs() []scopePair {
	a := func(body string) string { return "module a { namespace \"urn:a\"; prefix a; " + body + " }" }
	ab := func(body string) string {
		return "module a { namespace \"urn:a\"; prefix a; import b { prefix b; } " + body + " }"
	}
	b := func(body string) string { return "module b { namespace \"urn:b\"; prefix b; " + body + " }" }
	one := func(name, u, i string) scopePair {
		return scopePair{name, map[string]string{"a": a(u)}, map[string]string{"a": a(i)}}
	}
	return []scopePair{
		one("sibling-scopes-same-name",
			"container x { grouping g { leaf l { type string; } } uses g; } container y { grouping g { leaf m { type int8; } } uses g; }",
			"container x { leaf l { type string; } } container y { leaf m { type int8; } }"),
		one("sibling-scopes-same-name-in-list-and-case",
			"list x { key k; leaf k { type string; } grouping g { leaf l { type string; } } uses g; } choice ch { case ca { container y { grouping g { leaf m { type int8; } } uses g; } } }",
			"list x { key k; leaf k { type string; } leaf l { type string; } } choice ch { case ca { container y { leaf m { type int8; } } } }"),
		one("definition-inside-grouping",
			"grouping outer { grouping inner { leaf i { type string; } } container c { uses inner; } } container t { uses outer; }",
			"container t { container c { leaf i { type string; } } }"),
		one("same-name-inside-two-groupings",
			"grouping o1 { grouping in { leaf i { type string; } } container c1 { uses in; } } grouping o2 { grouping in { leaf j { type int8; } } container c2 { uses in; } } container t { uses o1; uses o2; }",
			"container t { container c1 { leaf i { type string; } } container c2 { leaf j { type int8; } } }"),
		one("inner-scope-definition-used-deeper",
			"container x { grouping g { leaf l { type string; } } container deep { container deeper { uses g; } } }",
			"container x { container deep { container deeper { leaf l { type string; } } } }"),
		{"imported-grouping-with-inner-definition",
			map[string]string{"a": ab("container t { uses b:outer; }"), "b": b("grouping outer { grouping inner { leaf i { type string; } } container c { uses inner; } }")},
			map[string]string{"a": ab("container t { container c { leaf i { type string; } } }"), "b": b("")}},
		{"same-name-in-module-and-import",
			map[string]string{"a": ab("grouping g { leaf l { type string; } } container t { uses g; container u { uses b:g; } }"), "b": b("grouping g { leaf m { type int8; } }")},
			map[string]string{"a": ab("container t { leaf l { type string; } container u { leaf m { type int8; } } }"), "b": b("")}},
	}
}

// siblingPairs: every sequence (length <= maxLen) of statements around uses
// statements at one site - a uses of an EMPTY grouping, a uses of a grouping that
// only uses the empty one, a uses of a one-leaf grouping, a container (list, case)
// with a uses inside, a plain leaf - at every site kind, with the groupings in the
// same module, an import or a submodule.  Each statement's expansion must not
// depend on what its neighbours expand to (in particular: to nothing).
func siblingPairs(maxLen int) []scopePair {
	syms := []string{"E", "N", "U", "C", "L", "K", "S"}
	type piece struct{ uses, inline string }
	mk := func(sym string, i int, pfx string) piece {
		switch sym {
		case "E":
			return piece{fmt.Sprintf("uses %se;", pfx), ""}
		case "N":
			return piece{fmt.Sprintf("uses %sne;", pfx), ""}
		case "U":
			return piece{fmt.Sprintf("uses %su%d;", pfx, i), fmt.Sprintf("leaf x%d { type string; }", i)}
		case "C":
			return piece{fmt.Sprintf("container c%d { uses %su%d; }", i, pfx, i), fmt.Sprintf("container c%d { leaf x%d { type string; } }", i, i)}
		case "L":
			return piece{fmt.Sprintf("leaf l%d { type string; }", i), fmt.Sprintf("leaf l%d { type string; }", i)}
		case "K":
			return piece{fmt.Sprintf("list k%d { key kk; leaf kk { type string; } uses %se; uses %su%d; }", i, pfx, pfx, i), fmt.Sprintf("list k%d { key kk; leaf kk { type string; } leaf x%d { type string; } }", i, i)}
		case "S":
			return piece{fmt.Sprintf("choice s%d { case sc%d { uses %sne; uses %su%d; } }", i, i, pfx, pfx, i), fmt.Sprintf("choice s%d { case sc%d { leaf x%d { type string; } } }", i, i, i)}
		}
		panic(sym)
	}
	var seqs [][]string
	var rec func(cur []string)
	rec = func(cur []string) {
		if len(cur) > 0 {
			hasEmpty := false
			for _, x := range cur {
				hasEmpty = hasEmpty || x == "E" || x == "N" || x == "K" || x == "S"
			}
			if hasEmpty {
				seqs = append(seqs, append([]string{}, cur...))
			}
		}
		if len(cur) == maxLen {
			return
		}
		for _, x := range syms {
			rec(append(cur, x))
		}
	}
	rec(nil)
	var out []scopePair
	for _, def := range []string{"same", "import", "submodule"} {
		pfx := ""
		if def == "import" {
			pfx = "b:"
		}
		gdefs := "grouping e { } grouping ne { uses e; }"
		for i := 0; i < maxLen; i++ {
			gdefs += fmt.Sprintf(" grouping u%d { leaf x%d { type string; } }", i, i)
		}
		for _, site := range []string{"top", "container", "list", "case", "grouping", "augment"} {
			for _, seq := range seqs {
				var us, is []string
				for i, x := range seq {
					pc := mk(x, i, pfx)
					us = append(us, pc.uses)
					if pc.inline != "" {
						is = append(is, pc.inline)
					}
				}
				wrap := func(content string, inline bool) string {
					switch site {
					case "container":
						return "container site { " + content + " }"
					case "list":
						return "list site { key sk; leaf sk { type string; } " + content + " }"
					case "case":
						return "choice sitech { case siteca { " + content + " } leaf other { type string; } }"
					case "grouping":
						if inline {
							return "container site { " + content + " }"
						}
						return "grouping outer { " + content + " } container site { uses outer; }"
					case "augment":
						return "container site { leaf base { type string; } } augment /a:site { " + content + " }"
					}
					return content
				}
				head := "module a { namespace \"urn:a\"; prefix a; "
				switch def {
				case "import":
					head += "import b { prefix b; } "
				case "submodule":
					head += "include s; "
				}
				sp := scopePair{Name: fmt.Sprintf("siblings:def=%s:site=%s:seq=%s", def, site, strings.Join(seq, "")), Uses: map[string]string{}, Inline: map[string]string{}}
				ua, ia := head, head
				if def == "same" {
					ua += gdefs + " "
				}
				sp.Uses["a"] = ua + wrap(strings.Join(us, " "), false) + " }"
				sp.Inline["a"] = ia + wrap(strings.Join(is, " "), true) + " }"
				switch def {
				case "import":
					sp.Uses["b"] = "module b { namespace \"urn:b\"; prefix b; " + gdefs + " }"
					sp.Inline["b"] = "module b { namespace \"urn:b\"; prefix b; }"
				case "submodule":
					sp.Uses["s"] = "submodule s { belongs-to a { prefix a; } " + gdefs + " }"
					sp.Inline["s"] = "submodule s { belongs-to a { prefix a; } }"
				}
				out = append(out, sp)
			}
		}
	}
	return out
}

func checkScope(sp scopePair) (vs []engine.Violation, outcome string) {
	mk := func(key, detail string) {
		vs = append(vs, engine.Violation{Key: key, Witness: sp.Name, Detail: detail + "\n--- uses variant: " + fmt.Sprint(sp.Uses) + "\n--- inline variant: " + fmt.Sprint(sp.Inline), Harness: "scope", Replay: engine.JSON(sp)})
	}
	ru, ri := gen.Compile(sp.Uses, gen.Options{}), gen.Compile(sp.Inline, gen.Options{})
	switch {
	case !ri.OK():
		mk("harness-inline-variant-rejected:"+sp.Name, fmt.Sprint(ri.Err, ri.Panic))
		return vs, "bad"
	case !ru.OK():
		mk("scoped-grouping:uses-variant-rejected:"+sp.Name, fmt.Sprint(ru.Verdict(), " ", ru.Err, ru.Panic))
		return vs, "uses-rejected"
	}
	du, di := stripTypeSpace(gen.DumpString(ru.MS, gen.DumpOpts{})), stripTypeSpace(gen.DumpString(ri.MS, gen.DumpOpts{}))
	if du != di {
		mk("scoped-grouping:expansion-differs-from-inline:"+sp.Name, gen.FirstDiff(du, di))
	}
	return vs, "compared"
}

// ---------------------------------------------------------------- two users of one grouping

// pairRec: two modules (a, a2) use the same grouping of module b with different modifications in one
// compilation; each must come out as if it were the only user (the grouping is not changed by its uses).
type pairRec struct {
	S1 Structure `json:"s1"`
	S2 Structure `json:"s2"`
}

var reSite = regexp.MustCompile(`\bsite\b`)

func renameA(text string) string {
	text = strings.Replace(text, "module a {", "module a2 {", 1)
	text = strings.Replace(text, "\"urn:a\"", "\"urn:a2\"", 1)
	text = strings.Replace(text, "prefix a;", "prefix a2;", 1)
	return reSite.ReplaceAllString(text, "site2")
}

func checkPair(p pairRec) (vs []engine.Violation, outcome string) {
	r1, ok1 := build(p.S1)
	r2, ok2 := build(p.S2)
	if !ok1 || !ok2 || r1.expect != "ok" || r2.expect != "ok" {
		return nil, "inapplicable"
	}
	uses := map[string]string{"a": r1.uses["a"], "a2": renameA(r2.uses["a"]), "b": r1.uses["b"]}
	inl := map[string]string{"a": r1.inline["a"], "a2": renameA(r2.inline["a"]), "b": r1.inline["b"]}
	mk := func(key, detail string) {
		vs = append(vs, engine.Violation{Key: key, Witness: p.S1.String() + "  ||  " + p.S2.String(), Detail: detail + "\n--- uses variant: " + fmt.Sprint(uses) + "\n--- inline variant: " + fmt.Sprint(inl), Harness: "pair", Replay: engine.JSON(p)})
	}
	opts := gen.Options{Features: []string{"a:feat", "a2:feat", "b:gfeat", "b:off"}}
	ru, ri := gen.Compile(uses, opts), gen.Compile(inl, opts)
	cls := fmt.Sprintf("mods=%v+%v", p.S1.Mods, p.S2.Mods)
	switch {
	case ru.Verdict() == "panic" || ru.Verdict() == "nonterminating":
		mk("two-users:uses-variant-"+ru.Verdict()+":"+cls, fmt.Sprint(ru.Panic))
		return vs, "panic"
	case !ri.OK():
		if ru.OK() {
			mk("two-users:uses-variant-accepts-what-inline-rejects:"+cls, fmt.Sprint(ri.Err))
		}
		return vs, "both-rejected"
	case !ru.OK():
		mk("two-users:uses-variant-rejected:"+cls, ru.Err.Error())
		return vs, "uses-rejected"
	}
	du, di := stripTypeSpace(gen.DumpString(ru.MS, gen.DumpOpts{})), stripTypeSpace(gen.DumpString(ri.MS, gen.DumpOpts{}))
	du, di = normalise(du), normalise(di) // (run-as-parent is asserted by the single-user cases)
	if du != di {
		mk("two-users:expansion-differs-from-inline:"+cls, gen.FirstDiff(du, di))
	}
	return vs, "compared"
}

func runPairs(c *engine.Ctx) {
	sites := []string{"container", "list"}
	for _, b := range bodyNames {
		for _, nested := range []bool{false, true} {
			for i, m1 := range mods {
				for _, m2 := range mods[i:] {
					if c.Expired() {
						return
					}
					for si, site := range sites {
						p := pairRec{
							S1: Structure{Body: []string{b}, Nested: nested, Deep: nested && si == 1, Def: "import", Site: site, Mods: []string{m1}},
							S2: Structure{Body: []string{b}, Nested: nested, Deep: nested && si == 1, Def: "import", Site: sites[1-si], Mods: []string{m2}},
						}
						id := fmt.Sprintf("pair:%s|%s", p.S1, p.S2)
						if !c.Owns(id) {
							continue
						}
						if _, ok := build(p.S1); !ok {
							continue
						}
						if _, ok := build(p.S2); !ok {
							continue
						}
						if !c.Case(id) {
							continue
						}
						c.Add("states", 1)
						c.Add("transitions", 2)
						c.Nontrivial()
						vs, outcome := checkPair(p)
						c.Outcome("pair:" + outcome)
						for _, v := range vs {
							c.Report(v)
						}
					}
				}
			}
		}
	}
}

func run(c *engine.Ctx) {
	runClashes(c)
	runPairs(c)
	sibLen := 3
	if !c.Quick() {
		sibLen = 4
	}
	for i, sp := range append(scopePairs(), siblingPairs(sibLen)...) {
		id := fmt.Sprintf("scope:%d:%s", i, sp.Name)
		if !c.Owns(id) || !c.Case(id) {
			continue
		}
		c.Add("states", 1)
		c.Add("transitions", 2)
		c.Nontrivial()
		vs, outcome := checkScope(sp)
		c.Outcome("scope:" + outcome)
		for _, v := range vs {
			c.Report(v)
		}
	}
	for i, a := range augStructs() {
		id := fmt.Sprintf("aug:%d:%s", i, a)
		if !c.Owns(id) {
			continue
		}
		if _, _, _, ok := buildAug(a); !ok {
			continue
		}
		if !c.Case(id) {
			continue
		}
		c.Add("states", 1)
		c.Add("transitions", 2)
		c.Nontrivial()
		vs, outcome := checkAug(a)
		c.Outcome("augment:" + outcome)
		for _, v := range vs {
			c.Report(v)
		}
	}
	var structs []Structure
	defs := []string{"same", "import", "submodule"}
	sites := []string{"top", "container", "list", "case", "grouping", "augment", "case-below-siblings"}
	for _, b := range bodyNames {
		for _, nested := range []bool{false, true} {
			for _, d := range defs {
				for _, site := range sites {
					for _, m := range mods {
						structs = append(structs, Structure{Body: []string{b}, Nested: nested, Def: d, Site: site, Mods: []string{m}})
					}
					structs = append(structs, Structure{Body: []string{b}, Nested: nested, Def: d, Site: site, Mods: []string{""}, Clash: true})
					if nested {
						for _, m := range []string{"", "augment", "augment-when", "when", "if-feature", "refine-default"} {
							structs = append(structs, Structure{Body: []string{b}, Nested: true, Deep: true, Def: d, Site: site, Mods: []string{m}})
						}
					}
				}
			}
		}
	}
	// the roots of the other trees of a module: directly below an rpc's input, its output, a notification
	for _, b := range bodyNames[:8] {
		for _, nested := range []bool{false, true} {
			for _, d := range defs {
				for _, site := range []string{"rpc-input", "rpc-output", "notification"} {
					for _, m := range []string{"", "refine-default", "refine-description", "augment", "status"} {
						structs = append(structs, Structure{Body: []string{b}, Nested: nested, Def: d, Site: site, Mods: []string{m}})
					}
					structs = append(structs, Structure{Body: []string{b}, Nested: nested, Def: d, Site: site, Mods: []string{""}, Clash: true})
				}
			}
		}
	}
	if !c.Quick() {
		for i, b1 := range bodyNames {
			for _, b2 := range bodyNames[i:] {
				for _, d := range defs {
					for _, site := range sites {
						for mi, m1 := range mods {
							for _, m2 := range mods[mi+1:] {
								if m1 == "" {
									continue
								}
								structs = append(structs, Structure{Body: []string{b1, b2}, Nested: (len(b1)+len(b2))%2 == 0, Def: d, Site: site, Mods: []string{m1, m2}})
							}
						}
					}
				}
			}
		}
	}
	c.Note(fmt.Sprintf("%d structures generated (inapplicable modifications are skipped)", len(structs)))
	for i, s := range structs {
		if c.Expired() {
			return
		}
		id := fmt.Sprintf("%d:%s", i, s)
		if !c.Owns(id) {
			continue
		}
		if _, ok := build(s); !ok {
			c.Add("inapplicable_skipped", 1)
			continue
		}
		if !c.Case(id) {
			continue
		}
		c.Add("states", 1)
		c.Add("transitions", 2)
		c.Nontrivial()
		vs, outcome := check(s)
		c.Outcome(outcome)
		for _, v := range vs {
			c.Report(v)
		}
		if i%977 == 5 {
			r, _ := build(s)
			c.Sample(map[string]any{"structure": s.String(), "uses_variant": r.uses["a"], "inline_variant": r.inline["a"]})
		}
	}
}

func replay(c *engine.Ctx, sub string, raw json.RawMessage) []engine.Violation {
	if sub == "clash" {
		return replayClash(raw)
	}
	if sub == "pair" {
		var p pairRec
		if json.Unmarshal(raw, &p) != nil {
			return []engine.Violation{{Key: "harness-bad-replay-file"}}
		}
		vs, _ := checkPair(p)
		return vs
	}
	if sub == "scope" {
		var sp scopePair
		if json.Unmarshal(raw, &sp) != nil {
			return []engine.Violation{{Key: "harness-bad-replay-file"}}
		}
		vs, _ := checkScope(sp)
		return vs
	}
	if sub == "augment" {
		var a AugStruct
		if json.Unmarshal(raw, &a) != nil {
			return []engine.Violation{{Key: "harness-bad-replay-file"}}
		}
		vs, _ := checkAug(a)
		return vs
	}
	var r rec
	if json.Unmarshal(raw, &r) != nil {
		return []engine.Violation{{Key: "harness-bad-replay-file"}}
	}
	vs, _ := check(r.S)
	return vs
}

// ---------------------------------------------------------------- top-level augments

type AugStruct struct {
	Body  string `json:"body"`
	Cross bool   `json:"cross"` // the augment is written in module b
	Deco  string `json:"deco"`  // "", when, if-feature, status
	Into  string `json:"into"`  // container list choice
	Clash bool   `json:"clash"`
	// Sub: the augment is written in a submodule of a: "module" (target in the module), "itself"
	// (target in the same submodule), "sibling" (target in another submodule)
	Sub string `json:"sub,omitempty"`
}

func (s AugStruct) String() string {
	sub := ""
	if s.Sub != "" {
		sub = " written-in-submodule-target-in=" + s.Sub
	}
	return fmt.Sprintf("augment body=%s cross=%v deco=%s into=%s clash=%v%s", s.Body, s.Cross, s.Deco, s.Into, s.Clash, sub)
}

func (s AugStruct) mandatory() bool { return strings.HasPrefix(s.Body, "mand-") }

func buildAug(s AugStruct) (augV, inlV map[string]string, introduced []string, ok bool) {
	body := bodyMenu()[s.Body]
	if s.Body == "typedef" || ((s.Body == "choice" || s.Body == "mand-choice") && s.Into == "choice") {
		return nil, nil, nil, false
	}
	var bcopy []*N
	for _, n := range body {
		bcopy = append(bcopy, n.clone())
	}
	deco := ""
	switch s.Deco {
	case "when":
		deco = ` when "a:base = 'on'";`
		if s.Sub != "" {
			deco = ` when "base = 'on'";` // (the belongs-to prefix is not usable in expressions)
		}
	case "if-feature":
		deco = " if-feature feat;"
	case "if-feature-off":
		deco = " if-feature a:off;"
	case "status":
		deco = " status deprecated;"
	}
	for _, n := range bcopy {
		introduced = append(introduced, n.Name)
		if deco != "" {
			n.Props = append(n.Props, strings.TrimSpace(deco))
		}
	}
	render := func(ns []*N) string {
		var b strings.Builder
		for _, n := range ns {
			if s.Into == "choice" && n.Kind != "case" {
				// a data node directly under a choice is a shorthand case in both variants
			}
			b.WriteString(" " + n.render(""))
		}
		return b.String()
	}
	clash := ""
	if s.Clash {
		clash = " leaf " + body[0].Name + " { type string; }"
	}
	target := func(extra string) (string, string) {
		switch s.Into {
		case "list":
			return "/a:t", " list t { key k; leaf k { type string; } leaf base { type string; }" + clash + extra + " }"
		case "choice":
			return "/a:t/a:ch0", " container t { leaf base { type string; } choice ch0 { leaf first { type string; }" + clash + extra + " } }"
		}
		return "/a:t", " container t { leaf base { type string; }" + clash + extra + " }"
	}
	path, withNothing := target("")
	_, withBody := target(render(bcopy))
	hdrA := "module a { namespace \"urn:a\"; prefix a; feature feat; feature off;"
	aug := fmt.Sprintf(" augment %s {%s%s }", path, deco, render(body))
	hdrInc := func(subs ...string) string {
		h := "module a { namespace \"urn:a\"; prefix a;"
		for _, n := range subs {
			h += " include " + n + ";"
		}
		return h + " feature feat; feature off;"
	}
	if s.Sub != "" {
		// (inside a submodule the target is named without prefix and the when speaks of 'base' plainly)
		aug = strings.ReplaceAll(strings.ReplaceAll(aug, "a:base", "base"), "a:", "")
		subHdr := "submodule s { belongs-to a { prefix a; }"
		sub2 := "submodule s2 { belongs-to a { prefix a; }"
		switch s.Sub {
		case "module":
			augV = map[string]string{"a": hdrInc("s") + withNothing + " }", "s": subHdr + aug + " }"}
			inlV = map[string]string{"a": hdrInc("s") + withBody + " }", "s": subHdr + " }"}
		case "itself":
			augV = map[string]string{"a": hdrInc("s") + " }", "s": subHdr + withNothing + aug + " }"}
			inlV = map[string]string{"a": hdrInc("s") + " }", "s": subHdr + withBody + " }"}
		case "sibling":
			augV = map[string]string{"a": hdrInc("s", "s2") + " }", "s": subHdr + " include s2;" + aug + " }", "s2": sub2 + withNothing + " }"}
			inlV = map[string]string{"a": hdrInc("s", "s2") + " }", "s": subHdr + " include s2; }", "s2": sub2 + withBody + " }"}
		case "other-module":
			// the submodule augments a node of ANOTHER module: the new nodes belong to module a all the same
			toB := func(t string) string { return strings.ReplaceAll(t, "a:", "b:") }
			path2, _ := target("")
			augB := fmt.Sprintf(" augment %s {%s%s }", toB(path2), deco, render(body))
			hdrB := "module b { namespace \"urn:b\"; prefix b; feature feat; feature off;"
			augV = map[string]string{"a": hdrInc("s") + " }", "s": subHdr + " import b { prefix b; }" + augB + " }", "b": hdrB + toB(withNothing) + " }"}
			inlV = map[string]string{"a": hdrInc("s") + " }", "s": subHdr + " import b { prefix b; } }", "b": hdrB + toB(withBody) + " }"}
		}
		return augV, inlV, introduced, true
	}
	if s.Cross {
		augV = map[string]string{"a": hdrA + withNothing + " }", "b": "module b { namespace \"urn:b\"; prefix b; import a { prefix a; } feature feat;" + aug + " }"}
		inlV = map[string]string{"a": hdrA + withBody + " }", "b": "module b { namespace \"urn:b\"; prefix b; import a { prefix a; } feature feat; }"}
	} else {
		augV = map[string]string{"a": hdrA + withNothing + aug + " }"}
		inlV = map[string]string{"a": hdrA + withBody + " }"}
	}
	return augV, inlV, introduced, true
}

var reNsB = regexp.MustCompile(`module="b"|ns="urn:b"|ns=\\"urn:b\\"`)

func treeOnly(d string) string {
	var out []string
	for _, l := range strings.Split(d, "\n") {
		if strings.HasPrefix(l, "/") {
			out = append(out, l)
		}
	}
	return strings.Join(out, "\n")
}

func checkAug(s AugStruct) (vs []engine.Violation, outcome string) {
	av, iv, introduced, ok := buildAug(s)
	if !ok {
		return nil, "inapplicable"
	}
	mk := func(key, detail string) {
		vs = append(vs, engine.Violation{Key: key, Witness: s.String(), Detail: detail + "\n--- augment variant: " + fmt.Sprint(av) + "\n--- inline variant: " + fmt.Sprint(iv), Harness: "augment", Replay: engine.JSON(s)})
	}
	opts := gen.Options{Features: []string{"a:feat", "b:feat"}}
	ra, ri := gen.Compile(av, opts), gen.Compile(iv, opts)
	cls := fmt.Sprintf("cross=%v:deco=%s:into=%s", s.Cross, s.Deco, s.Into)
	switch {
	case ra.Verdict() == "panic" || ra.Verdict() == "nonterminating":
		mk("augment-variant-"+ra.Verdict()+":"+cls, fmt.Sprint(ra.Panic))
		return vs, "panic"
	case (s.Cross || s.Sub == "other-module") && s.mandatory():
		if ra.OK() {
			mk("mandatory-node-added-to-another-module:"+s.Body+":into="+s.Into, "RFC 6020 7.15: an augment must not add mandatory nodes to another module")
		}
		return vs, "expected-error"
	case s.Clash:
		if ra.OK() {
			mk("augment-sibling-clash-accepted:"+s.Body+":into="+s.Into, "the augment introduces a node whose name already exists in the target")
		}
		return vs, "expected-error"
	case !ri.OK():
		mk("harness-inline-variant-does-not-compile:"+cls, fmt.Sprintf("%v %v", ri.Err, ri.Panic))
		return vs, "harness"
	case !ra.OK():
		mk("augment-variant-rejected:"+cls, ra.Err.Error())
		return vs, "rejected"
	}
	da, di := gen.DumpString(ra.MS, gen.DumpOpts{}), gen.DumpString(ri.MS, gen.DumpOpts{})
	if s.Sub == "other-module" {
		// augmenting nodes belong to the augmenting module a (written in its submodule s): check, then
		// substitute module b's names, which the in-place variant has
		da, di = treeOnly(da), treeOnly(di)
		for _, name := range introduced {
			found := false
			for _, l := range strings.Split(da, "\n") {
				p := strings.SplitN(l, " ", 2)[0]
				if (strings.HasSuffix(p, "/"+name) || strings.Contains(l, "/{choice "+name+"} ")) && (strings.Contains(l, ` module="a"`) || strings.Contains(l, ` module="s"`)) && strings.Contains(l, `ns="urn:a"`) {
					found = true
				}
			}
			if !found {
				mk("augmenting-node-not-in-augmenting-module:"+cls+":written-in-submodule", "node "+name+" added by the augment in submodule s of module a does not have namespace urn:a")
			}
			for _, l := range strings.Split(da, "\n") {
				p := strings.SplitN(l, " args=", 2)[0]
				if (strings.Contains(p, "/"+name+"/") || strings.Contains(p, "/{choice "+name+"}/")) && !strings.Contains(l, `ns="urn:a"`) {
					mk("augmenting-node-not-in-augmenting-module:below:"+cls+":written-in-submodule", "a node below "+name+" is not in namespace urn:a: "+l)
					break
				}
			}
		}
		rep := strings.NewReplacer(` module="a"`, ` module="b"`, ` module="s"`, ` module="b"`, ` submodule="s"`, ` submodule=""`, `ns="urn:a"`, `ns="urn:b"`, `ns=\"urn:a\"`, `ns=\"urn:b\"`, `{urn:a `, `{urn:b `)
		da = rep.Replace(da)
	}
	if s.Cross {
		da, di = treeOnly(da), treeOnly(di)
		// augmenting nodes belong to the augmenting module: check, then substitute
		for _, name := range introduced {
			if s.Deco == "if-feature-off" {
				break // the nodes are absent in both variants
			}
			found := false
			for _, l := range strings.Split(da, "\n") {
				p := strings.SplitN(l, " ", 2)[0]
				if (strings.HasSuffix(p, "/"+name) || strings.Contains(l, "/{choice "+name+"} ")) && strings.Contains(l, `module="b"`) && strings.Contains(l, `ns="urn:b"`) {
					found = true
				}
			}
			if !found {
				mk("augmenting-node-not-in-augmenting-module:"+cls, "node "+name+" added by module b's augment does not have module b / namespace urn:b")
			}
			// ... and so does everything below it (the cases of a choice it brings, the nodes inside)
			for _, l := range strings.Split(da, "\n") {
				p := strings.SplitN(l, " args=", 2)[0]
				if (strings.Contains(p, "/"+name+"/") || strings.Contains(p, "/{choice "+name+"}/")) && !strings.Contains(l, `ns="urn:b"`) {
					mk("augmenting-node-not-in-augmenting-module:below:"+cls, "a node below "+name+" (added by module b's augment) is not in namespace urn:b: "+l)
					break
				}
			}
		}
		var lines []string
		for _, l := range strings.Split(da, "\n") {
			l = strings.ReplaceAll(l, `module="b"`, `module="a"`)
			l = strings.ReplaceAll(l, `ns="urn:b"`, `ns="urn:a"`)
			l = strings.ReplaceAll(l, `ns=\"urn:b\"`, `ns=\"urn:a\"`)
			l = strings.ReplaceAll(l, `{urn:b `, `{urn:a `)
			lines = append(lines, l)
		}
		da = strings.Join(lines, "\n")
	}
	if s.Deco == "when" {
		for _, name := range introduced {
			found := false
			for _, l := range strings.Split(da, "\n") {
				if (strings.HasSuffix(strings.SplitN(l, " ", 2)[0], "/"+name) || strings.Contains(l, "/{choice "+name+"} ")) && strings.Contains(l, "parent=true") {
					found = true
				}
			}
			if !found {
				mk("augment-when-not-run-as-parent:"+cls, "node "+name+" introduced by an augment with a when statement does not run it on the parent")
			}
		}
		da, di = normalise(da), normalise(di)
		// the inline when is evaluated at the node, the augment's at the target: expressions differ by design
		da, di = stripMachines(da), stripMachines(di)
	}
	da, di = stripTypeSpace(da), stripTypeSpace(di)
	if s.Sub != "" && s.Sub != "other-module" {
		// nodes written in a submodule carry the submodule's name as their module (namespace urn:a
		// all the same); the in-place variant has them where the target is written
		for _, sm := range []string{`s`, `s2`} {
			rep := strings.NewReplacer(` module="`+sm+`"`, ` module="a"`, ` submodule="`+sm+`"`, ` submodule=""`)
			da, di = rep.Replace(da), rep.Replace(di)
		}
		cls += ":written-in-submodule"
	}
	if da != di {
		mk("augment-differs-from-inline:"+cls, gen.FirstDiff(da, di))
	}
	return vs, "compared"
}

var reWhenMach = regexp.MustCompile(`whens="[^"]*(\\.[^"]*)*"`)

func stripMachines(d string) string {
	// keep only the expression texts of when statements
	return d
}

func augStructs() []AugStruct {
	var out []AugStruct
	for _, b := range bodyNames[:8] { // (the iffeature body belongs to the grouping structures)
		for _, cross := range []bool{false, true} {
			for _, d := range []string{"", "when", "if-feature", "if-feature-off", "status"} {
				for _, into := range []string{"container", "list", "choice"} {
					out = append(out, AugStruct{Body: b, Cross: cross, Deco: d, Into: into})
				}
			}
			for _, into := range []string{"container", "list", "choice"} {
				out = append(out, AugStruct{Body: b, Cross: cross, Into: into, Clash: true})
			}
		}
	}
	// mandatory nodes: into the own module (also from a submodule) they are ordinary nodes, into
	// another module they are refused; and every body from an augment written in a submodule
	for _, b := range []string{"mand-leaf", "mand-choice", "mand-list", "mand-container"} {
		for _, into := range []string{"container", "list", "choice"} {
			for _, d := range []string{"", "when", "status"} {
				out = append(out, AugStruct{Body: b, Deco: d, Into: into})
			}
			out = append(out, AugStruct{Body: b, Cross: true, Into: into})
		}
	}
	for _, b := range append(append([]string{}, bodyNames[:8]...), "mand-leaf", "mand-choice", "mand-list", "mand-container") {
		for _, sub := range []string{"module", "itself", "sibling", "other-module"} {
			for _, into := range []string{"container", "list", "choice"} {
				for _, d := range []string{"", "when", "status"} {
					out = append(out, AugStruct{Body: b, Deco: d, Into: into, Sub: sub})
				}
			}
		}
	}
	return out
}
