package c12

import (
	"encoding/json"
	"fmt"

	"verif/engine"
	"verif/gen"
)

// Name clashes between choices and between cases that come from different places: an augment (in the
// same or in another module, directly or through a uses inside it) brings a choice into a container /
// list / case that already has a choice of that name, or a case into a choice that already has a case
// of that name.  Member names differ, so only the choice / case name clashes.  All must be rejected;
// the controls (other names) must compile.

type clashSet struct {
	Name   string            `json:"name"`
	Mods   map[string]string `json:"mods"`
	Expect string            `json:"expect"` // error | ok
}

func clashSets() []clashSet {
	var out []clashSet
	targets := map[string][2]string{ // kind -> path, module a body
		"container": {"/a:t", "container t { leaf base { type string; } choice ch { leaf m1 { type string; } } }"},
		"list":      {"/a:t", "list t { key k; leaf k { type string; } choice ch { case k2 { leaf m1 { type string; } } } }"},
		"case":      {"/a:t/a:outer/a:oc", "container t { choice outer { case oc { choice ch { leaf m1 { type string; } } } } }"},
		"choice":    {"/a:t/a:ch", "container t { choice ch { case k2 { leaf m1 { type string; } } leaf m0 { type string; } } }"},
	}
	for _, kind := range []string{"container", "list", "case", "choice"} {
		tg := targets[kind]
		for _, clash := range []bool{true, false} {
			added := "choice ch { leaf m2 { type string; } }"
			if !clash {
				added = "choice ch2 { leaf m2 { type string; } }"
			}
			if kind == "choice" {
				added = "case k2 { leaf m2 { type string; } }"
				if !clash {
					added = "case k3 { leaf m2 { type string; } }"
				}
			}
			expect := "ok"
			if clash {
				expect = "error"
			}
			for _, via := range []string{"direct", "uses"} {
				if via == "uses" && kind == "choice" {
					continue // (a grouping cannot hold a case statement)
				}
				stmt, gdef := added, ""
				if via == "uses" {
					gdef, stmt = " grouping g { "+added+" }", "uses g;"
				}
				for _, cross := range []bool{false, true} {
					name := fmt.Sprintf("%s:clash=%v:via=%s:cross=%v", kind, clash, via, cross)
					aug := fmt.Sprintf(" augment %s { %s }", tg[0], stmt)
					if cross {
						out = append(out, clashSet{name, map[string]string{
							"a": "module a { namespace \"urn:a\"; prefix a; " + tg[1] + " }",
							"b": "module b { namespace \"urn:b\"; prefix b; import a { prefix a; }" + gdef + aug + " }"}, expect})
					} else {
						out = append(out, clashSet{name, map[string]string{
							"a": "module a { namespace \"urn:a\"; prefix a; " + tg[1] + gdef + aug + " }"}, expect})
					}
				}
			}
		}
	}
	return out
}

func checkClash(cs clashSet) (vs []engine.Violation, outcome string) {
	res := gen.Compile(cs.Mods, gen.Options{})
	mk := func(key, detail string) {
		vs = append(vs, engine.Violation{Key: key, Witness: cs.Name, Detail: detail + "\n" + fmt.Sprint(cs.Mods), Harness: "clash", Replay: engine.JSON(cs)})
	}
	switch {
	case res.Verdict() == "panic" || res.Verdict() == "nonterminating":
		mk("choice-clash-"+res.Verdict()+":"+cs.Name, fmt.Sprint(res.Panic))
	case cs.Expect == "error" && res.OK():
		mk("choice-or-case-name-clash-accepted:"+cs.Name, "two choices (cases) of one name among the siblings compile")
	case cs.Expect == "ok" && !res.OK():
		mk("choice-clash-control-rejected:"+cs.Name, fmt.Sprint(res.Err))
	}
	return vs, res.Verdict()
}

func runClashes(c *engine.Ctx) {
	for i, cs := range clashSets() {
		id := fmt.Sprintf("clash:%d:%s", i, cs.Name)
		if !c.Owns(id) || !c.Case(id) {
			continue
		}
		c.Add("states", 1)
		c.Add("transitions", 1)
		c.Nontrivial()
		vs, outcome := checkClash(cs)
		c.Outcome("clash:" + cs.Expect + ":" + outcome)
		for _, v := range vs {
			c.Report(v)
		}
	}
}

func replayClash(raw json.RawMessage) []engine.Violation {
	var cs clashSet
	if json.Unmarshal(raw, &cs) != nil || cs.Name == "" {
		return []engine.Violation{{Key: "harness-bad-replay-file"}}
	}
	vs, _ := checkClash(cs)
	return vs
}
