// Package c08: YANG string arguments are decoded as RFC 6020 section 6.1.3 prescribes.
package c08

import (
	"os"
	"path/filepath"

	"encoding/json"
	"fmt"
	"github.com/sdcio/yang-parser/compile"
	"strconv"
	"strings"

	"verif/engine"
	"verif/ref/yangstr"

	"github.com/sdcio/yang-parser/parse"
)

func init() {
	engine.Register(&engine.Harness{
		Prop:   "C08",
		Run:    run,
		Replay: replay,
		Rule: "E1 over (content x quoting x layout): argument strings are composed from a piece alphabet (plain words, words with escapes, comment look-alikes, '+', ';', '{', quotes, non-ASCII), rendered unquoted / single-quoted / double-quoted / as '+' concatenations of up to 3 pieces with blanks, line breaks and comments between the pieces, under every statement indent, keyword, continuation-line indent (blanks and tabs around the quote column), trailing-blank pattern, LF/CRLF, blank continuation lines and empty last line; " +
			"the expected value comes from a decoder written from RFC 6020 6.1.3 applied to the generator's own structure (never by re-parsing). Cases the RFC does not settle (a tab straddling the quote column, escapes adjacent to stripped white space, other backslash sequences) are not generated or counted as unspecified. Non-trivial = the case has a line break, an escape, a concatenation or a comment look-alike.",
		Bound: map[string]string{
			"quick":    "<=2 continuation lines (each line break LF or CRLF independently; 4 continuation lines for every sequence of line-break styles), all layouts, single escapes, concatenations of <=3 pieces with 6 separators",
			"thorough": "<=3 continuation lines with independent indents, pairs of escapes, all piece triples",
		},
		Assumptions: []string{
			"escape substitution is specified only for backslash-n, backslash-t, backslash-quote and backslash-backslash; white-space stripping is applied to the source layout (escapes next to stripped white space are unspecified in RFC 6020 and not generated)",
			"CRLF counts as a line break and is preserved as written",
		},
	})
}

type rec struct {
	Text string `json:"text"`
	Want string `json:"want"`
	Stmt string `json:"stmt"`
}

const head = "module m {\n namespace \"urn:m\";\n prefix m;\n"

func check(text, stmt, want string) []engine.Violation {
	mk := func(key, detail string) []engine.Violation {
		return []engine.Violation{{Key: key, Witness: strconv.Quote(text), Detail: detail, Harness: "str", Replay: engine.JSON(rec{text, want, stmt})}}
	}
	var tree *parse.Tree
	var err error
	var p any
	func() {
		defer func() { p = recover() }()
		tree, err = parse.Parse("in.yang", text, nil)
	}()
	if p != nil {
		return mk("panic", fmt.Sprint(p))
	}
	if err != nil {
		return mk("rejected:"+stmtClass(stmt), "a well-formed module is rejected: "+err.Error())
	}
	var got *string
	for _, ch := range tree.Root.Children() {
		if ch.Statement() == stmt {
			s := ch.Argument().String()
			got = &s
		}
	}
	if got == nil {
		return mk("statement-missing", "no "+stmt+" statement in the tree")
	}
	if *got != want {
		return mk("wrong-value:"+diffClass(want, *got), fmt.Sprintf("expected %q got %q", want, *got))
	}
	// the module read from a file through the compiler's own parse entry point (compile.ParseModules,
	// which ParseYang, ParseModuleDir and CompileDir* go through) carries the same argument: all texts
	// with a line break inside a quoted piece that is preceded by a blank, a tab or a CR, and a
	// deterministic subset (by hash) of the others
	if fileEntryToo(text) {
		if via, perr := argViaFile(text, stmt); perr != "" || via != want {
			return mk("file-entry-point-differs:"+diffClass(want, via), fmt.Sprintf("compile.ParseModules on a file with this text: error %q, argument %q; expected %q", perr, via, want))
		}
	}
	return nil
}

var fileMask = 255

func fileEntryToo(text string) bool {
	if strings.Contains(text, " \n") || strings.Contains(text, "\t\n") || strings.Contains(text, "\r\n") {
		h := 0
		for _, c := range text {
			h = h*31 + int(c)
		}
		return h&(fileMask>>4) == 0
	}
	h := 0
	for _, c := range text {
		h = h*31 + int(c)
	}
	return h&fileMask == 0
}

func argViaFile(text, stmt string) (arg, errText string) {
	defer func() {
		if p := recover(); p != nil {
			errText = fmt.Sprint("panic: ", p)
		}
	}()
	d, err := os.MkdirTemp("", "verif-c08-")
	if err != nil {
		return "", err.Error()
	}
	defer os.RemoveAll(d)
	f := filepath.Join(d, "in.yang")
	if err := os.WriteFile(f, []byte(text), 0o644); err != nil {
		return "", err.Error()
	}
	trees, err := compile.ParseModules(nil, f)
	if err != nil {
		return "", err.Error()
	}
	for _, t := range trees {
		for _, ch := range t.Root.Children() {
			if ch.Statement() == stmt {
				arg = ch.Argument().String()
			}
		}
	}
	return arg, ""
}

func stmtClass(s string) string { return s }

// diffClass describes the first difference (used in finding keys).
func diffClass(want, got string) string {
	i := 0
	for i < len(want) && i < len(got) && want[i] == got[i] {
		i++
	}
	ch := func(s string) string {
		if i >= len(s) {
			return "end"
		}
		switch s[i] {
		case ' ':
			return "blank"
		case '\t':
			return "tab"
		case '\n':
			return "LF"
		case '\r':
			return "CR"
		case '\\':
			return "backslash"
		}
		return "char"
	}
	return "expected-" + ch(want) + "-got-" + ch(got)
}

type runner struct {
	c *engine.Ctx
}

func (r *runner) one(id, line, stmt, want string, nontrivial bool) {
	text := head + line + "\n}\n"
	if !r.c.Owns(text) {
		return
	}
	if !r.c.Case(id + ":" + strconv.Quote(line)) {
		return
	}
	r.c.Add("states", 1)
	r.c.Add("transitions", 1)
	if nontrivial {
		r.c.Nontrivial()
	}
	vs := check(text, stmt, want)
	r.c.Outcome(fmt.Sprintf("%s:viol=%v", strings.SplitN(id, ":", 2)[0], len(vs) > 0))
	for _, v := range vs {
		r.c.Report(v)
	}
}

var stmtIndents = []string{"", "  ", "\t", " \t", "        ", "\t  "}
var keywords = []string{"description", "reference", "m:ext"}
var trailing = []string{"", " ", "\t", " \t"}
var words = []string{"a", "b c", "x\\\\n", "q\\\"r", "p\\\\", "//c", "/*c*/", "+", ";", "{", "é", "'", "p\\nq", "p\\tq", "}"}

func run(c *engine.Ctx) {
	if !c.Quick() {
		fileMask = 31 // (thorough: eight times as many texts also go through the file entry point)
	}
	r := &runner{c: c}
	// ---- multi-line double-quoted strings
	for _, si := range stmtIndents {
		for _, kw := range keywords {
			prefix := si + kw + " "
			q := yangstr.Width(prefix) // column of the opening quote
			rel := []int{0, 1, q, q + 1, q + 2, q + 4}
			var indents []string
			for _, n := range rel {
				indents = append(indents, strings.Repeat(" ", n))
			}
			indents = append(indents, "\t", "\t ", " \t", "\t\t")
			// a tab right behind indentation of every width around the quote column (behind exactly
			// q+1 columns it is the first character of the text), the indentation made of blanks
			// or of a tab and blanks
			for _, n := range rel {
				indents = append(indents, strings.Repeat(" ", n)+"\t")
				if n >= 8 {
					indents = append(indents, "\t"+strings.Repeat(" ", n-8), "\t"+strings.Repeat(" ", n-8)+"\t")
				}
			}
			for _, nl := range []string{"\n", "\r\n"} {
				for _, w1 := range words {
					for _, w2 := range []string{"b", "c d", "\\\"z", "é", ""} {
						for _, ind := range indents {
							for _, tr := range trailing {
								if c.Expired() {
									return
								}
								raw := w1 + tr + nl + ind + w2
								want, ok := yangstr.DecodeDouble(raw, q)
								if !ok || adjacentEscape(w1, tr, ind, w2) {
									c.Add("unspecified_skipped", 1)
									continue
								}
								r.one("ml2", prefix+"\""+raw+"\";", kw, want, true)
								if tr == "" {
									// a comment that swallows the line break in front of the statement: a line
									// comment on the line above, a block comment that ends on the statement's line
									// (the quote column is counted on the statement's own line)
									r.one("after-comment", "// note\n"+prefix+"\""+raw+"\";", kw, want, true)
									r.one("after-comment", "  contact x; // note\n"+prefix+"\""+raw+"\";", kw, want, true)
									lead := "/* a\n   b */ "
									if want2, ok := yangstr.DecodeDouble(raw, yangstr.Width("   b */ "+prefix)); ok && !adjacentEscape(w1, tr, ind, w2) {
										r.one("after-comment", lead+prefix+"\""+raw+"\";", kw, want2, true)
									}
								}
								if kw != "m:ext" && tr == "" {
									// the same raw text occurs earlier in the file in another column
									r.one("dup", "                contact \""+raw+"\";\n"+prefix+"\""+raw+"\";", kw, want, true)
								}
								if tr == "" && !strings.Contains(raw, "*/") {
									// the same raw text occurs later in the same statement: in a comment
									// before the ';' and inside a second concatenated piece (other column)
									r.one("later", prefix+"\""+raw+"\" /* "+raw+" */ ;", kw, want, true)
									if w2x, ok := yangstr.DecodeDouble("x "+raw, 0); ok {
										r.one("later", prefix+"\""+raw+"\" +\n\"x "+raw+"\";", kw, want+w2x, true)
									}
								}
								if c.Quick() && (w2 != "b" && w2 != "") {
									continue
								}
								// a third line: blank line, or another indented line, or empty last line
								// (the second line break in either style: mixed LF / CRLF files)
								for _, nl2 := range []string{"\n", "\r\n"} {
									for _, l3 := range []string{"", ind, ind + "e", " f", strings.Repeat(" ", q+1) + "g" + tr} {
										raw3 := raw + tr + nl2 + l3
										want3, ok := yangstr.DecodeDouble(raw3, q)
										if !ok {
											continue
										}
										r.one("ml3", prefix+"\""+raw3+"\";", kw, want3, true)
										if l3 == ind+"e" && tr == "" && (w2 == "b" || w2 == "") {
											// four lines, every sequence of line-break styles
											for _, nl3 := range []string{"\n", "\r\n"} {
												raw4 := raw3 + nl3 + ind + w2 + nl + "h"
												if want4, ok := yangstr.DecodeDouble(raw4, q); ok {
													r.one("ml5", prefix+"\""+raw4+"\";", kw, want4, true)
												}
											}
										}
									}
								}
							}
						}
					}
				}
			}
			// quote on its own line after the keyword
			for _, ind := range []string{"", "   ", "\t"} {
				q2 := yangstr.Width(ind)
				for _, cont := range []string{"", " ", strings.Repeat(" ", q2+1), strings.Repeat(" ", q2+3)} {
					raw := "a" + "\n" + cont + "b"
					want, ok := yangstr.DecodeDouble(raw, q2)
					if ok {
						r.one("ownline", si+kw+"\n"+ind+"\""+raw+"\";", kw, want, true)
					}
				}
			}
		}
	}
	c.Sample(map[string]any{"statement": "\tdescription \"a \t\n\t     b\";", "expected": "a\n b"})

	// ---- single-line forms and concatenations
	type piece struct{ src, val string }
	var pieces []piece
	for _, w := range words {
		if v, ok := yangstr.DecodeDouble(w, 0); ok {
			pieces = append(pieces, piece{"\"" + w + "\"", v})
		}
		if !strings.Contains(w, "'") {
			pieces = append(pieces, piece{"'" + w + "'", w}) // single quotes: verbatim
		}
	}
	pieces = append(pieces, piece{"\"\"", ""}, piece{"''", ""}, piece{"'a\nb'", "a\nb"}, piece{"'  x\\n'", "  x\\n"},
		// single quotes keep everything: blanks and tabs in front of a line break, CR LF, an empty line
		piece{"'u:  \n  -v\t\n   \n  -q'", "u:  \n  -v\t\n   \n  -q"}, piece{"'a \r\n b'", "a \r\n b"})
	seps := []string{"+", " + ", "\n+\n", " /*c*/ + // c\n ", "\t+\r\n\t", " +\n      ", " /*/ c */ + ", " + /**/ /***/ ", " //*/\n + /* // */ "}
	for _, kw := range keywords {
		for i, p1 := range pieces {
			r.one("single", "  "+kw+" "+p1.src+";", kw, p1.val, strings.ContainsAny(p1.src, "\\/+"))
			for j, p2 := range pieces {
				if c.Expired() {
					return
				}
				for _, sp := range seps {
					r.one("cat2", "  "+kw+" "+p1.src+sp+p2.src+";", kw, p1.val+p2.val, true)
				}
				if c.Quick() && (i%3 != 0 || j%3 != 0) {
					continue
				}
				for k, p3 := range pieces {
					if c.Quick() && k%4 != 0 {
						continue
					}
					r.one("cat3", "  "+kw+" "+p1.src+seps[(i+j)%len(seps)]+p2.src+seps[(j+k)%len(seps)]+p3.src+" ;", kw, p1.val+p2.val+p3.val, true)
				}
			}
		}
		// unquoted arguments are taken verbatim; comments between tokens are skipped
		for _, u := range []string{"a", "a.b-c_d", "urn:x:y", "é", "a/b", "a+b", "1..2", "a\\nb", "x'y"} {
			r.one("unquoted", "  "+kw+" "+u+";", kw, u, false)
			r.one("unquoted", "  "+kw+" /* c */ "+u+" // c\n ;", kw, u, true)
			r.one("unquoted", "  "+kw+"\n\t"+u+"\n{ }", kw, u, true)
		}
	}
	// character sweep: every printable ASCII character, and in nine other blocks of the code space
	// (2-, 3- and 4-byte encodings) every character whose low byte is that of a character the lexer
	// treats specially (white space, quotes, + / * ; { } and the backslash), inside / in front of /
	// behind a word: the unquoted, single-quoted, double-quoted and concatenated spellings give the
	// same argument
	for _, ch := range sweepRunes() {
		for fi, word := range []string{"x" + string(ch) + "y", string(ch) + "y", "x" + string(ch), string(ch)} {
			if c.Expired() {
				return
			}
			dq := strings.NewReplacer("\\", "\\\\", "\"", "\\\"").Replace(word)
			r.one("sweep", "  description \""+dq+"\";", "description", word, true)
			r.one("sweep", "  m:ext \"x\" + \""+dq+"\";", "m:ext", "x"+word, true)
			if ch != '\'' {
				r.one("sweep", "  description '"+word+"';", "description", word, true)
				r.one("sweep", "  reference '"+word+"' + \"\";", "reference", word, true)
			}
			if !strings.ContainsRune(" \t\r\n;{}\"'", ch) && !(fi == 3 && ch == '+') && !strings.Contains(word, "//") && !strings.Contains(word, "/*") {
				r.one("sweep", "  description "+word+";", "description", word, true)
				r.one("sweep", "  m:ext "+word+" { }", "m:ext", word, true)
			}
		}
	}
	// escape sequences: every string of <= 5 symbols over {a, blank, \\\\, \\n, \\t, \\"} in one double-quoted piece
	syms := []string{"a", " ", "\\\\", "\\n", "\\t", "\\\""}
	var esc func(src string, n int)
	esc = func(src string, n int) {
		if c.Expired() {
			return
		}
		if n > 0 {
			unspec := strings.Contains(src, " \\n") || strings.Contains(src, "\\n ") || strings.Contains(src, "\\t\\n") || strings.Contains(src, "\\n\\t")
			if val, ok := yangstr.DecodeDouble(src, 0); ok && !unspec {
				r.one("esc", "  description \""+src+"\";", "description", val, true)
			}
		}
		if n == 5 {
			return
		}
		for _, sy := range syms {
			esc(src+sy, n+1)
		}
	}
	esc("", 0)
	c.Sample(map[string]any{"statement": "description 'x\\\\n' /*c*/ + // c\n \"q\\\"r\";", "expected": "x\\\\nq\"r"})
}

func sweepRunes() []rune {
	var out []rune
	for ch := rune(0x21); ch <= 0x7e; ch++ {
		out = append(out, ch)
	}
	out = append(out, 0x7f, 0x85, 0xa0, 0xad, 0x200b, 0x2028, 0x2029, 0x2060, 0xfeff, 0xfffd, 0xfffe, 0xe000, 0x10ffff) // (controls of C1, invisible and special-purpose characters)
	for _, base := range []rune{0x0100, 0x0400, 0x2000, 0x2100, 0x3000, 0x4e00, 0xff00, 0x10000, 0x1f600} {
		for _, low := range []rune{0x09, 0x0a, 0x0d, 0x20, 0x22, 0x27, 0x2a, 0x2b, 0x2f, 0x3b, 0x5c, 0x7b, 0x7d} {
			out = append(out, base+low)
		}
	}
	return out
}

// adjacentEscape: an escape that produces white space next to a stripped region
// (unspecified in RFC 6020: strip-then-substitute vs substitute-then-strip).
func adjacentEscape(w1, tr, ind, w2 string) bool {
	if strings.HasSuffix(w1, "\\n") || strings.HasSuffix(w1, "\\t") {
		return true
	}
	if strings.HasPrefix(w2, "\\t") || strings.HasPrefix(w2, "\\n") {
		return true
	}
	return false
}

func replay(c *engine.Ctx, sub string, raw json.RawMessage) []engine.Violation {
	var r rec
	if json.Unmarshal(raw, &r) != nil {
		return []engine.Violation{{Key: "harness-bad-replay-file"}}
	}
	return check(r.Text, r.Stmt, r.Want)
}
