// Package c10: the parse tree mirrors the source and ignores trivia.
package c10

import (
	"os"
	"path/filepath"

	"encoding/json"
	"fmt"
	"github.com/sdcio/yang-parser/compile"
	"regexp"
	"strconv"
	"strings"

	"verif/engine"
	"verif/ref/yangstr"

	"github.com/sdcio/yang-parser/parse"
)

func init() {
	engine.Register(&engine.Harness{
		Prop:   "C10",
		Run:    run,
		Replay: replay,
		Rule: "E1 over token lists: statement trees (module header + sequences of body statements from an 11-item menu (one with a multi-line double-quoted argument whose value depends on the quote column, followed also by comments that repeat its raw text), containers nested to depth 3) are rendered from a token list while the generator records keyword, decoded argument, nesting and the line/column of every keyword; at every token boundary every trivia variant (nothing where legal, blank, tab, LF, CRLF, block comment, line comment) is inserted, one boundary at a time (two at a time in the thorough tier), and every argument is re-quoted (unquoted, single, double, '+' concatenation split at every position). " +
			"The walk of Tree.Root via Children()/Statement()/Argument()/ErrorContext() must equal the generator's expectation exactly. Non-trivial = the variant contains a comment, a line break or a re-quoted argument.",
		Bound: map[string]string{
			"quick":    "all trees with <=2 body statements (containers with <=2 children, depth <=3) x every boundary x 7 trivia variants; all re-quotings; two concurrent Parse calls on 6 pairs of texts: the first 300 schedules (DFS order, preemption bound 1) per pair - capped, not exhaustive",
			"thorough": "<=3 body statements, two boundaries at a time on the 2-statement trees; concurrent pairs: first 20000 schedules per pair (capped)",
		},
		Assumptions: []string{"columns are 0-based byte offsets in the line, lines 1-based (the convention of Tree.ErrorContextPosition)"},
	})
}

type st struct {
	kw    string
	arg   string // decoded value; "" with noArg = no argument
	noArg bool
	kids  []*st
	raw   string // when set: the argument is written as "raw" (double-quoted, multi-line); its value depends on the quote column
}

func leaf(name string) *st {
	return &st{kw: "leaf", arg: name, kids: []*st{{kw: "type", arg: "string"}}}
}

// menu of body statements; i makes names unique
func menu(i int) []*st {
	n := func(p string) string { return fmt.Sprintf("%s%d", p, i) }
	return []*st{
		leaf(n("l")),
		{kw: "leaf", arg: n("d"), kids: []*st{{kw: "type", arg: "string"}, {kw: "description", arg: "two w\u00f6rds \u20ac"}, {kw: "default", arg: "x y"},
			// backslashes are escapes only inside double quotes: the unquoted and single-quoted forms are literal
			{kw: "units", arg: "C:\\temp\\new\\\\x"}}},
		{kw: "leaf-list", arg: n("ll"), kids: []*st{{kw: "type", arg: "string"}}},
		{kw: "list", arg: n("li"), kids: []*st{{kw: "key", arg: "k"}, leaf("k")}},
		// shorthand cases before, between and after an explicit case, and a non-case statement last
		{kw: "choice", arg: n("ch"), kids: []*st{leaf(n("w")), {kw: "case", arg: "ca", kids: []*st{leaf(n("x"))}}, leaf(n("y")), {kw: "container", arg: n("cz")}, {kw: "description", arg: "two words"}}},
		{kw: "typedef", arg: n("t"), kids: []*st{{kw: "type", arg: "string"}}},
		{kw: "grouping", arg: n("g"), kids: []*st{leaf("gl")}},
		{kw: "m:ext", arg: "an arg", kids: []*st{{kw: "m:sub", noArg: true}}},
		{kw: "rpc", arg: n("r"), kids: []*st{{kw: "input", noArg: true, kids: []*st{leaf("i")}}}},
		{kw: "container", arg: n("c")},
		{kw: "leaf", arg: n("m"), kids: []*st{{kw: "type", arg: "string"}, {kw: "description", raw: "two\n" + strings.Repeat(" ", 100) + "words\r\n  end\n" + exactIndent + "\ttab\n" + exactIndentTab + "\t\ttabs\n" + exactIndent + " blank"}}},
	}
}

const exactIndent, exactIndentTab, rawCopy = "\x00EXACT\x00", "\x00EXACTTAB\x00", "\x00RAWCOPY\x00"

type token struct {
	text      string
	node      int    // index into expectation when this token is a keyword, else -1
	sepBefore string // default separator before this token
	glue      bool   // may be written without separator before it
	rawOf     int    // >= 0: this token is the multi-line double-quoted argument of that node
	raw       string
}

type expNode struct {
	kw, arg    string
	depth      int
	line, col  int
	implicitOf int // > 0: implicit case wrapping the node with that index (same position)
}

// quoting forms of a value
func quotings(v string, all bool) []string {
	var out []string
	simple := v != "" && !strings.ContainsAny(v, " \t\n;{}\"'/+")
	if simple {
		out = append(out, v)
	}
	// inside double quotes a backslash and a double quote are written escaped; unquoted and
	// single-quoted text is taken literally
	dq := func(x string) string {
		return "\"" + strings.NewReplacer("\\", "\\\\", "\"", "\\\"").Replace(x) + "\""
	}
	out = append(out, dq(v))
	if !strings.Contains(v, "'") {
		out = append(out, "'"+v+"'")
	}
	if all {
		for i := 1; i < len(v); i++ {
			out = append(out, dq(v[:i])+" + "+dq(v[i:]), "\"\"+"+dq(v[:i])+"\n  +\n  "+dq(v[i:]))
			if !strings.Contains(v, "'") {
				out = append(out, "'"+v[:i]+"'+"+dq(v[i:]), dq(v[:i])+"\n  +\n  '"+v[i:]+"'")
			}
		}
		out = append(out, "\"\" + "+dq(v))
	}
	return out
}

// flatten renders the tree into tokens and the expected node list (pre-order).
// reqNode/reqForm select one node whose argument is written in quoting form reqForm.
func flatten(root *st, reqNode int, reqForm string) ([]token, []expNode) {
	var toks []token
	var exp []expNode
	var rec func(s *st, depth int)
	rec = func(s *st, depth int) {
		if depth < 0 {
			// shorthand case: RFC 6020 7.9.2 - a data node directly under a choice is
			// a case of the same name; the parser makes the case explicit, at the
			// position of the data node
			depth = -depth
			exp = append(exp, expNode{kw: "case", arg: s.arg, depth: depth, implicitOf: len(exp) + 1})
			depth++
		}
		idx := len(exp)
		exp = append(exp, expNode{kw: s.kw, arg: s.arg, depth: depth})
		toks = append(toks, token{text: s.kw, node: idx, sepBefore: " ", rawOf: -1})
		if s.raw != "" {
			toks = append(toks, token{text: "\"" + s.raw + "\"", node: -1, sepBefore: " ", glue: true, rawOf: idx, raw: s.raw})
		} else if !s.noArg {
			form := quotings(s.arg, false)[0]
			if idx == reqNode {
				form = reqForm
			}
			toks = append(toks, token{text: form, node: -1, sepBefore: " ", glue: form[0] == '"' || form[0] == '\'', rawOf: -1})
		}
		if len(s.kids) == 0 {
			toks = append(toks, token{text: ";", node: -1, sepBefore: "", glue: true, rawOf: -1})
			return
		}
		toks = append(toks, token{text: "{", node: -1, sepBefore: " ", glue: true, rawOf: -1})
		for _, k := range s.kids {
			if s.kw == "choice" && (k.kw == "leaf" || k.kw == "container" || k.kw == "leaf-list" || k.kw == "list") {
				rec(k, -(depth + 1))
			} else {
				rec(k, depth+1)
			}
		}
		toks = append(toks, token{text: "}", node: -1, sepBefore: " ", glue: true, rawOf: -1})
	}
	rec(root, 0)
	return toks, exp
}

// render concatenates tokens with the given separators and fills in positions.
func render(toks []token, seps []string, exp []expNode) string {
	var b strings.Builder
	line, col := 1, 0
	write := func(s string) {
		for i := 0; i < len(s); i++ {
			if s[i] == '\n' {
				line++
				col = 0
			} else {
				col++
			}
		}
		b.WriteString(s)
	}
	lastRaw := ""
	for i, t := range toks {
		if i > 0 {
			write(strings.ReplaceAll(seps[i], rawCopy, lastRaw))
		}
		if t.node >= 0 {
			exp[t.node].line, exp[t.node].col = line, col
		}
		if t.raw != "" {
			// RFC 6020 6.1.3: continuation lines are stripped up to the column of the opening quote
			cur := b.String()
			q := yangstr.Width(cur[strings.LastIndex(cur, "\n")+1:])
			// the marker stands for indentation that ends exactly in the column after the quote,
			// written with blanks / with a tab and blanks: what follows it is text, also a tab
			raw := strings.ReplaceAll(t.raw, exactIndent, strings.Repeat(" ", q+1))
			if q+1 >= 8 {
				raw = strings.ReplaceAll(raw, exactIndentTab, "\t"+strings.Repeat(" ", q+1-8))
			} else {
				raw = strings.ReplaceAll(raw, exactIndentTab, strings.Repeat(" ", q+1))
			}
			var ok bool
			if exp[t.rawOf].arg, ok = yangstr.DecodeDouble(raw, q); !ok {
				panic("c10: the raw argument is not settled by the reference: " + raw)
			}
			write("\"" + raw + "\"")
			lastRaw = raw
			continue
		}
		write(t.text)
	}
	for i := range exp {
		if exp[i].implicitOf > 0 {
			exp[i].line, exp[i].col = exp[exp[i].implicitOf].line, exp[exp[i].implicitOf].col
		}
	}
	return b.String()
}

var locRe = regexp.MustCompile(`^(?:/\S*/)?in\.yang:(\d+):(\d+)`)

type rec struct {
	Text string    `json:"text"`
	Exp  []expJSON `json:"expect"`
}
type expJSON struct {
	Kw, Arg          string
	Depth, Line, Col int
}

func check(text string, exp []expNode) []engine.Violation {
	ej := make([]expJSON, len(exp))
	for i, e := range exp {
		ej[i] = expJSON{e.kw, e.arg, e.depth, e.line, e.col}
	}
	mk := func(key, detail string) []engine.Violation {
		return []engine.Violation{{Key: key, Witness: strconv.Quote(text), Detail: detail, Harness: "tree", Replay: engine.JSON(rec{text, ej})}}
	}
	var tree *parse.Tree
	var err error
	var p any
	func() {
		defer func() { p = recover() }()
		if parseViaFile {
			tree, err = treeViaFile(text)
		} else {
			tree, err = parse.Parse("in.yang", text, nil)
		}
	}()
	if p != nil {
		return mk("panic", fmt.Sprint(p))
	}
	if err != nil {
		return mk("rejected", "an accepted text with different trivia is rejected: "+err.Error())
	}
	var got []expNode
	var walk func(n parse.Node, depth int)
	walk = func(n parse.Node, depth int) {
		loc, _ := n.ErrorContext()
		e := expNode{kw: n.Statement(), arg: n.Argument().String(), depth: depth}
		if m := locRe.FindStringSubmatch(loc); m != nil {
			e.line, _ = strconv.Atoi(m[1])
			e.col, _ = strconv.Atoi(m[2])
		} else {
			e.line, e.col = -1, -1
		}
		got = append(got, e)
		for _, c := range n.Children() {
			walk(c, depth+1)
		}
	}
	walk(tree.Root, 0)
	if len(got) != len(exp) {
		return mk("different-statement-count", fmt.Sprintf("expected %d statements, tree has %d: %v", len(exp), len(got), got))
	}
	for i := range exp {
		w, g := exp[i], got[i]
		switch {
		case w.kw != g.kw || w.depth != g.depth:
			return mk("different-statement:"+w.kw, fmt.Sprintf("statement %d: expected %s at depth %d, got %s at depth %d", i, w.kw, w.depth, g.kw, g.depth))
		case w.arg != g.arg:
			return mk("different-argument:"+w.kw, fmt.Sprintf("statement %d (%s): expected argument %q got %q", i, w.kw, w.arg, g.arg))
		case w.line != g.line || w.col != g.col:
			return mk("different-position:"+w.kw, fmt.Sprintf("statement %d (%s %s): keyword at %d:%d, tree says %d:%d", i, w.kw, w.arg, w.line, w.col, g.line, g.col))
		}
	}
	return nil
}

// parseViaFile: check() reads the text back from a file through compile.ParseModules (the entry point
// below ParseYang, ParseModuleDir and CompileDir*) instead of calling parse.Parse on the string.
var parseViaFile bool

func treeViaFile(text string) (*parse.Tree, error) {
	d, err := os.MkdirTemp("", "verif-c10-")
	if err != nil {
		return nil, err
	}
	defer os.RemoveAll(d)
	f := filepath.Join(d, "in.yang")
	if err := os.WriteFile(f, []byte(text), 0o644); err != nil {
		return nil, err
	}
	trees, err := compile.ParseModules(nil, f)
	if err != nil {
		return nil, err
	}
	for _, t := range trees {
		return t, nil
	}
	return nil, fmt.Errorf("no tree")
}

var trivia = []string{"", " ", "\t", "\n", "\r\n", " /*c*/ ", " //c\n", "\n\n  ",
	// comment bodies made of the comment delimiters themselves
	" /**/ ", " /*/ x */ ", " /***/ ", " /* / * // */ ", " //\n", " // /* c\n", " /*\n*/ ", " /* \"q; { */ ", " //*/ c\n", " /*a*//*b*/ ",
	// multi-byte characters in front of the next keyword on the same line (columns count bytes)
	" /* \u00e9\u20ac\U0001d11e */ ", " /*\u00b5*/ "}

func module(body []*st) *st {
	kids := []*st{{kw: "namespace", arg: "urn:m"}, {kw: "prefix", arg: "m"}}
	return &st{kw: "module", arg: "m", kids: append(kids, body...)}
}

func typedTrees() []*st {
	s := func(kw, arg string, kids ...*st) *st { return &st{kw: kw, arg: arg, kids: kids} }
	var out []*st
	for _, ns := range []string{"URN:Example:Seed", "urn:a#", "http://example.com/my ns", "HTTP://EXAMPLE.COM/%7euser/../x", "urn:\u00e9", "urn:a?b=c&d", "x"} {
		out = append(out, s("module", "m", s("namespace", ns), s("prefix", "m"), leaf("l")))
	}
	out = append(out, s("module", "m", s("namespace", "urn:m"), s("prefix", "m"),
		s("revision", "2020-02-29"), s("feature", "f"), s("identity", "i"),
		s("typedef", "t1", s("type", "decimal64", s("fraction-digits", "2"), s("range", "1 | 3..4.50"))),
		s("typedef", "t2", s("type", "string", s("length", "1 | 3..max"), s("pattern", "[a-z]+  x"))),
		s("typedef", "t3", s("type", "enumeration", s("enum", "a b", s("value", "-7")))),
		s("typedef", "t4", s("type", "bits", s("bit", "b", s("position", "0")))),
		s("list", "li", s("key", "a  b"), s("unique", "c/d  a"), s("min-elements", "0"), s("max-elements", "unbounded"), s("ordered-by", "user"),
			leaf("a"), leaf("b"), s("container", "c", leaf("d"))),
		s("leaf", "lf", s("type", "m:t1"), s("if-feature", "m:f"), s("must", " ../a  =  'x y' "), s("when", "../b or(../c)"), s("config", "true"), s("mandatory", "false"), s("status", "deprecated"), s("default", "+1.50")),
		s("leaf", "lr", s("type", "leafref", s("path", "/m:li/m:a"))),
		s("identity", "j", s("base", "m:i")),
		s("augment", "/m:li", leaf("z")),
		s("deviation", "/m:li/m:b", s("deviate", "not-supported"))))
	return out
}

func run(c *engine.Ctx) {
	runConcurrent(c)
	// tree set
	var trees []*st
	m0 := menu(0)
	for i := range m0 {
		trees = append(trees, module([]*st{menu(1)[i]}))
		for j := range m0 {
			trees = append(trees, module([]*st{menu(1)[i], menu(2)[j]}))
			// nested in a container (depth 3)
			if m0[i].kw != "rpc" && m0[j].kw != "rpc" {
				trees = append(trees, module([]*st{{kw: "container", arg: "top", kids: []*st{menu(1)[i], {kw: "container", arg: "in", kids: []*st{menu(2)[j]}}}}}))
			}
			if !c.Quick() {
				for k := range m0 {
					if (i+j+k)%3 == 0 {
						trees = append(trees, module([]*st{menu(1)[i], menu(2)[j], menu(3)[k]}))
					}
				}
			}
		}
	}
	// statements whose argument is parsed into a typed value (URI, date, number, boolean, key list,
	// path, expression ...): the tree reports the argument as it was written, not a re-spelling of
	// the typed value
	trees = append(trees, typedTrees()...)
	c.Note(fmt.Sprintf("%d statement trees", len(trees)))
	do := func(id, text string, exp []expNode, nt bool) {
		if !c.Case(id) {
			return
		}
		c.Add("states", 1)
		c.Add("transitions", 1)
		if nt {
			c.Nontrivial()
		}
		vs := check(text, exp)
		c.Outcome(fmt.Sprintf("%s:viol=%v", strings.SplitN(id, ":", 2)[0], len(vs) > 0))
		for _, v := range vs {
			c.Report(v)
		}
	}
	for ti, tr := range trees {
		if c.Expired() {
			return
		}
		if !c.Owns(fmt.Sprintf("tree%d", ti)) {
			continue
		}
		toks, exp := flatten(tr, -1, "")
		base := make([]string, len(toks))
		for i, t := range toks {
			base[i] = t.sepBefore
		}
		e0 := append([]expNode{}, exp...)
		do(fmt.Sprintf("base:%d", ti), render(toks, base, e0), e0, false)
		// the same text read from a file through the compiler's parse entry point, with LF and with
		// CR LF line ends between the tokens
		parseViaFile = true
		e1 := append([]expNode{}, exp...)
		do(fmt.Sprintf("file:%d", ti), render(toks, base, e1), e1, true)
		crlf := make([]string, len(base))
		for i, b := range base {
			crlf[i] = strings.ReplaceAll(b, "\n", "\r\n")
		}
		e2 := append([]expNode{}, exp...)
		do(fmt.Sprintf("file-crlf:%d", ti), render(toks, crlf, e2), e2, true)
		parseViaFile = false
		twoAtATime := !c.Quick() && len(toks) < 60
		for b := 1; b < len(toks); b++ {
			tvs := trivia
			if toks[b-1].raw != "" {
				// a comment that repeats the raw text of the string before it
				// (rawCopy: render puts the raw text exactly as it was written there)
				tvs = append(append([]string{}, trivia...), " /* "+rawCopy+" */ ", "/*\""+rawCopy+"\"*/")
			}
			for vi, tv := range tvs {
				if tv == "" && !(toks[b].glue || toks[b-1].text == "{" || toks[b-1].text == "}" || toks[b-1].text == ";" || toks[b-1].glue && toks[b-1].text != toks[b-1].text) {
					continue
				}
				if tv == "" && !(toks[b].text == ";" || toks[b].text == "{" || toks[b].text == "}" || toks[b-1].text == ";" || toks[b-1].text == "{" || toks[b-1].text == "}") {
					continue // a quoted argument still needs a separator after its keyword in this model
				}
				seps := append([]string{}, base...)
				seps[b] = tv
				e := append([]expNode{}, exp...)
				do(fmt.Sprintf("trivia:%d:%d:%d", ti, b, vi), render(toks, seps, e), e, tv != " " && tv != "\t")
				if twoAtATime {
					for b2 := b + 1; b2 < len(toks); b2 += 3 {
						for _, tv2 := range []string{"\n", " /*c*/ ", " //c\n"} {
							s2 := append([]string{}, seps...)
							s2[b2] = tv2
							e := append([]expNode{}, exp...)
							do(fmt.Sprintf("trivia2:%d:%d:%d:%d:%s", ti, b, vi, b2, tv2), render(toks, s2, e), e, true)
						}
					}
				}
			}
		}
		// leading and trailing trivia
		for vi, tv := range trivia[1:] {
			e := append([]expNode{}, exp...)
			seps := append([]string{}, base...)
			text := render(toks, seps, e)
			// leading trivia shifts every position: recompute by rendering with a prefix token
			pt := append([]token{{text: strings.TrimRight(tv, ""), node: -1, rawOf: -1}}, toks...)
			ps := append([]string{""}, base...)
			ps[1] = ""
			e2 := append([]expNode{}, exp...)
			lead := render(pt, ps, e2)
			do(fmt.Sprintf("lead:%d:%d", ti, vi), lead, e2, true)
			do(fmt.Sprintf("trail:%d:%d", ti, vi), text+tv+"\n", e, true)
		}
		// re-quotings of every argument
		for ni := range exp {
			if exp[ni].kw == "input" || exp[ni].kw == "m:sub" {
				continue
			}
			for qi, form := range quotings(exp[ni].arg, true) {
				tq, eq := flatten(tr, ni, form)
				sq := make([]string, len(tq))
				for i, t := range tq {
					sq[i] = t.sepBefore
				}
				do(fmt.Sprintf("quote:%d:%d:%d", ti, ni, qi), render(tq, sq, eq), eq, true)
			}
		}
	}
	// escape sequences: every string of <= 4 symbols over {a, blank, \\\\, \\n, \\t, \\"} written double-quoted, and
	// the same value written single-quoted: both must give the decoded value
	syms := []string{"a", " ", "\\\\", "\\n", "\\t", "\\\""}
	var esc func(src string, n int)
	esc = func(src string, n int) {
		if n > 0 {
			// (white space next to an escaped line break: strip-then-substitute or substitute-then-strip
			// is not settled by RFC 6020 - unspecified, as in C08)
			unspec := strings.Contains(src, " \\n") || strings.Contains(src, "\\n ") || strings.Contains(src, "\\t\\n") || strings.Contains(src, "\\n\\t")
			if val, ok := yangstr.DecodeDouble(src, 0); ok && !unspec && c.Owns("esc:"+src) {
				forms := []string{"\"" + src + "\""}
				if !strings.ContainsAny(val, "'") {
					forms = append(forms, "'"+val+"'")
				}
				for fi, form := range forms {
					text := "module m { namespace urn:m; prefix m; description\n" + form + "; }"
					exp := []expNode{{kw: "module", arg: "m", depth: 0, line: 1, col: 0}, {kw: "namespace", arg: "urn:m", depth: 1, line: 1, col: 11}, {kw: "prefix", arg: "m", depth: 1, line: 1, col: 28}, {kw: "description", arg: val, depth: 1, line: 1, col: 38}}
					do(fmt.Sprintf("escape:%d:%q", fi, src), text, exp, true)
				}
			}
		}
		if n == 4 {
			return
		}
		for _, sy := range syms {
			esc(src+sy, n+1)
		}
	}
	esc("", 0)
	c.Sample(map[string]any{"text": "module m {namespace urn:m; prefix m; leaf l1 /*c*/ {type string;}}", "expect": "module m@1:0 > namespace@1:10, prefix@1:27, leaf l1@1:37 > type string@1:53"})
}

func replay(c *engine.Ctx, sub string, raw json.RawMessage) []engine.Violation {
	if sub == "concurrent" {
		return replayConcurrent(raw)
	}
	var r rec
	if json.Unmarshal(raw, &r) != nil {
		return []engine.Violation{{Key: "harness-bad-replay-file"}}
	}
	exp := make([]expNode, len(r.Exp))
	for i, e := range r.Exp {
		exp[i] = expNode{kw: e.Kw, arg: e.Arg, depth: e.Depth, line: e.Line, col: e.Col}
	}
	return check(r.Text, exp)
}
