package c10

import (
	"encoding/json"
	"fmt"
	"strings"

	"verif/engine"

	"github.com/sdcio/yang-parser/parse"
	"github.com/sdcio/yang-parser/verifrt"
)

// Two Parse calls at the same time: the tree of a text does not depend on what other Parse calls are
// doing.  Each call has its own lexer goroutine, so an execution has four threads; every schedule
// within the preemption bound is explored under the cooperative scheduler (scheduling points: channel
// operations and every access to a mutable package-level variable of /repo found by the instrumenter).
// Oracle: no vector-clock race on a package variable, no panic, no deadlock, and both trees equal the
// trees of the same texts parsed alone.  (The property quantifies over texts, not over schedules; this
// family states the condition under which "for every text" means anything in a concurrent program.)

var concTexts = []string{
	"module a { namespace \"urn:a\"; prefix a; leaf l { type string; description \"one\" + ' two' + \"\\tthree\"; } }",
	"module b { namespace 'urn:b'; prefix b; container c { description \"x\n     y\"; leaf m { type string { pattern \"[a-z]+\" + '-t7'; } } } }",
	"module c { namespace urn:c; prefix c; leaf plain { type int8; default 5; } }",
}

// Tiny texts (indices 3..): executions short enough for a deviation bound to be completed (a deviation
// is any choice other than the default one - the lexer / parser hand-over gives a free choice at every
// token, so a preemption bound alone leaves 3^tokens schedules), so that for them the family is
// exhaustive within the bound (3 deviations quick, 4 thorough).
const concTinyFrom = 3

func init() {
	concTexts = append(concTexts,
		"module t { prefix \"p\" + 'q'; }",
		"module u { leaf l; }",
	)
}

type concRec struct {
	A, B    int
	Choices []int `json:"choices"`
}

func flatTree(text string) string {
	tree, err := parse.Parse("in.yang", text, nil)
	if err != nil || tree == nil || tree.Root == nil {
		return fmt.Sprint("error: ", err)
	}
	var b strings.Builder
	var walk func(n parse.Node, depth int)
	walk = func(n parse.Node, depth int) {
		loc, _ := n.ErrorContext()
		fmt.Fprintf(&b, "%d %s %q @%s\n", depth, n.Statement(), n.Argument().String(), strings.SplitN(loc, " ", 2)[0])
		for _, c := range n.Children() {
			walk(c, depth+1)
		}
	}
	walk(tree.Root, 0)
	return b.String()
}

func checkConcurrent(ai, bi int, choices []int) ([]engine.Violation, *verifrt.Sched) {
	// (the isolated references are computed under the scheduler too, so that the lexer goroutine of
	// each call has finished before the next execution starts: a goroutine left over from a free-running
	// Parse would call the scheduler's hooks from outside)
	var want [2]string
	for i, ti := range []int{ai, bi} {
		i, ti := i, ti
		verifrt.RunControlled(nil, 400000, func() { want[i] = flatTree(concTexts[ti]) })
	}
	var got [2]string
	var panics [2]any
	s := verifrt.RunControlled(choices, 400000, func() {
		for i, ti := range []int{ai, bi} {
			i, ti := i, ti
			verifrt.Go(func() {
				defer func() { panics[i] = recover() }()
				got[i] = flatTree(concTexts[ti])
			})
		}
	})
	var vs []engine.Violation
	mk := func(key, detail string) {
		vs = append(vs, engine.Violation{Key: key, Witness: fmt.Sprintf("Parse(text %d) || Parse(text %d) schedule=%v", ai, bi, choices), Detail: detail, Harness: "concurrent", Replay: engine.JSON(concRec{ai, bi, choices})})
	}
	if s.BadReplay != "" {
		mk("harness-bad-replay", s.BadReplay)
		return vs, s
	}
	for _, r := range s.Races {
		mk("data-race-between-two-parses:"+r.Var, fmt.Sprintf("unordered accesses to %s: %s and %s", r.Var, r.A, r.B))
	}
	if s.Deadlock || len(s.Blocked) > 0 || s.Livelock {
		mk("two-parses-do-not-finish", fmt.Sprint(s.Blocked, s.Deadlock, s.Livelock))
	}
	for i := range panics {
		if panics[i] != nil {
			mk("panic-in-concurrent-parse", fmt.Sprint(panics[i]))
		}
	}
	if len(vs) == 0 {
		for i := range got {
			if got[i] != want[i] {
				mk("tree-depends-on-a-concurrent-parse", fmt.Sprintf("parsed alone:\n%s\nparsed next to another call:\n%s", want[i], got[i]))
			}
		}
	}
	return vs, s
}

func runConcurrent(c *engine.Ctx) {
	// (an execution has some thousand scheduling points - every access to a package-level variable
	// counts - so even preemption bound 1 is not finished: the first cap schedules in DFS order are
	// explored and the cap is reported; this family is CAPPED, not exhaustive)
	bound, cap, tinyBound := 1, int64(300), 3
	if !c.Quick() {
		bound, cap, tinyBound = 1, 20000, 4
	}
	for ai := range concTexts {
		for bi := ai; bi < len(concTexts); bi++ {
			id := fmt.Sprintf("concurrent:%d:%d", ai, bi)
			if (ai >= concTinyFrom) != (bi >= concTinyFrom) {
				continue
			}
			if !c.Owns(id) || !c.Case(id) {
				continue
			}
			bound, cap := bound, cap
			if ai >= concTinyFrom {
				bound, cap = tinyBound, 0
			}
			seen := map[string]bool{}
			explore := engine.ExploreSchedules
			if ai >= concTinyFrom {
				explore = engine.ExploreScheduleDeviations
			}
			st := explore(bound, cap, func(choices []int) *verifrt.Sched {
				vs, s := checkConcurrent(ai, bi, choices)
				c.Add("executions", 1) // (also tells the watchdog that the case is alive)
				for _, v := range vs {
					if !seen[v.Key] {
						seen[v.Key] = true
						c.Report(v)
					}
				}
				return s
			}, func(*verifrt.Sched, []int) {})
			c.Add("states", st.Executions)
			c.Add("transitions", st.Executions)
			c.Add("schedules", st.Executions)
			c.Nontrivial()
			c.Outcome(fmt.Sprintf("concurrent:truncated=%v:viol=%v", st.Truncated, len(seen) > 0))
			if ai >= concTinyFrom {
				c.Note(fmt.Sprintf("concurrent tiny pair %d/%d: all %d schedules with <= %d deviations from the default schedule explored (<= %d scheduling points each)", ai, bi, st.Executions, bound, st.MaxPoints))
			}
			if st.Truncated {
				c.Note(fmt.Sprintf("concurrent pair %d/%d: schedule cap %d reached (preemption bound %d)", ai, bi, cap, bound))
			}
		}
	}
}

func replayConcurrent(raw json.RawMessage) []engine.Violation {
	var r concRec
	if json.Unmarshal(raw, &r) != nil || r.A < 0 || r.B < 0 || r.A >= len(concTexts) || r.B >= len(concTexts) {
		return []engine.Violation{{Key: "harness-bad-replay-file"}}
	}
	vs, _ := checkConcurrent(r.A, r.B, r.Choices)
	return vs
}
