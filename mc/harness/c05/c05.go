// Package c05: XPath compilation and execution are total and report failures faithfully.
package c05

import (
	gocontext "context"
	"encoding/json"
	"fmt"
	"os"
	"strconv"
	"strings"

	"verif/engine"
	"verif/mock"

	"github.com/sdcio/yang-parser/verifrt"
	"github.com/sdcio/yang-parser/xpath"
	"github.com/sdcio/yang-parser/xpath/grammars/expr"
	"github.com/sdcio/yang-parser/xpath/grammars/leafref"
	"github.com/sdcio/yang-parser/xpath/grammars/path_eval"
)

func init() {
	engine.Register(&engine.Harness{
		Prop:   "C05",
		Run:    run,
		Replay: replay,
		Rule: "Part A/B (E1): every byte string up to the length bound over a 28-symbol alphabet (incl. '%' and '%s': error texts are built with format strings), and every proper prefix and single-byte substitution of a corpus of expressions, is given to the machine constructors (expr, path_eval, leafref, and the custom-function forms: expr with custom functions allowed, path_eval with a user function checker that vouches for every name / for none) under a step horizon; after every constructor and every run the lock bookkeeping of the sync shim must show no lock held (a leaked lock makes a later constructor block for ever); every machine obtained is run on the virtual identity tree and on a tree of value kinds (two leaf-lists of equal size, one of another size, an empty one, number, boolean, literal, absent nodes). " +
			"Part C (E2, fault enumeration): for every corpus expression with data-tree access, run fault-free, count the N callbacks, then for every k<=N (and every pair k<j in the thorough tier) make those callbacks fail with unique errors. " +
			"Non-trivial = the input got past the first token (constructor) or the run touched the data tree / the stack (runs).",
		Bound: map[string]string{
			"quick":    "byte strings of length <=4 x 3 grammars; corpus prefixes and single-byte substitutions; single faults at every callback position",
			"thorough": "byte strings of length <=5 x 3 grammars (length 6 over a 12-symbol sub-alphabet); corpus x all substitutions; single and double faults",
		},
		Assumptions: []string{
			"step horizon 2000*len+50000 ticks decides non-termination",
			"machines are run through NewCtxFromCurrent with a mock xpath.Entry; schema-side NewCtxFromMach contexts are not driven (path stacks are nil there)",
			"a data-tree error must surface as GetError() and from every accessor, and its text must contain the text of the first injected error",
		},
	})
}

var alphabet = []string{"a", "1", " ", "/", "(", ")", "[", "]", "'", "\"", ".", "=", "-", "*", ":", ",", "<", "!", "d", "i", "v", "e", "\x00", "\xff", "é", "%", "%s", "\n"}
var subAlphabet = []string{"a", "1", "/", "(", ")", "[", "]", "'", ".", "=", ":", "\xff"}

var corpus = []string{
	"1 + 2", "a = 'x'", "/a/b[k = 'v']/c", "../x/y", "current()/../x", "deref(current()/../ref)/../v", "deref(../ref)",
	"/l[k = current()/../x]/v", "/l[k = ../x][j = 7]/v", "a = b", "not(a)", "string-length(concat(a, b)) > 2",
	"contains(/a/b, 'x') or starts-with(../c, \"y\")", "/a/b | /c", "count(a)", "a[1]", "(a)", "()", "a/*", "p:a/p:*", "-a + 1 div 0",
	"translate(a, 'ab', 'c')", "substring('12345', 2, 3)", "boolean(a) and true()", "/", ".", "..", "../..", "a[k = concat('x', 'y')]",
	"/a[k = /x/y]/c", "current()", "deref(a)/b[k = current()/k]/c", "a != b and c <= d", "number(a) mod 2 = 0", "re-match(a, '[a-z]+')",
	"local-name(a)", "sum(a)", "position() = last()", "text()", "a[text() = 'x']", "//a", "@a", "child::a", "$v", "foo(1)", "concat(1)", "'unterminated", "1.2.3", "a b", "p : a", "1e5",
}

var leafrefCorpus = []string{
	"/a/b", "../a", "../../a/b", "/a/b[k = current()/../x]/c", "/p:a/p:b", "/a[k=current()/../x][j=current()/../../y/z]/c",
	"../a[k = current()/../x]/b", "/a[k = 'x']/b", "a/b", "/a/..", "/a/b[k = current()/x]", "/*", "/a | /b", "deref(a)", "/xmla", "/a/b[k=current ( ) / .. / x ]",
}

// argValues: one value per character class a function body can treat specially (XPath white space,
// other Unicode white space, control characters, multi-byte characters of every length, nothing).
var argValues = []string{"", "a b", " a  b ", "\t\r\n", "a\u00a0b", "x\fy", "\v", "p\u0085q", "\u2028", "m\u3000 n", "é€𝄞", "a\u200db", "0", "-1.5e3", "\x00"}

func fnValueInputs(quick bool) []string {
	lit := func(v string) string { return "'" + v + "'" }
	var out []string
	vals := argValues
	for _, f := range []string{"string", "normalize-space", "string-length", "number", "boolean", "not", "floor", "ceiling", "round"} {
		for _, v := range vals {
			out = append(out, f+"("+lit(v)+")")
		}
	}
	for _, f := range []string{"concat", "contains", "starts-with", "substring-before", "substring-after", "re-match"} {
		for _, v := range vals {
			for _, w := range vals {
				out = append(out, f+"("+lit(v)+", "+lit(w)+")")
			}
		}
	}
	third := vals
	if quick {
		third = []string{"", "x\fy", "é€𝄞"}
	}
	for _, v := range vals {
		for _, w := range vals {
			for _, x := range third {
				out = append(out, "translate("+lit(v)+", "+lit(w)+", "+lit(x)+")")
			}
		}
		for _, n1 := range []string{"0", "1", "2", "-1", "1.5", "0 div 0", "1 div 0", "-1 div 0"} {
			out = append(out, "substring("+lit(v)+", "+n1+")")
			for _, n2 := range []string{"0", "1", "3", "-1", "0 div 0", "1 div 0"} {
				out = append(out, "substring("+lit(v)+", "+n1+", "+n2+")")
			}
		}
	}
	return out
}

type rec struct {
	Grammar string `json:"grammar"`
	ExprB64 string `json:"expr_quoted"` // strconv.Quote form
	Faults  []int  `json:"faults,omitempty"`
	Rerun   bool   `json:"rerun_of_one_context,omitempty"` // history: the context ran once without faults before
}

func build(grammar, src string) (m *xpath.Machine, err error) {
	switch grammar {
	case "expr":
		return expr.NewExprMachine(src, nil)
	case "path_eval":
		return path_eval.NewPathEvalMachine(src, nil, "loc")
	case "expr+custom":
		return expr.NewExprMachineWithCustomFunctions(src, nil)
	case "path_eval+checker-yes":
		// a user function checker that vouches for every unknown function name ...
		return path_eval.NewPathEvalMachineWithCustomFns(src, nil, "loc", func(name string) (*xpath.Symbol, bool) { return xpath.NewDummyFnSym(name), true })
	case "path_eval+checker-no":
		// ... and one that knows none
		return path_eval.NewPathEvalMachineWithCustomFns(src, nil, "loc", func(name string) (*xpath.Symbol, bool) { return nil, false })
	}
	return leafref.NewLeafrefMachine(src, nil)
}

// leaked reports locks still held after a call has returned (the next
// constructor that needs the lock would never return) and gives them back.
func leaked(grammar, src, what string) []engine.Violation {
	if n := verifrt.LeakedLocks(); n > 0 {
		verifrt.ReleaseLeaked()
		return []engine.Violation{viol("returns-holding-a-lock:"+what+":"+grammar, grammar, src, fmt.Sprintf("%d lock(s) still held after %s returned: any later call that takes the lock blocks for ever", n, what), nil)}
	}
	return nil
}

func viol(key, grammar, src, detail string, faults []int) engine.Violation {
	return engine.Violation{Key: key, Witness: grammar + ":" + strconv.Quote(src), Detail: detail, Harness: "c05",
		Replay: engine.JSON(rec{Grammar: grammar, ExprB64: strconv.Quote(src), Faults: faults})}
}

// construct checks part A for one input and returns the machine (if any).
func construct(grammar, src string) (m *xpath.Machine, vs []engine.Violation, outcome string) {
	var err error
	var panicked any
	func() {
		defer func() {
			if r := recover(); r != nil {
				panicked = r
			}
		}()
		verifrt.SetHorizon(int64(2000*len(src) + 50000))
		m, err = build(grammar, src)
	}()
	hit := verifrt.HorizonHit
	verifrt.SetHorizon(0)
	if isSelfDeadlock(panicked) {
		verifrt.ReleaseLeaked()
		return nil, []engine.Violation{viol("constructor-blocks-for-ever:"+grammar, grammar, src, fmt.Sprint(panicked), nil)}, "blocks"
	}
	if lv := leaked(grammar, src, "constructor"); lv != nil {
		return nil, lv, "leaks-lock"
	}
	switch {
	case hit:
		return nil, []engine.Violation{viol("constructor-nonterminating:"+grammar, grammar, src, "step horizon exceeded", nil)}, "nonterminating"
	case panicked != nil:
		return nil, []engine.Violation{viol("constructor-panic:"+grammar+":"+panicClass(panicked), grammar, src, fmt.Sprint("panic: ", panicked), nil)}, "panic"
	case m == nil && err == nil:
		return nil, []engine.Violation{viol("constructor-neither:"+grammar, grammar, src, "neither machine nor error", nil)}, "neither"
	case m != nil && err != nil:
		return nil, []engine.Violation{viol("constructor-both:"+grammar, grammar, src, "machine and error: "+err.Error(), nil)}, "both"
	case err != nil:
		outcome = "rejected"
		if src != "" {
			msg := err.Error()
			if !strings.Contains(msg, src) {
				vs = append(vs, viol("error-does-not-quote-expression:"+grammar, grammar, src, msg, nil))
			} else {
				const head = "Got to approx [X] in '"
				i := strings.LastIndex(msg, head)
				if i < 0 {
					vs = append(vs, viol("error-without-position-marker:"+grammar, grammar, src, msg, nil))
				} else {
					rest := msg[i+len(head):]
					rest = strings.TrimSuffix(rest, "\n")
					rest = strings.TrimSuffix(rest, "'")
					j := strings.Index(rest, " [X] ")
					if j < 0 || rest[:j]+rest[j+5:] != src {
						vs = append(vs, viol("error-position-not-inside-expression:"+grammar, grammar, src, msg, nil))
					}
				}
			}
		}
		return nil, vs, outcome
	}
	return m, nil, "machine"
}

func isSelfDeadlock(p any) bool {
	_, ok := p.(verifrt.SelfDeadlock)
	return ok
}

func panicClass(p any) string {
	s := fmt.Sprint(p)
	s = strings.Map(func(r rune) rune {
		if r >= '0' && r <= '9' {
			return 'N'
		}
		return r
	}, s)
	if len(s) > 50 {
		s = s[:50]
	}
	return s
}

type runObs struct {
	err                  string
	numErr, strErr, bErr string
	nsErr                string // GetNodeSetResult, asked after a failed run only
	panicked             any
	hit                  bool
	calls                int
}

func runOn(m *xpath.Machine, t *mock.Tree, faults []int) (o runObs) {
	return runOnDebug(m, t, faults, false)
}

// runOnDebug: the same run with the context's debug listing switched on or off; the listing is a
// diagnostic aid and must not change value or error.
func runOnDebug(m *xpath.Machine, t *mock.Tree, faults []int, debug bool) (o runObs) {
	t.Reset()
	if len(faults) > 0 {
		t.FailAt = map[int]bool{}
		for _, f := range faults {
			t.FailAt[f] = true
		}
	}
	func() {
		defer func() {
			if r := recover(); r != nil {
				o.panicked = r
			}
		}()
		verifrt.SetHorizon(200000)
		res := xpath.NewCtxFromCurrent(gocontext.Background(), m, t.At(mock.Elem{Name: "top"}, mock.Elem{Name: "ctx"})).SetDebug(debug).Run()
		if res == nil {
			o.panicked = "Run returned nil"
			return
		}
		if e := res.GetError(); e != nil {
			o.err = e.Error()
			if o.err == "" {
				o.err = "(empty error text)"
			}
		}
		if _, e := res.GetNumResult(); e != nil {
			o.numErr = e.Error()
		}
		if _, e := res.GetLiteralResult(); e != nil {
			o.strErr = e.Error()
		}
		if _, e := res.GetBoolResult(); e != nil {
			o.bErr = e.Error()
		}
		if o.err != "" {
			// (the node-set accessor too puts the run error first; on a successful run it is only
			// meaningful for node-set values and is not asked)
			o.nsErr = "(no error)"
			if _, e := res.GetNodeSetResult(); e != nil {
				o.nsErr = e.Error()
			}
		}
	}()
	o.hit = verifrt.HorizonHit
	verifrt.SetHorizon(0)
	o.calls = t.NCalls
	return
}

var idTree = mock.NewTree()

// checkRerun is the history "one context, run twice": the first Run sees a tree that answers every
// call, the second Run of the same context object sees the tree fail at the given calls. The property
// speaks of running any machine on any context - a context that ran before is one: the second Run may
// not panic, yields a value or an error, and carries the error the tree reported during it.
func checkRerun(grammar, src string, m *xpath.Machine, faults []int) (vs []engine.Violation) {
	t := idTree
	mk := func(key, detail string) {
		v := viol("rerun:"+key, grammar, src, detail, faults)
		v.Replay = engine.JSON(rec{Grammar: grammar, ExprB64: strconv.Quote(src), Faults: faults, Rerun: true})
		vs = append(vs, v)
	}
	t.Reset()
	var p any
	var res *xpath.Result
	func() {
		defer func() { p = recover() }()
		verifrt.SetHorizon(400000)
		ctx := xpath.NewCtxFromCurrent(gocontext.Background(), m, t.At(mock.Elem{Name: "top"}, mock.Elem{Name: "ctx"}))
		ctx.Run()
		t.Reset()
		t.FailAt = map[int]bool{}
		for _, f := range faults {
			t.FailAt[f] = true
		}
		res = ctx.Run()
	}()
	hit := verifrt.HorizonHit
	verifrt.SetHorizon(0)
	if isSelfDeadlock(p) {
		verifrt.ReleaseLeaked()
		mk("run-blocks-for-ever", fmt.Sprint(p))
		return
	}
	if lv := leaked(grammar, src, "second run of one context"); lv != nil {
		return lv
	}
	switch {
	case hit:
		mk("run-nonterminating", "step horizon exceeded")
		return
	case p != nil:
		mk("run-panic:"+panicClass(p), fmt.Sprint("panic escaped the second Run: ", p))
		return
	case res == nil:
		mk("run-panic:nil-result", "the second Run returned nil")
		return
	}
	errText := ""
	if e := res.GetError(); e != nil {
		errText = e.Error()
	}
	if errText == "" {
		_, e1 := res.GetNumResult()
		_, e2 := res.GetLiteralResult()
		_, e3 := res.GetBoolResult()
		if e1 != nil || e2 != nil || e3 != nil {
			mk("neither-value-nor-error", fmt.Sprint("GetError()==nil but an accessor fails: ", e1, e2, e3))
		}
	}
	if len(t.Faults) > 0 {
		first := t.Faults[0].Error()
		switch {
		case errText == "":
			mk("data-tree-error-lost", fmt.Sprintf("during the second Run the callback failed with %s but the result reports no error (calls %v)", first, t.CallStrings()))
		case !strings.Contains(errText, first):
			mk("data-tree-error-replaced:"+panicClass(errText), fmt.Sprintf("during the second Run the callback failed with %s but the result reports %q", first, errText))
		}
	}
	return
}

// checkRun is part B for one machine and (with faults) part C.
func checkRun(grammar, src string, m *xpath.Machine, faults []int) (vs []engine.Violation, outcome string, calls int) {
	return checkRunTree(idTree, grammar, src, m, faults)
}

// kindTree: values by node name - two leaf-lists of the same size, one of another size, an empty
// one, a number, a boolean, a literal (names over the letters of the alphabet); every other node is absent.
var kindTree = func() *mock.Tree {
	t := mock.NewTree()
	ds := func(d ...xpath.Datum) xpath.Datum { return xpath.NewDatumSliceDatum(d) }
	t.ByName = map[string]xpath.Datum{
		"a":  ds(xpath.NewLiteralDatum("x"), xpath.NewLiteralDatum("y")),
		"d":  ds(xpath.NewLiteralDatum("y"), xpath.NewLiteralDatum("z")),
		"i":  ds(xpath.NewNumDatum(1), xpath.NewNumDatum(2), xpath.NewNumDatum(3)),
		"e":  ds(),
		"v":  xpath.NewNumDatum(7),
		"aa": xpath.NewBoolDatum(true),
		"ad": xpath.NewLiteralDatum("lit"),
	}
	return t
}()

func checkRunTree(idTree *mock.Tree, grammar, src string, m *xpath.Machine, faults []int) (vs []engine.Violation, outcome string, calls int) {
	o := runOn(m, idTree, faults)
	calls = o.calls
	if isSelfDeadlock(o.panicked) {
		verifrt.ReleaseLeaked()
		return []engine.Violation{viol("run-blocks-for-ever", grammar, src, fmt.Sprint(o.panicked), faults)}, "blocks", calls
	}
	if lv := leaked(grammar, src, "run"); lv != nil {
		return lv, "leaks-lock", calls
	}
	switch {
	case o.hit:
		return []engine.Violation{viol("run-nonterminating", grammar, src, "step horizon exceeded", faults)}, "nonterminating", calls
	case o.panicked != nil:
		return []engine.Violation{viol("run-panic:"+panicClass(o.panicked), grammar, src, fmt.Sprint("panic escaped Run: ", o.panicked), faults)}, "panic", calls
	}
	if o.err == "" {
		outcome = "value"
		if o.numErr != "" || o.strErr != "" || o.bErr != "" {
			vs = append(vs, viol("neither-value-nor-error", grammar, src, "GetError()==nil but an accessor fails: "+o.numErr+o.strErr+o.bErr, faults))
		}
	} else {
		outcome = "error"
		if o.numErr != o.err || o.strErr != o.err || o.bErr != o.err || o.nsErr != o.err {
			vs = append(vs, viol("accessor-hides-run-error", grammar, src, fmt.Sprintf("run error %q but accessors give %q %q %q, node-set accessor %q", o.err, o.numErr, o.strErr, o.bErr, o.nsErr), faults))
		}
	}
	if od := runOnDebug(m, idTree, faults, true); od.hit || fmt.Sprint(od.panicked) != fmt.Sprint(o.panicked) || od.err != o.err || od.numErr != o.numErr || od.strErr != o.strErr || od.bErr != o.bErr {
		vs = append(vs, viol("debug-run-differs", grammar, src, fmt.Sprintf("with the debug listing on: error %q panic %v horizon %v; without: error %q", od.err, od.panicked, od.hit, o.err), faults))
	}
	if len(idTree.Faults) > 0 {
		first := idTree.Faults[0].Error()
		outcome = "fault"
		switch {
		case o.err == "":
			vs = append(vs, viol("data-tree-error-lost", grammar, src, fmt.Sprintf("callback failed with %s but the run reports no error (calls %v)", first, idTree.CallStrings()), faults))
		case !strings.Contains(o.err, first):
			vs = append(vs, viol("data-tree-error-replaced:"+panicClass(o.err), grammar, src, fmt.Sprintf("callback failed with %s but the run reports %q", first, o.err), faults))
		}
	}
	return vs, outcome, calls
}

func run(c *engine.Ctx) {
	// one goroutine: a lock that is not free can never be taken (VERIF_SEQ_OFF=1 switches the
	// detection off, which is how the engine's watchdog for blocked workers is exercised)
	verifrt.SetSequential(os.Getenv("VERIF_SEQ_OFF") == "")
	grammars := []string{"expr", "path_eval", "leafref", "expr+custom", "path_eval+checker-yes", "path_eval+checker-no"}
	maxLen := 4
	if !c.Quick() {
		maxLen = 5
	}
	doInput := func(src string) {
		for _, g := range grammars {
			id := g + ":" + strconv.Quote(src)
			if !c.Case(id) {
				continue
			}
			c.Add("states", 1)
			m, vs, outcome := construct(g, src)
			c.Outcome("A:" + g + ":" + outcome)
			for _, v := range vs {
				c.Report(v)
			}
			if len(src) > 1 {
				c.Nontrivial()
			}
			if m != nil {
				c.Add("transitions", 1)
				vs, outcome, _ := checkRun(g, src, m, nil)
				c.Outcome("B:" + g + ":" + outcome)
				c.Add("runs", 1)
				for _, v := range vs {
					c.Report(v)
				}
				// the same machine on the tree of value kinds (leaf-lists, number, boolean, absent nodes)
				vs, outcome, _ = checkRunTree(kindTree, g, src, m, nil)
				c.Outcome("B:kinds:" + g + ":" + outcome)
				c.Add("runs", 1)
				for _, v := range vs {
					v.Key = "kinds:" + v.Key
					c.Report(v)
				}
			}
		}
	}
	var rec func(prefix string, depth, limit int, alpha []string)
	rec = func(prefix string, depth, limit int, alpha []string) {
		if c.Expired() {
			return
		}
		if depth >= 2 || c.Shard == 0 {
			doInput(prefix)
		}
		if depth == limit {
			return
		}
		for _, a := range alpha {
			next := prefix + a
			if depth+1 == 2 && !c.Owns("s:"+next) {
				continue
			}
			c.Add("transitions", 1)
			rec(next, depth+1, limit, alpha)
		}
	}
	rec("", 0, maxLen, alphabet)
	if !c.Quick() {
		// length 6 over the sub-alphabet (strings of length <=5 over it were covered above)
		var rec5 func(prefix string, depth int)
		rec5 = func(prefix string, depth int) {
			if c.Expired() {
				return
			}
			if depth == 6 {
				doInput(prefix)
				return
			}
			for _, a := range subAlphabet {
				next := prefix + a
				if depth+1 == 2 && !c.Owns("s5:"+next) {
					continue
				}
				rec5(next, depth+1)
			}
		}
		rec5("", 0)
	}
	c.Sample(map[string]any{"grammar": "expr", "input": ">\xff", "kind": "byte string"})

	// corpus prefixes and substitutions
	all := append(append([]string{}, corpus...), leafrefCorpus...)
	for ci, src := range all {
		for i := 0; i <= len(src); i++ {
			if c.Expired() {
				return
			}
			if c.Owns(fmt.Sprintf("cp:%d:%d", ci, i)) {
				doInput(src[:i])
			}
			if i == len(src) {
				break
			}
			subs := []string{"\xff", "'", "(", "]", " "}
			if !c.Quick() {
				subs = alphabet
			}
			for si, s := range subs {
				if c.Owns(fmt.Sprintf("cs:%d:%d:%d", ci, i, si)) {
					doInput(src[:i] + s + src[i+1:])
				}
			}
		}
	}

	// Part D: every core function on argument values of every character class (the loops inside the
	// function bodies - normalize-space, translate, substring - must end on each of them)
	for i, src := range fnValueInputs(c.Quick()) {
		if c.Expired() {
			return
		}
		if c.Owns(fmt.Sprintf("fv:%d", i)) {
			doInput(src)
		}
	}

	// Part C: fault enumeration
	for ci, src := range all {
		for _, g := range []string{"expr", "leafref"} {
			if c.Expired() {
				return
			}
			if !c.Owns(fmt.Sprintf("fault:%d:%s", ci, g)) {
				continue
			}
			m, _, _ := construct(g, src)
			if m == nil {
				continue
			}
			_, _, n := checkRun(g, src, m, nil)
			for k := 1; k <= n; k++ {
				sets := [][]int{{k}}
				if !c.Quick() {
					for j := k + 1; j <= n+2; j++ {
						sets = append(sets, []int{k, j})
					}
				}
				for _, f := range sets {
					if !c.Case(fmt.Sprintf("fault:%s:%s:%v", g, strconv.Quote(src), f)) {
						continue
					}
					c.Add("states", 1)
					c.Add("transitions", 1)
					c.Add("fault_runs", 1)
					c.Nontrivial()
					vs, outcome, _ := checkRun(g, src, m, f)
					c.Outcome("C:" + outcome)
					if len(f) == 1 || !c.Quick() {
						c.Add("states", 1)
						c.Add("transitions", 2)
						c.Add("rerun_histories", 1)
						vs = append(vs, checkRerun(g, src, m, f)...)
					}
					for _, v := range vs {
						c.Report(v)
					}
				}
			}
			c.Add("fault_points", int64(n))
		}
	}
	c.Sample(map[string]any{"grammar": "expr", "input": "/l[k = current()/../x]/v", "faults": []int{2}, "kind": "fault injection: second data-tree callback fails"})
}

func replay(c *engine.Ctx, sub string, raw json.RawMessage) []engine.Violation {
	var r rec
	if json.Unmarshal(raw, &r) != nil {
		return []engine.Violation{{Key: "harness-bad-replay-file"}}
	}
	src, err := strconv.Unquote(r.ExprB64)
	if err != nil {
		return []engine.Violation{{Key: "harness-bad-replay-file"}}
	}
	verifrt.SetSequential(true)
	m, vs, _ := construct(r.Grammar, src)
	if m != nil && r.Rerun {
		return append(vs, checkRerun(r.Grammar, src, m, r.Faults)...)
	}
	if m != nil {
		v2, _, _ := checkRun(r.Grammar, src, m, r.Faults)
		vs = append(vs, v2...)
		if len(r.Faults) == 0 {
			v3, _, _ := checkRunTree(kindTree, r.Grammar, src, m, nil)
			for _, v := range v3 {
				v.Key = "kinds:" + v.Key
				vs = append(vs, v)
			}
		}
	}
	return vs
}
