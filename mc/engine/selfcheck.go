package engine

import (
	"fmt"
	"sort"
	"strings"

	"github.com/sdcio/yang-parser/verifrt"
)

// SchedSelfCheck explores a handful of tiny concurrent programs, written
// directly against the scheduler's hooks, exhaustively (no preemption bound)
// and compares the set of observed outcomes with the set Go's semantics allows.
// It is run by the harnesses that rely on the channel / select model (C06,
// C07) before they explore the real code: a model that misbehaves is reported
// as a harness error, not as a finding about the code under test.
func SchedSelfCheck() []string {
	var problems []string
	type prog struct {
		name string
		body func(obs *[]string)
		want []string // sorted set of allowed observation strings; every one must be seen
	}
	progs := []prog{
		{"rendezvous: plain send, selecting receiver", func(obs *[]string) {
			ch, done := make(chan int), make(chan bool)
			verifrt.Go(func() { verifrt.Send(ch, 7) })
			r := verifrt.Select(false, verifrt.RecvCase(ch), verifrt.RecvCase(done))
			*obs = append(*obs, fmt.Sprintf("case=%d val=%d", r.I, verifrt.RecvVal(ch, r)))
		}, []string{"case=0 val=7"}},
		{"two ready cases: both are explored", func(obs *[]string) {
			a, b := make(chan int, 1), make(chan int, 1)
			verifrt.Send(a, 1)
			verifrt.Send(b, 2)
			r := verifrt.Select(false, verifrt.RecvCase(a), verifrt.RecvCase(b))
			*obs = append(*obs, fmt.Sprintf("case=%d", r.I))
		}, []string{"case=0", "case=1"}},
		{"default is taken only when nothing is ready", func(obs *[]string) {
			a := make(chan int, 1)
			r1 := verifrt.Select(true, verifrt.RecvCase(a))
			verifrt.Send(a, 5)
			r2 := verifrt.Select(true, verifrt.RecvCase(a))
			*obs = append(*obs, fmt.Sprintf("first=%d second=%d", r1.I, r2.I))
		}, []string{"first=-1 second=0"}},
		{"selecting sender meets selecting receiver", func(obs *[]string) {
			ch, never := make(chan string), make(chan string)
			res := make(chan string, 1)
			verifrt.Go(func() {
				r := verifrt.Select(false, verifrt.SendCase(ch, "v"), verifrt.RecvCase(never))
				verifrt.Send(res, fmt.Sprintf("sender-case=%d", r.I))
			})
			r := verifrt.Select(false, verifrt.RecvCase(never), verifrt.RecvCase(ch))
			*obs = append(*obs, fmt.Sprintf("receiver-case=%d val=%s %s", r.I, verifrt.RecvVal(ch, r), verifrt.Recv(res)))
		}, []string{"receiver-case=1 val=v sender-case=0"}},
		{"close wakes a selector", func(obs *[]string) {
			done, never := make(chan bool), make(chan int)
			verifrt.Go(func() { verifrt.Close(done) })
			r := verifrt.Select(false, verifrt.RecvCase(never), verifrt.RecvCase(done))
			_, ok := verifrt.RecvVal2(done, r)
			*obs = append(*obs, fmt.Sprintf("case=%d ok=%v", r.I, ok))
		}, []string{"case=1 ok=false"}},
		{"producer with done channel does not leak; bare send does", func(obs *[]string) {
			items, done := make(chan int), make(chan bool)
			verifrt.Go(func() { // careful producer
				for i := 0; i < 2; i++ {
					if r := verifrt.Select(false, verifrt.SendCase(items, i), verifrt.RecvCase(done)); r.I == 1 {
						return
					}
				}
			})
			v := verifrt.Recv(items)
			verifrt.Close(done)
			*obs = append(*obs, fmt.Sprintf("got=%d", v))
		}, []string{"got=0"}},
		{"selecting receiver takes from a blocked plain sender or from the buffer", func(obs *[]string) {
			u, b := make(chan int), make(chan int, 1)
			verifrt.Go(func() { verifrt.Send(u, 1) })
			verifrt.Go(func() { verifrt.Send(b, 2) })
			r1 := verifrt.Select(false, verifrt.RecvCase(u), verifrt.RecvCase(b))
			r2 := verifrt.Select(false, verifrt.RecvCase(u), verifrt.RecvCase(b))
			got := []int{r1.I, r2.I}
			sort.Ints(got)
			*obs = append(*obs, fmt.Sprint(got))
		}, []string{"[0 1]"}},
	}
	for _, p := range progs {
		seen := map[string]bool{}
		var bad []string
		st := ExploreSchedules(-1, 20000, func(ch []int) *verifrt.Sched {
			var obs []string
			s := verifrt.RunControlled(ch, 10000, func() { p.body(&obs) })
			if s.Deadlock || len(s.Blocked) > 0 || len(s.Panics) > 0 || s.Livelock || s.BadReplay != "" {
				bad = append(bad, fmt.Sprintf("schedule %v: deadlock=%v blocked=%v panics=%v livelock=%v badreplay=%q", ch, s.Deadlock, s.Blocked, s.Panics, s.Livelock, s.BadReplay))
			}
			seen[strings.Join(obs, ";")] = true
			return s
		}, func(*verifrt.Sched, []int) {})
		var got []string
		for k := range seen {
			got = append(got, k)
		}
		sort.Strings(got)
		if fmt.Sprint(got) != fmt.Sprint(p.want) || len(bad) > 0 || st.Truncated {
			problems = append(problems, fmt.Sprintf("%s: outcomes %q, expected %q (%d schedules) %s", p.name, got, p.want, st.Executions, strings.Join(bad, " | ")))
		}
	}
	// a bare send after the consumer has gone must be reported as a thread blocked for ever
	s := verifrt.RunControlled(nil, 10000, func() {
		items := make(chan int)
		verifrt.Go(func() { verifrt.Send(items, 1); verifrt.Send(items, 2) })
		verifrt.Recv(items)
	})
	if len(s.Blocked) != 1 || !strings.Contains(s.Blocked[0], "send") {
		problems = append(problems, fmt.Sprintf("leak of a blocked sender not reported: blocked=%v", s.Blocked))
	}
	return problems
}
