package engine

import (
	"github.com/sdcio/yang-parser/verifrt"
)

// ScheduleStats summarises one exhaustive schedule exploration.
type ScheduleStats struct {
	Executions  int64
	Points      int64
	MaxPoints   int
	Truncated   bool // execution cap hit
}

// ExploreSchedules is the preemption-bounded stateless DFS over schedules: it
// runs exec with a prefix of choices (choice 0 afterwards), hands every complete
// execution to visit and recurses on every alternative at every later point
// whose preemption cost stays within bound (bound < 0: unbounded).
func ExploreSchedules(bound int, maxExec int64, exec func(choices []int) *verifrt.Sched, visit func(s *verifrt.Sched, choices []int)) ScheduleStats {
	var st ScheduleStats
	var explore func(prefix []int)
	explore = func(prefix []int) {
		if maxExec > 0 && st.Executions >= maxExec {
			st.Truncated = true
			return
		}
		s := exec(prefix)
		st.Executions++
		st.Points += int64(len(s.Points))
		if len(s.Points) > st.MaxPoints {
			st.MaxPoints = len(s.Points)
		}
		choices := make([]int, len(s.Points))
		for i, p := range s.Points {
			choices[i] = p.Chosen
		}
		visit(s, choices)
		if s.BadReplay != "" {
			return
		}
		pre := 0
		for i, p := range s.Points {
			if i >= len(prefix) {
				for alt := 1; alt < len(p.Enabled); alt++ {
					cost := pre
					if p.RunningEnabled {
						cost++ // switching away from a runnable thread
					}
					if bound >= 0 && cost > bound {
						continue
					}
					next := append(append([]int{}, choices[:i]...), alt)
					explore(next)
				}
			}
			if p.RunningEnabled && p.Chosen != 0 {
				pre++
			}
		}
	}
	explore(nil)
	return st
}

// ExploreScheduleDeviations is ExploreSchedules with a different cost: every choice other than the default one
// (index 0: the running thread goes on; when it cannot, the lowest enabled thread) is a deviation,
// whether or not it preempts a runnable thread.  Executions in which two threads hand a channel back
// and forth have a free choice at every blocking operation, so a preemption bound alone does not make
// their schedule space small; a deviation bound does.  All schedules with <= bound deviations are
// explored (maxExec > 0 caps the number of executions and sets Truncated when reached).
func ExploreScheduleDeviations(bound int, maxExec int64, exec func(choices []int) *verifrt.Sched, visit func(s *verifrt.Sched, choices []int)) ScheduleStats {
	var st ScheduleStats
	var explore func(prefix []int, used int)
	explore = func(prefix []int, used int) {
		if maxExec > 0 && st.Executions >= maxExec {
			st.Truncated = true
			return
		}
		s := exec(prefix)
		st.Executions++
		st.Points += int64(len(s.Points))
		if len(s.Points) > st.MaxPoints {
			st.MaxPoints = len(s.Points)
		}
		choices := make([]int, len(s.Points))
		for i, p := range s.Points {
			choices[i] = p.Chosen
		}
		visit(s, choices)
		if s.BadReplay != "" || used >= bound {
			return
		}
		for i, p := range s.Points {
			if i < len(prefix) {
				continue
			}
			for alt := 1; alt < len(p.Enabled); alt++ {
				explore(append(append([]int{}, choices[:i]...), alt), used+1)
			}
		}
	}
	explore(nil, 0)
	return st
}
