// Package engine is the common driver of all checks: worker processes,
// sharding, deadlines, violation confirmation, known findings, evidence.
package engine

import (
	"bufio"
	"crypto/sha1"
	"encoding/json"
	"fmt"
	"hash/fnv"
	"os"
	"os/exec"
	"path/filepath"
	"runtime"
	"sort"
	"strconv"
	"strings"
	"sync"
	"sync/atomic"
	"time"
)

// Violation is one disagreement between the implementation and the oracle.
type Violation struct {
	Key     string          `json:"key"`     // finding key (narrow, stable)
	Witness string          `json:"witness"` // the concrete failing case, human readable
	Detail  string          `json:"detail"`  // expected vs observed
	Harness string          `json:"harness"` // sub-harness name (for replay)
	Replay  json.RawMessage `json:"replay"`  // exact case, input of Harness.Replay
}

// Harness is one property's check.
type Harness struct {
	Prop string
	// Run enumerates the bounded space for c.Tier and reports through c.
	Run func(c *Ctx)
	// Replay re-executes one case; returns the violations it shows (nil = holds).
	Replay func(c *Ctx, sub string, replay json.RawMessage) []Violation
	// Static evidence text
	Rule        string
	Bound       map[string]string // tier -> bound description
	Assumptions []string
	Level       string // evidence level, default model_checking
}

var registry = map[string]*Harness{}

func Register(h *Harness) { registry[h.Prop] = h }

// Ctx is handed to a harness inside one worker process.
type Ctx struct {
	Prop     string
	Tier     string
	Seed     int64
	Shard    int
	NShards  int
	deadline time.Time
	expired  bool
	nchk     int
	careful  bool
	skip     map[string]bool
	out      *bufio.Writer

	Counters  map[string]int64
	outcomes  map[string]int64
	samples   []any
	nviol     int64
	violKeys  map[string]int
	notes     map[string]bool
	replaying bool
	collected []Violation
}

func hash64(s string) uint64 {
	h := fnv.New64a()
	h.Write([]byte(s))
	return h.Sum64()
}

// Owns says whether this worker is responsible for the subtree / case named key.
func (c *Ctx) Owns(key string) bool {
	if c.NShards <= 1 {
		return true
	}
	return int(hash64(key)%uint64(c.NShards)) == c.Shard
}

// Quick reports whether the quick tier is running.
func (c *Ctx) Quick() bool { return c.Tier != "thorough" }

// Case announces that the case named id is about to be executed on the real
// code.  It returns false when the case must be skipped (it killed a worker
// before and is reported separately).  replay builds the replay object lazily.
func (c *Ctx) Case(id string) bool {
	progress.Add(1)
	c.Counters["evaluations"]++
	if c.careful {
		if c.skip[id] {
			return false
		}
		b, _ := json.Marshal(map[string]any{"t": "case", "id": id})
		c.out.Write(b)
		c.out.WriteByte('\n')
		c.out.Flush()
	}
	return true
}

// Add adds n to a named counter (states, transitions, ...).
func (c *Ctx) Add(name string, n int64) { progress.Add(1); c.Counters[name] += n }

// progress is bumped by every Case/Add/Outcome call; the worker's watchdog
// (see workerMain) uses it to tell a worker that is blocked for ever from one
// that is working.
var progress atomic.Int64

// Nontrivial counts one distinct non-trivial case.
func (c *Ctx) Nontrivial() { c.Counters["distinct_nontrivial"]++ }

// Outcome records an observed outcome class (vacuity alarm when only one).
func (c *Ctx) Outcome(class string) {
	progress.Add(1)
	if len(c.outcomes) < 4096 || c.outcomes[class] > 0 {
		c.outcomes[class]++
	}
}

// Sample keeps a few concrete cases for the evidence file.
func (c *Ctx) Sample(v any) {
	if len(c.samples) < 4 {
		c.samples = append(c.samples, v)
	}
}

// Note records a free-text remark for the evidence file (deduplicated).
func (c *Ctx) Note(s string) { c.notes[s] = true }

// Expired reports whether the internal deadline has passed.  Harnesses poll it
// between subtrees and stop cleanly (exhaustive:false).
func (c *Ctx) Expired() bool {
	if c.expired {
		return true
	}
	c.nchk++
	if c.nchk&0xff == 0 && time.Now().After(c.deadline) {
		c.expired = true
	}
	return c.expired
}

// Report records a violation.  At most 50 per distinct key are forwarded.
func (c *Ctx) Report(v Violation) {
	if c.replaying {
		c.collected = append(c.collected, v)
		return
	}
	c.nviol++
	c.violKeys[v.Key]++
	if c.violKeys[v.Key] > 3 {
		return
	}
	b, _ := json.Marshal(map[string]any{"t": "viol", "v": v})
	c.out.Write(b)
	c.out.WriteByte('\n')
	c.out.Flush()
}

func newCtx(prop, tier string, seed int64, shard, n int, budget time.Duration) *Ctx {
	return &Ctx{Prop: prop, Tier: tier, Seed: seed, Shard: shard, NShards: n,
		deadline: time.Now().Add(budget),
		Counters: map[string]int64{}, outcomes: map[string]int64{}, violKeys: map[string]int{},
		notes: map[string]bool{}, skip: map[string]bool{},
		out: bufio.NewWriterSize(os.Stdout, 1<<16)}
}

type summary struct {
	T        string           `json:"t"`
	Counters map[string]int64 `json:"counters"`
	Outcomes map[string]int64 `json:"outcomes"`
	Samples  []any            `json:"samples"`
	Expired  bool             `json:"expired"`
	ViolKeys map[string]int   `json:"viol_keys"`
	Notes    []string         `json:"notes"`
	NViol    int64            `json:"nviol"`
}

// ---------------------------------------------------------------- entry point

func budgetFor(tier string) time.Duration {
	if s := os.Getenv("VERIF_BUDGET_S"); s != "" {
		if n, err := strconv.Atoi(s); err == nil {
			return time.Duration(n) * time.Second
		}
	}
	if tier == "thorough" {
		return 25 * time.Minute
	}
	return 100 * time.Second
}

// Main is called by cmd/vcheck.
func Main() {
	args := os.Args[1:]
	if len(args) >= 1 && args[0] == "-worker" {
		workerMain(args[1:])
		return
	}
	if len(args) < 2 {
		fmt.Fprintln(os.Stderr, "usage: vcheck C## quick|thorough | vcheck C## replay <file>")
		os.Exit(2)
	}
	prop, mode := args[0], args[1]
	h := registry[prop]
	if h == nil {
		fmt.Fprintf(os.Stderr, "vcheck: no harness for %s\n", prop)
		os.Exit(2)
	}
	if mode == "replay" {
		if len(args) < 3 {
			fmt.Fprintln(os.Stderr, "replay needs a file")
			os.Exit(2)
		}
		os.Exit(replayFile(h, args[2]))
	}
	os.Exit(parent(h, mode))
}

// ruleAddition: what was added to the check after the harness's rule text was written (kept in
// one file, check_additions.json, which also feeds MANIFEST.json).
func ruleAddition(prop string) string {
	b, err := os.ReadFile(filepath.Join(verifDir(), "check_additions.json"))
	if err != nil {
		return ""
	}
	m := map[string]string{}
	if json.Unmarshal(b, &m) != nil || m[prop] == "" {
		return ""
	}
	return " Additions:" + m[prop]
}

func verifDir() string {
	if d := os.Getenv("VERIF_DIR"); d != "" {
		return d
	}
	return "/verif"
}

func workerMain(args []string) {
	// -worker <shard> <n> <careful 0|1> <skipfile|-> <prop> <tier> <seed>
	shard, _ := strconv.Atoi(args[0])
	n, _ := strconv.Atoi(args[1])
	careful := args[2] == "1"
	skipFile := args[3]
	prop, tier := args[4], args[5]
	seed, _ := strconv.ParseInt(args[6], 10, 64)
	h := registry[prop]
	c := newCtx(prop, tier, seed, shard, n, budgetFor(tier))
	c.careful = careful
	if skipFile != "-" {
		if b, err := os.ReadFile(skipFile); err == nil {
			for _, l := range strings.Split(string(b), "\n") {
				if l != "" {
					c.skip[l] = true
				}
			}
		}
	}
	runtime.GOMAXPROCS(2)
	// Safety net, not an oracle: blocking that the harnesses cannot see (a real
	// lock or channel operation outside the scheduler that never completes) would
	// leave the worker, and so the check, waiting for ever.  Cases take
	// milliseconds; a worker that has not finished a single step for 10 minutes is
	// taken for dead: it prints its goroutines and exits, and the parent then
	// treats it like any other worker death (careful re-run that names the case,
	// which must hang again to be reported).
	go func() {
		limit := 600
		if v, err := strconv.Atoi(os.Getenv("VERIF_STALL_SECS")); err == nil && v > 0 {
			limit = v
		}
		last, since := progress.Load(), time.Now()
		for {
			time.Sleep(5 * time.Second)
			if p := progress.Load(); p != last {
				last, since = p, time.Now()
			} else if time.Since(since) > time.Duration(limit)*time.Second {
				buf := make([]byte, 1<<16)
				buf = buf[:runtime.Stack(buf, true)]
				fmt.Fprintf(os.Stderr, "VERIF-WATCHDOG: no progress for %d s: the case blocks for ever\n%s\n", limit, buf)
				// the complete goroutine dump goes to a file (the violation detail is cut short)
				dir := filepath.Join(verifDir(), "replays", prop)
				os.MkdirAll(dir, 0o755)
				os.WriteFile(filepath.Join(dir, fmt.Sprintf("watchdog-shard%d.txt", shard)), buf, 0o644)
				os.Exit(3)
			}
		}
	}()
	h.Run(c)
	var notes []string
	for s := range c.notes {
		notes = append(notes, s)
	}
	sort.Strings(notes)
	b, _ := json.Marshal(summary{T: "sum", Counters: c.Counters, Outcomes: c.outcomes, Samples: c.samples,
		Expired: c.expired, ViolKeys: c.violKeys, Notes: notes, NViol: c.nviol})
	c.out.Write(b)
	c.out.WriteByte('\n')
	c.out.Flush()
}

type knownFinding struct {
	Property string `json:"property"`
	Key      string `json:"key"`
	Witness  string `json:"witness"`
	What     string `json:"what"`
	Fixed    string `json:"fixed,omitempty"` // commit id: entry is documentation only
}

func loadKnown(prop string) map[string]knownFinding {
	out := map[string]knownFinding{}
	f, err := os.Open(filepath.Join(verifDir(), "known_findings.jsonl"))
	if err != nil {
		return out
	}
	defer f.Close()
	sc := bufio.NewScanner(f)
	sc.Buffer(make([]byte, 1<<20), 1<<24)
	for sc.Scan() {
		l := strings.TrimSpace(sc.Text())
		if l == "" || strings.HasPrefix(l, "#") {
			continue
		}
		var k knownFinding
		if json.Unmarshal([]byte(l), &k) != nil {
			continue
		}
		if k.Property == prop && k.Fixed == "" {
			out[k.Key] = k
		}
	}
	return out
}

type workerResult struct {
	sum      *summary
	viols    []Violation
	lastCase string
	err      error
	stderr   string
}

func runWorker(self string, shard, n int, careful bool, skipFile, prop, tier string, seed int64) workerResult {
	cf := "0"
	if careful {
		cf = "1"
	}
	cmd := exec.Command(self, "-worker", strconv.Itoa(shard), strconv.Itoa(n), cf, skipFile, prop, tier, strconv.FormatInt(seed, 10))
	cmd.Env = append(os.Environ(), "GOMAXPROCS=2")
	stdout, _ := cmd.StdoutPipe()
	var errBuf strings.Builder
	cmd.Stderr = &limitedWriter{w: &errBuf, n: 1 << 16}
	var res workerResult
	if err := cmd.Start(); err != nil {
		res.err = err
		return res
	}
	sc := bufio.NewScanner(stdout)
	sc.Buffer(make([]byte, 1<<20), 1<<26)
	for sc.Scan() {
		line := sc.Bytes()
		if len(line) == 0 || line[0] != '{' {
			continue
		}
		var head struct {
			T  string    `json:"t"`
			ID string    `json:"id"`
			V  Violation `json:"v"`
		}
		if json.Unmarshal(line, &head) != nil {
			continue
		}
		switch head.T {
		case "case":
			res.lastCase = head.ID
		case "viol":
			res.viols = append(res.viols, head.V)
		case "sum":
			var s summary
			if json.Unmarshal(line, &s) == nil {
				res.sum = &s
			}
		}
	}
	res.err = cmd.Wait()
	res.stderr = errBuf.String()
	return res
}

type limitedWriter struct {
	w *strings.Builder
	n int
}

func (l *limitedWriter) Write(p []byte) (int, error) {
	if l.n > 0 {
		k := len(p)
		if k > l.n {
			k = l.n
		}
		l.w.Write(p[:k])
		l.n -= k
	}
	return len(p), nil
}

func parent(h *Harness, tier string) int {
	start := time.Now()
	seed := int64(1)
	if s := os.Getenv("VERIF_SEED"); s != "" {
		if v, err := strconv.ParseInt(s, 10, 64); err == nil {
			seed = v
		}
	}
	self, _ := os.Executable()
	n := runtime.NumCPU()
	if s := os.Getenv("VERIF_WORKERS"); s != "" {
		if v, err := strconv.Atoi(s); err == nil && v > 0 {
			n = v
		}
	}
	if n > 16 {
		n = 16
	}
	results := make([]workerResult, n)
	var deaths []Violation
	var wg sync.WaitGroup
	var mu sync.Mutex
	harnessErr := ""
	for i := 0; i < n; i++ {
		wg.Add(1)
		go func(i int) {
			defer wg.Done()
			r := runWorker(self, i, n, false, "-", h.Prop, tier, seed)
			if r.sum == nil {
				// the worker died: find the culprit case(s) in careful mode
				skipFile := filepath.Join(os.TempDir(), fmt.Sprintf("vcheck-skip-%d-%d", os.Getpid(), i))
				defer os.Remove(skipFile)
				var skipped []string
				firstErr := r.stderr
				for attempt := 0; attempt < 3; attempt++ { // (three fatal cases per shard are reported; more only cost time)
					os.WriteFile(skipFile, []byte(strings.Join(skipped, "\n")), 0o644)
					r = runWorker(self, i, n, true, skipFile, h.Prop, tier, seed)
					if r.sum != nil {
						break
					}
					if r.lastCase == "" {
						mu.Lock()
						harnessErr = fmt.Sprintf("worker %d died before its first case: %v\n%s", i, r.err, tail(firstErr, 2000))
						mu.Unlock()
						break
					}
					mu.Lock()
					detail := tail(r.stderr, 1500)
					if ix := strings.Index(r.stderr, "VERIF-WATCHDOG"); ix >= 0 {
						detail = r.stderr[ix:]
						if len(detail) > 1500 {
							detail = detail[:1500]
						}
					}
					deaths = append(deaths, Violation{Key: "process-death", Witness: r.lastCase,
						Detail: "worker process died while executing this case: " + detail, Harness: "death",
						Replay: mustJSON(map[string]string{"case": r.lastCase})})
					mu.Unlock()
					skipped = append(skipped, r.lastCase)
				}
				if r.sum == nil && harnessErr == "" {
					// every attempt named a different fatal case: the deaths are reported as
					// violations; this shard's remaining cases were not covered
					r.sum = &summary{T: "sum", Counters: map[string]int64{}, Outcomes: map[string]int64{}, Expired: true, ViolKeys: map[string]int{},
						Notes: []string{fmt.Sprintf("worker %d died on %d different cases in a row; the rest of its shard was not explored", i, len(skipped))}}
				}
			}
			results[i] = r
		}(i)
	}
	wg.Wait()
	if harnessErr != "" {
		fmt.Fprintf(os.Stderr, "HARNESS-ERROR property=%s %s\n", h.Prop, harnessErr)
		return 2
	}

	// merge
	counters := map[string]int64{}
	outcomes := map[string]int64{}
	var samples []any
	expired := false
	violKeyCount := map[string]int{}
	notes := map[string]bool{}
	var viols []Violation
	for _, r := range results {
		for k, v := range r.sum.Counters {
			counters[k] += v
		}
		for k, v := range r.sum.Outcomes {
			outcomes[k] += v
		}
		if len(samples) < 6 {
			samples = append(samples, r.sum.Samples...)
		}
		expired = expired || r.sum.Expired
		for k, v := range r.sum.ViolKeys {
			violKeyCount[k] += v
		}
		for _, s := range r.sum.Notes {
			notes[s] = true
		}
		viols = append(viols, r.viols...)
	}
	viols = append(viols, deaths...)
	for _, d := range deaths {
		violKeyCount[d.Key]++
	}

	known := loadKnown(h.Prop)
	knownMatched := map[string]int{}
	byKey := map[string]Violation{}
	for _, v := range viols {
		if _, ok := byKey[v.Key]; !ok || len(v.Witness) < len(byKey[v.Key].Witness) {
			byKey[v.Key] = v
		}
	}
	var keys []string
	for k := range byKey {
		keys = append(keys, k)
	}
	sort.Strings(keys)
	unknown := 0
	exit := 0
	for _, k := range keys {
		v := byKey[k]
		if kf, ok := known[k]; ok {
			knownMatched[k] = violKeyCount[k]
			fmt.Printf("KNOWN-FINDING: property=%s key=%q occurrences=%d %s (witness here: %s)\n", h.Prop, k, violKeyCount[k], kf.What, trunc(v.Witness, 120))
			continue
		}
		unknown++
		exit = 1
		if unknown > 25 {
			continue
		}
		dir := filepath.Join(verifDir(), "replays", h.Prop)
		os.MkdirAll(dir, 0o755)
		sum := sha1.Sum([]byte(k + "\x00" + v.Witness))
		path := filepath.Join(dir, fmt.Sprintf("%x.json", sum[:6]))
		b, _ := json.MarshalIndent(map[string]any{"property": h.Prop, "key": k, "witness": v.Witness, "detail": v.Detail,
			"harness": v.Harness, "replay": v.Replay, "occurrences": violKeyCount[k]}, "", " ")
		os.WriteFile(path, b, 0o644)
		fmt.Printf("VIOLATION property=%s replay=%s key=%q witness=%s :: %s\n", h.Prop, path, k, trunc(v.Witness, 200), trunc(v.Detail, 300))
	}
	if f := os.Getenv("VERIF_DUMP_KEYS"); f != "" {
		var b strings.Builder
		for _, k := range keys {
			v := byKey[k]
			_, isKnown := known[k]
			fmt.Fprintf(&b, "%d\t%v\t%s\t%s\t%s\n", violKeyCount[k], isKnown, k, trunc(v.Witness, 150), trunc(v.Detail, 300))
		}
		os.WriteFile(f, []byte(b.String()), 0o644)
	}
	if unknown > 25 {
		fmt.Printf("(%d further distinct violation keys not printed)\n", unknown-25)
	}

	// evidence
	var oc []string
	for k := range outcomes {
		oc = append(oc, k)
	}
	sort.Strings(oc)
	if len(oc) > 40 {
		oc = oc[:40]
	}
	if counters["states"] == 0 {
		counters["states"] = counters["evaluations"]
	}
	if counters["transitions"] == 0 {
		counters["transitions"] = counters["evaluations"]
	}
	var noteList []string
	for s := range notes {
		noteList = append(noteList, s)
	}
	sort.Strings(noteList)
	if len(samples) == 0 {
		samples = append(samples, "(no sample recorded)")
	}
	if len(samples) > 6 {
		samples = samples[:6]
	}
	cov := map[string]any{
		"states":                        counters["states"],
		"transitions":                   counters["transitions"],
		"traces_validated_against_impl": counters["evaluations"],
		"evaluations":                   counters["evaluations"],
		"distinct_nontrivial":           counters["distinct_nontrivial"],
		"rule":                          h.Rule + ruleAddition(h.Prop),
		"samples":                       samples,
		"outcome_classes":               len(outcomes),
		"outcome_class_names":           oc,
		"bound":                         h.Bound[tier],
		"exhaustive":                    !expired,
		"known_findings_matched":        knownMatched,
		"workers":                       n,
		"counters":                      counters,
		"notes":                         noteList,
	}
	level := h.Level
	if level == "" {
		level = "model_checking"
	}
	ev := map[string]any{
		"property_id": h.Prop, "tier": tier, "seed": seed, "level": level,
		"coverage": cov, "assumptions": h.Assumptions,
		"wall_s": time.Since(start).Seconds(), "violations": unknown,
	}
	b, _ := json.MarshalIndent(ev, "", " ")
	os.MkdirAll(filepath.Join(verifDir(), "evidence"), 0o755)
	if err := os.WriteFile(filepath.Join(verifDir(), "evidence", h.Prop+".json"), b, 0o644); err != nil {
		fmt.Fprintf(os.Stderr, "HARNESS-ERROR cannot write evidence: %v\n", err)
		return 2
	}
	fmt.Printf("%s %s: evaluations=%d states=%d transitions=%d nontrivial=%d outcome_classes=%d exhaustive=%v known=%d violations=%d wall=%.1fs\n",
		h.Prop, tier, counters["evaluations"], counters["states"], counters["transitions"], counters["distinct_nontrivial"],
		len(outcomes), !expired, len(knownMatched), unknown, time.Since(start).Seconds())
	if len(outcomes) <= 1 && counters["evaluations"] > 1 {
		fmt.Fprintf(os.Stderr, "HARNESS-ERROR property=%s vacuous exploration: %d outcome classes\n", h.Prop, len(outcomes))
		return 2
	}
	return exit
}

func mustJSON(v any) json.RawMessage {
	b, _ := json.Marshal(v)
	return b
}

// JSON marshals a replay object.
func JSON(v any) json.RawMessage { return mustJSON(v) }

func trunc(s string, n int) string {
	s = strings.ReplaceAll(s, "\n", "\\n")
	if len(s) > n {
		return s[:n] + "..."
	}
	return s
}

func tail(s string, n int) string {
	if len(s) > n {
		return "..." + s[len(s)-n:]
	}
	return s
}

func replayFile(h *Harness, path string) int {
	b, err := os.ReadFile(path)
	if err != nil {
		fmt.Fprintln(os.Stderr, err)
		return 2
	}
	var f struct {
		Harness string          `json:"harness"`
		Replay  json.RawMessage `json:"replay"`
		Key     string          `json:"key"`
	}
	if err := json.Unmarshal(b, &f); err != nil {
		fmt.Fprintln(os.Stderr, err)
		return 2
	}
	c := newCtx(h.Prop, "quick", 1, 0, 1, time.Hour)
	c.replaying = true
	if h.Replay == nil {
		fmt.Fprintln(os.Stderr, "harness has no replay function")
		return 2
	}
	vs := h.Replay(c, f.Harness, f.Replay)
	vs = append(vs, c.collected...)
	if len(vs) == 0 {
		fmt.Printf("replay: property %s holds on this case\n", h.Prop)
		return 0
	}
	for _, v := range vs {
		fmt.Printf("VIOLATION property=%s replay=%s key=%q witness=%s :: %s\n", h.Prop, path, v.Key, trunc(v.Witness, 200), trunc(v.Detail, 400))
	}
	return 1
}

// Confirm re-executes check n times and returns true when every run reports a
// violation with the same key; used before a violation is forwarded.
func Confirm(n int, key string, check func() []Violation) bool {
	for i := 0; i < n; i++ {
		vs := check()
		ok := false
		for _, v := range vs {
			if v.Key == key {
				ok = true
			}
		}
		if !ok {
			return false
		}
	}
	return true
}
