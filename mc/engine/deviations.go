package engine

// DeviationStats summarises an exploration of owned choice points.
type DeviationStats struct {
	Executions int64
	Points     int64
	Truncated  bool
}

// ExploreDeviations is the deviation-bounded DFS over sequences of environment
// answers: exec runs with a prefix of choices (0 = default afterwards) and
// returns the number of alternatives at every choice point it met; every
// alternative at every point at or after len(prefix) is explored while the
// number of non-default choices stays <= bound.
func ExploreDeviations(bound int, maxExec int64, exec func(choices []int) []int, visit func(choices []int)) DeviationStats {
	var st DeviationStats
	var explore func(prefix []int, devs int)
	explore = func(prefix []int, devs int) {
		if maxExec > 0 && st.Executions >= maxExec {
			st.Truncated = true
			return
		}
		nalts := exec(prefix)
		st.Executions++
		st.Points += int64(len(nalts))
		visit(prefix)
		if devs >= bound {
			return
		}
		for i := len(prefix); i < len(nalts); i++ {
			for alt := 1; alt < nalts[i]; alt++ {
				next := make([]int, i+1)
				copy(next, prefix)
				next[i] = alt
				explore(next, devs+1)
			}
		}
	}
	explore([]int{}, 0)
	return st
}
