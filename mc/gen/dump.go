// Package gen holds generators shared by the compile-level checks and the
// canonical dump of a compiled schema.
package gen

import (
	"fmt"
	"sort"
	"strings"

	"github.com/sdcio/yang-parser/schema"
)

// DumpOpts selects optional parts of the dump.
type DumpOpts struct {
	NoDescriptions bool
	NoMachines     bool // omit PrintMachine() listings of must/when/leafref
}

// Rec is one record of the canonical dump: a node reachable through
// Children()/Choices(), siblings sorted by name.
type Rec struct {
	Path   string
	Fields map[string]string
}

func (r Rec) String() string {
	keys := make([]string, 0, len(r.Fields))
	for k := range r.Fields {
		keys = append(keys, k)
	}
	sort.Strings(keys)
	var b strings.Builder
	b.WriteString(r.Path)
	for _, k := range keys {
		fmt.Fprintf(&b, " %s=%q", k, r.Fields[k])
	}
	return b.String()
}

func kindOf(n schema.Node) string {
	switch n.(type) {
	case schema.ModelSet:
		return "modelset"
	case schema.Model:
		return "model"
	case schema.Container:
		return "container"
	case schema.List:
		return "list"
	case schema.ListEntry:
		return "listentry"
	case schema.LeafList:
		return "leaf-list"
	case schema.Leaf:
		return "leaf"
	case schema.LeafValue:
		return "leafvalue"
	case schema.Choice:
		return "choice"
	case schema.Case:
		return "case"
	case schema.OpdCommand:
		return "opd:command"
	case schema.OpdOption:
		return "opd:option"
	case schema.OpdArgument:
		return "opd:argument"
	case schema.OpdOptionValue:
		return "opd:optionvalue"
	case schema.Tree:
		return "tree"
	}
	return fmt.Sprintf("%T", n)
}

// TypeString renders a schema type completely and deterministically.
func TypeString(t schema.Type, o DumpOpts) string {
	if t == nil {
		return "<nil>"
	}
	var b strings.Builder
	nm := t.Name()
	fmt.Fprintf(&b, "%T{name=%s|%s", t, nm.Space, nm.Local)
	if d, ok := t.Default(); ok {
		fmt.Fprintf(&b, " default=%q", d)
	}
	switch x := t.(type) {
	case schema.Decimal64:
		fmt.Fprintf(&b, " fd=%d ranges=[", int(x.Fd()))
		for _, r := range x.Rbs() {
			fmt.Fprintf(&b, "%v..%v ", r.Start, r.End)
		}
		fmt.Fprintf(&b, "] msg=%q tag=%q", x.Msg(), x.AppTag())
	case schema.Integer:
		fmt.Fprintf(&b, " bits=%d ranges=[", int(x.BitWidth()))
		for _, r := range x.Rbs() {
			fmt.Fprintf(&b, "%d..%d ", r.Start, r.End)
		}
		fmt.Fprintf(&b, "] msg=%q tag=%q", x.Msg(), x.AppTag())
	case schema.Uinteger:
		fmt.Fprintf(&b, " bits=%d ranges=[", int(x.BitWidth()))
		for _, r := range x.Rbs() {
			fmt.Fprintf(&b, "%d..%d ", r.Start, r.End)
		}
		fmt.Fprintf(&b, "] msg=%q tag=%q", x.Msg(), x.AppTag())
	case schema.String:
		if l := x.Len(); l != nil {
			b.WriteString(" length=[")
			for _, lb := range l.Lbs {
				fmt.Fprintf(&b, "%d..%d ", lb.Start, lb.End)
			}
			fmt.Fprintf(&b, "] lmsg=%q ltag=%q", l.Msg, l.AppTag)
		}
		b.WriteString(" patterns=[")
		for _, ps := range x.Pats() {
			b.WriteString("(")
			for _, p := range ps {
				fmt.Fprintf(&b, "%q msg=%q tag=%q;", p.Pattern, p.Msg, p.AppTag)
			}
			b.WriteString(")")
		}
		b.WriteString("]")
	case schema.Enumeration:
		b.WriteString(" enums=[")
		for _, e := range x.Enums() {
			fmt.Fprintf(&b, "%s=%d/%s ", e.Val, e.Value, e.Status())
		}
		b.WriteString("]")
	case schema.Identityref:
		var ids []string
		for _, i := range x.Identities() {
			ids = append(ids, fmt.Sprintf("%s|%s|%s|%s", i.Module, i.Namespace, i.Val, i.Value))
		}
		sort.Strings(ids)
		fmt.Fprintf(&b, " identities=%v", ids)
	case schema.Union:
		b.WriteString(" members=[")
		for _, m := range x.Typs() {
			b.WriteString(TypeString(m, o))
			b.WriteString(" ")
		}
		b.WriteString("]")
	case schema.Leafref:
		if m := x.Mach(); m != nil {
			fmt.Fprintf(&b, " path=%q", m.GetExpr())
			if !o.NoMachines {
				fmt.Fprintf(&b, " mach=%q", m.PrintMachine())
			}
		}
	case schema.Bits:
		fmt.Fprintf(&b, " bits=%v", x)
	}
	b.WriteString("}")
	return b.String()
}

func machines(whens []schema.WhenContext, musts []schema.MustContext, o DumpOpts) (string, string) {
	var w, m strings.Builder
	for _, x := range whens {
		fmt.Fprintf(&w, "[expr=%q parent=%v ns=%q", exprOf(x.WhenAndMustContext), x.RunAsParent, x.Namespace)
		if !o.NoMachines && x.Mach != nil {
			fmt.Fprintf(&w, " mach=%q", x.Mach.PrintMachine())
		}
		w.WriteString("]")
	}
	for _, x := range musts {
		fmt.Fprintf(&m, "[expr=%q msg=%q tag=%q ns=%q", exprOf(x.WhenAndMustContext), x.ErrMsg, x.AppTag, x.Namespace)
		if !o.NoMachines && x.Mach != nil {
			fmt.Fprintf(&m, " mach=%q", x.Mach.PrintMachine())
		}
		m.WriteString("]")
	}
	return w.String(), m.String()
}

func exprOf(c schema.WhenAndMustContext) string {
	if c.Mach == nil {
		return "<nil>"
	}
	return c.Mach.GetExpr()
}

func nodeRec(path string, n schema.Node, o DumpOpts) Rec {
	f := map[string]string{}
	f["kind"] = kindOf(n)
	f["name"] = n.Name()
	f["ns"] = n.Namespace()
	f["module"] = n.Module()
	f["submodule"] = n.Submodule()
	f["config"] = fmt.Sprint(n.Config())
	f["status"] = n.Status().String()
	f["mandatory"] = fmt.Sprint(n.Mandatory())
	f["presence"] = fmt.Sprint(n.HasPresence())
	f["ordby"] = n.OrdBy()
	f["hasdefault"] = fmt.Sprint(n.HasDefault())
	dn := append([]string{}, n.DefaultChildNames()...)
	sort.Strings(dn)
	f["defchildren"] = strings.Join(dn, ",")
	if !o.NoDescriptions {
		f["desc"] = n.Description()
	}
	f["args"] = strings.Join(n.Arguments(), "|")
	w, m := machines(n.Whens(), n.Musts(), o)
	f["whens"], f["musts"] = w, m
	switch x := n.(type) {
	case schema.List:
		f["keys"] = strings.Join(x.Keys(), ",")
		f["limit"] = fmt.Sprintf("%d..%d", x.Limit().Min, x.Limit().Max)
		var us []string
		for _, u := range x.Uniques() {
			var ps []string
			for _, p := range u {
				var el []string
				for _, e := range p {
					el = append(el, e.Space+"|"+e.Local)
				}
				ps = append(ps, strings.Join(el, "/"))
			}
			us = append(us, strings.Join(ps, " "))
		}
		f["uniques"] = strings.Join(us, ";")
	case schema.LeafList:
		f["limit"] = fmt.Sprintf("%d..%d", x.Limit().Min, x.Limit().Max)
		f["type"] = TypeString(x.Type(), o)
	case schema.Leaf:
		d, has := x.Default()
		f["default"] = fmt.Sprintf("%q/%v", d, has)
		f["type"] = TypeString(x.Type(), o)
	case schema.Choice:
		f["defaultcase"] = x.DefaultCase()
	case schema.Container:
		f["presence-stmt"] = fmt.Sprint(x.Presence())
	}
	return Rec{Path: path, Fields: f}
}

func walk(path string, n schema.Node, o DumpOpts, out *[]Rec, depth int) {
	if depth > 40 {
		*out = append(*out, Rec{Path: path + "/<too deep>", Fields: map[string]string{}})
		return
	}
	kids := append([]schema.Node{}, n.Children()...)
	sort.SliceStable(kids, func(i, j int) bool { return kids[i].Name() < kids[j].Name() })
	for _, k := range kids {
		p := path + "/" + k.Name()
		*out = append(*out, nodeRec(p, k, o))
		switch k.(type) {
		case schema.LeafValue, schema.Leaf, schema.LeafList:
			continue
		}
		walk(p, k, o, out, depth+1)
	}
	chs := append([]schema.Node{}, n.Choices()...)
	sort.SliceStable(chs, func(i, j int) bool { return chs[i].Name() < chs[j].Name() })
	for _, ch := range chs {
		p := path + "/{choice " + ch.Name() + "}"
		*out = append(*out, nodeRec(p, ch, o))
		walk(p, ch, o, out, depth+1)
	}
}

// Dump renders the complete compiled schema.
func Dump(ms schema.ModelSet, o DumpOpts) []Rec {
	var out []Rec
	walk("", ms, o, &out, 0)
	// per module records
	var names []string
	for n := range ms.Modules() {
		names = append(names, n)
	}
	sort.Strings(names)
	for _, n := range names {
		m := ms.Modules()[n]
		feats := append([]string{}, m.Features()...)
		sort.Strings(feats)
		devs := append([]string{}, m.Deviations()...)
		sort.Strings(devs)
		f := map[string]string{"identifier": m.Identifier(), "version": m.Version(), "ns": m.Namespace(),
			"features": strings.Join(feats, ","), "deviations": strings.Join(devs, ",")}
		out = append(out, Rec{Path: "module:" + n, Fields: f})
		var sub []Rec
		walk("module:"+n, m, o, &sub, 0)
		out = append(out, sub...)
		var rn []string
		for r := range m.Rpcs() {
			rn = append(rn, r)
		}
		sort.Strings(rn)
		for _, r := range rn {
			rpc := m.Rpcs()[r]
			out = append(out, Rec{Path: "module:" + n + "/rpc:" + r, Fields: map[string]string{}})
			if rpc.Input() != nil {
				walk("module:"+n+"/rpc:"+r+"/input", rpc.Input(), o, &out, 0)
			}
			if rpc.Output() != nil {
				walk("module:"+n+"/rpc:"+r+"/output", rpc.Output(), o, &out, 0)
			}
		}
		var nn []string
		for x := range m.Notifications() {
			nn = append(nn, x)
		}
		sort.Strings(nn)
		for _, x := range nn {
			out = append(out, Rec{Path: "module:" + n + "/notification:" + x, Fields: map[string]string{}})
			walk("module:"+n+"/notification:"+x, m.Notifications()[x].Schema(), o, &out, 0)
		}
	}
	var sn []string
	for n := range ms.Submodules() {
		sn = append(sn, n)
	}
	sort.Strings(sn)
	for _, n := range sn {
		s := ms.Submodules()[n]
		out = append(out, Rec{Path: "submodule:" + n, Fields: map[string]string{"identifier": s.Identifier(), "ns": s.Namespace()}})
	}
	return out
}

// DumpString renders the dump as text, one record per line.
func DumpString(ms schema.ModelSet, o DumpOpts) string {
	var b strings.Builder
	for _, r := range Dump(ms, o) {
		b.WriteString(r.String())
		b.WriteByte('\n')
	}
	return b.String()
}

// FirstDiff returns the first differing line of two dumps.
func FirstDiff(a, b string) string {
	la, lb := strings.Split(a, "\n"), strings.Split(b, "\n")
	for i := 0; i < len(la) || i < len(lb); i++ {
		var x, y string
		if i < len(la) {
			x = la[i]
		}
		if i < len(lb) {
			y = lb[i]
		}
		if x != y {
			return fmt.Sprintf("line %d:\n  A: %s\n  B: %s", i+1, trunc(x), trunc(y))
		}
	}
	return ""
}

func trunc(s string) string {
	if len(s) > 700 {
		return s[:700] + "..."
	}
	return s
}
