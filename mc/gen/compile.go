package gen

import (
	"errors"
	"fmt"
	"sort"

	"github.com/sdcio/yang-parser/compile"
	"github.com/sdcio/yang-parser/parse"
	"github.com/sdcio/yang-parser/schema"
	"github.com/sdcio/yang-parser/verifrt"
)

// Result of one compile of a module set.
type Result struct {
	MS        schema.ModelSet
	Err       error  // parse or compile error
	Stage     string // "parse" or "compile" when Err != nil
	Panic     any
	Horizon   bool  // the step horizon was exceeded
	Choices   []int // owned map-order choice points: number of alternatives at each
	BadReplay string
}

func (r Result) OK() bool { return r.Err == nil && r.Panic == nil && !r.Horizon }

// Verdict is "ok", "error", "panic" or "nonterminating".
func (r Result) Verdict() string {
	switch {
	case r.Horizon:
		return "nonterminating"
	case r.Panic != nil:
		return "panic"
	case r.Err != nil:
		return "error"
	}
	return "ok"
}

// Options of a compile.
type Options struct {
	Features    []string // enabled features "module:feature"; nil = checker that enables nothing
	AllFeatures bool     // no features checker at all is not the same as all enabled: enable listed ones only
	// FeatureSupply: how the enabled set reaches the compiler. "" = one checker listing the enabled
	// features; the other ways compose checkers over FeatureUniverse (the last checker that knows a
	// feature decides): "enable-all-then-disable", "disable-all-then-enable", "with-nil-members",
	// "enable-disable-enable".
	FeatureSupply   string
	FeatureUniverse []string
	Filter          compile.SchemaFilter
	MapOrder        []int // prefix of map-order choices (nil = Go's native order, chooser off); use []int{} for canonical order
	Horizon         int64
}

// Compile parses every text afresh (compile mutates parse trees) and compiles
// the set.  It never lets a panic escape.
func Compile(mods map[string]string, o Options) (res Result) {
	horizon := o.Horizon
	if horizon == 0 {
		horizon = 3000000
	}
	if o.MapOrder != nil {
		k := 0
		verifrt.SetChooser(func(site, n, nalt int) int {
			res.Choices = append(res.Choices, nalt)
			c := 0
			if k < len(o.MapOrder) {
				c = o.MapOrder[k]
				if c >= nalt || c < 0 {
					if res.BadReplay == "" {
						res.BadReplay = fmt.Sprintf("choice point %d (site %d): choice %d of %d", k, site, c, nalt)
					}
					c = 0
				}
			}
			k++
			return c
		})
		defer verifrt.SetChooser(nil)
	}
	verifrt.SetHorizon(horizon)
	defer func() {
		if r := recover(); r != nil {
			res.Panic = r
		}
		res.Horizon = verifrt.HorizonHit
		verifrt.SetHorizon(0)
		if res.Horizon {
			res.Panic, res.Err = nil, nil
		}
		if res.Err != nil {
			var he *verifrt.HorizonError
			if errors.As(res.Err, &he) {
				res.Horizon, res.Err = true, nil
			}
		}
	}()
	trees := map[string]*parse.Tree{}
	names := make([]string, 0, len(mods))
	for n := range mods {
		names = append(names, n)
	}
	sort.Strings(names)
	for _, n := range names {
		t, err := parse.Parse(n+".yang", mods[n], nil)
		if err != nil {
			res.Err, res.Stage = err, "parse"
			return
		}
		trees[n] = t
	}
	var fc compile.FeaturesChecker
	if o.Features != nil {
		fc = compile.FeaturesFromNames(true, o.Features...)
		on := map[string]bool{}
		for _, f := range o.Features {
			on[f] = true
		}
		var off []string
		for _, f := range o.FeatureUniverse {
			if !on[f] {
				off = append(off, f)
			}
		}
		switch o.FeatureSupply {
		case "enable-all-then-disable":
			fc = compile.MultiFeatureCheckers(compile.FeaturesFromNames(true, o.FeatureUniverse...), compile.FeaturesFromNames(false, off...))
		case "disable-all-then-enable":
			fc = compile.MultiFeatureCheckers(compile.FeaturesFromNames(false, o.FeatureUniverse...), compile.FeaturesFromNames(true, o.Features...))
		case "with-nil-members":
			fc = compile.MultiFeatureCheckers(nil, compile.FeaturesFromNames(true, o.Features...), nil)
		case "enable-disable-enable":
			fc = compile.MultiFeatureCheckers(compile.FeaturesFromNames(true, o.Features...), compile.FeaturesFromNames(false, o.FeatureUniverse...), compile.FeaturesFromNames(true, o.Features...))
		}
	}
	ms, err := compile.CompileParseTrees(nil, trees, fc, false, o.Filter)
	if err != nil {
		res.Err, res.Stage = err, "compile"
		return
	}
	res.MS = ms
	return
}
