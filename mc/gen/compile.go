package gen

import (
	"errors"
	"fmt"
	"os"
	"path/filepath"
	"sort"
	"strings"

	"github.com/sdcio/yang-parser/compile"
	"github.com/sdcio/yang-parser/parse"
	"github.com/sdcio/yang-parser/schema"
	"github.com/sdcio/yang-parser/verifrt"
)

// Result of one compile of a module set.
type Result struct {
	MS        schema.ModelSet
	Err       error  // parse or compile error
	Stage     string // "parse" or "compile" when Err != nil
	Panic     any
	Horizon   bool  // the step horizon was exceeded
	Choices   []int // owned map-order choice points: number of alternatives at each
	BadReplay string
}

func (r Result) OK() bool { return r.Err == nil && r.Panic == nil && !r.Horizon }

// Verdict is "ok", "error", "panic" or "nonterminating".
func (r Result) Verdict() string {
	switch {
	case r.Horizon:
		return "nonterminating"
	case r.Panic != nil:
		return "panic"
	case r.Err != nil:
		return "error"
	}
	return "ok"
}

// Options of a compile.
type Options struct {
	Features    []string // enabled features "module:feature"; nil = checker that enables nothing
	AllFeatures bool     // no features checker at all is not the same as all enabled: enable listed ones only
	// FeatureSupply: how the enabled set reaches the compiler. "" = one checker listing the enabled
	// features; the other ways compose checkers over FeatureUniverse (the last checker that knows a
	// feature decides): "enable-all-then-disable", "disable-all-then-enable", "with-nil-members",
	// "enable-disable-enable".
	FeatureSupply   string
	FeatureUniverse []string
	// Entry: the public entry point the set is compiled through. "" = CompileParseTrees on trees
	// parsed with parse.Parse; see EntryPoints.
	Entry string
	// SkipUnknown: compile in the mode that tolerates references to modules that are not in the set
	SkipUnknown bool
	Filter          compile.SchemaFilter
	MapOrder        []int // prefix of map-order choices (nil = Go's native order, chooser off); use []int{} for canonical order
	Horizon         int64
}

// Compile parses every text afresh (compile mutates parse trees) and compiles
// the set.  It never lets a panic escape.
func Compile(mods map[string]string, o Options) (res Result) {
	horizon := o.Horizon
	if horizon == 0 {
		horizon = 3000000
	}
	if o.MapOrder != nil {
		k := 0
		verifrt.SetChooser(func(site, n, nalt int) int {
			res.Choices = append(res.Choices, nalt)
			c := 0
			if k < len(o.MapOrder) {
				c = o.MapOrder[k]
				if c >= nalt || c < 0 {
					if res.BadReplay == "" {
						res.BadReplay = fmt.Sprintf("choice point %d (site %d): choice %d of %d", k, site, c, nalt)
					}
					c = 0
				}
			}
			k++
			return c
		})
		defer verifrt.SetChooser(nil)
	}
	verifrt.SetHorizon(horizon)
	defer func() {
		if r := recover(); r != nil {
			res.Panic = r
		}
		res.Horizon = verifrt.HorizonHit
		verifrt.SetHorizon(0)
		if res.Horizon {
			res.Panic, res.Err = nil, nil
		}
		if res.Err != nil {
			var he *verifrt.HorizonError
			if errors.As(res.Err, &he) {
				res.Horizon, res.Err = true, nil
			}
		}
	}()
	trees := map[string]*parse.Tree{}
	names := make([]string, 0, len(mods))
	for n := range mods {
		names = append(names, n)
	}
	sort.Strings(names)
	if o.Entry != "" {
		compileVia(mods, names, o, &res)
		return
	}
	for _, n := range names {
		t, err := parse.Parse(n+".yang", mods[n], nil)
		if err != nil {
			res.Err, res.Stage = err, "parse"
			return
		}
		trees[n] = t
	}
	var fc compile.FeaturesChecker
	if o.Features != nil {
		fc = compile.FeaturesFromNames(true, o.Features...)
		on := map[string]bool{}
		for _, f := range o.Features {
			on[f] = true
		}
		var off []string
		for _, f := range o.FeatureUniverse {
			if !on[f] {
				off = append(off, f)
			}
		}
		switch o.FeatureSupply {
		case "enable-all-then-disable":
			fc = compile.MultiFeatureCheckers(compile.FeaturesFromNames(true, o.FeatureUniverse...), compile.FeaturesFromNames(false, off...))
		case "disable-all-then-enable":
			fc = compile.MultiFeatureCheckers(compile.FeaturesFromNames(false, o.FeatureUniverse...), compile.FeaturesFromNames(true, o.Features...))
		case "with-nil-members":
			fc = compile.MultiFeatureCheckers(nil, compile.FeaturesFromNames(true, o.Features...), nil)
		case "composite-after-derivation":
			// a history on one checker object: a composite is built, a second checker that disables
			// everything is derived from it (and thrown away), and the compile gets the first one
			base := compile.MultiFeatureCheckers(compile.FeaturesFromNames(true, o.Features...), compile.FeaturesFromNames(false, off...))
			_ = compile.MultiFeatureCheckers(base, compile.FeaturesFromNames(false, o.FeatureUniverse...), compile.FeaturesFromNames(false, o.Features...))
			_ = compile.MultiFeatureCheckers(base, nil)
			fc = base
		case "enable-disable-enable":
			fc = compile.MultiFeatureCheckers(compile.FeaturesFromNames(true, o.Features...), compile.FeaturesFromNames(false, o.FeatureUniverse...), compile.FeaturesFromNames(true, o.Features...))
		}
	}
	ms, err := compile.CompileParseTrees(nil, trees, fc, o.SkipUnknown, o.Filter)
	if err != nil {
		res.Err, res.Stage = err, "compile"
		return
	}
	res.MS = ms
	return
}

// EntryPoints lists the other public ways into the compiler that Options.Entry selects.  The three
// CompileModules* functions take parse trees and the name of a directory holding the enabled features
// (<dir>/<module>/<feature>); the three CompileDir* functions read the module files of a directory and
// take a Config (features from such a directory, from an explicit checker, or from both).
func EntryPoints() []string {
	return []string{"CompileModules", "CompileModulesWithWarnings", "CompileModulesWithWarningsAndCustomFunctions",
		"CompileDir:caps", "CompileDir:names", "CompileDir:caps+names", "CompileDirWithWarnings:caps+names", "CompileDirKeepMods:names"}
}

func compileVia(mods map[string]string, names []string, o Options, res *Result) {
	dir, err := os.MkdirTemp("", "verif-entry-")
	if err != nil {
		res.Err, res.Stage = err, "harness"
		return
	}
	defer os.RemoveAll(dir)
	caps := filepath.Join(dir, "caps")
	writeCaps := func(feats []string) {
		for _, f := range feats {
			if i := strings.Index(f, ":"); i > 0 {
				os.MkdirAll(filepath.Join(caps, f[:i]), 0o755)
				os.WriteFile(filepath.Join(caps, f[:i], f[i+1:]), nil, 0o644)
			}
		}
	}
	os.MkdirAll(caps, 0o755)
	entry, supply := o.Entry, ""
	if i := strings.Index(entry, ":"); i >= 0 {
		entry, supply = entry[:i], entry[i+1:]
	}
	var ms schema.ModelSet
	if strings.HasPrefix(entry, "CompileModules") {
		trees := map[string]*parse.Tree{}
		for _, n := range names {
			t, err := parse.Parse(n+".yang", mods[n], nil)
			if err != nil {
				res.Err, res.Stage = err, "parse"
				return
			}
			trees[n] = t
		}
		writeCaps(o.Features)
		switch entry {
		case "CompileModules":
			ms, err = compile.CompileModules(nil, trees, caps, false, o.Filter)
		case "CompileModulesWithWarnings":
			ms, _, err = compile.CompileModulesWithWarnings(nil, trees, caps, false, o.Filter)
		default:
			ms, _, err = compile.CompileModulesWithWarningsAndCustomFunctions(nil, trees, caps, false, o.Filter, nil)
		}
	} else {
		ydir := filepath.Join(dir, "yang")
		os.MkdirAll(ydir, 0o755)
		for _, n := range names {
			os.WriteFile(filepath.Join(ydir, n+".yang"), []byte(mods[n]), 0o644)
		}
		cfg := &compile.Config{YangDir: ydir, Filter: o.Filter}
		half := len(o.Features) / 2
		switch supply {
		case "caps":
			writeCaps(o.Features)
			cfg.CapsLocation = caps
		case "names":
			cfg.Features = compile.FeaturesFromNames(true, o.Features...)
		default: // caps+names: one half each
			writeCaps(o.Features[:half])
			cfg.CapsLocation = caps
			cfg.Features = compile.FeaturesFromNames(true, o.Features[half:]...)
		}
		switch entry {
		case "CompileDir":
			ms, err = compile.CompileDir(nil, cfg)
		case "CompileDirWithWarnings":
			ms, _, err = compile.CompileDirWithWarnings(nil, cfg)
		default:
			ms, err, _, _ = compile.CompileDirKeepMods(nil, cfg)
		}
	}
	if err != nil {
		res.Err, res.Stage = err, "compile"
		return
	}
	res.MS = ms
}

// EntryPointDisagreements compiles the set through every entry point and returns a description of each
// one whose verdict or schema differs from base (the result of the default entry with the same options).
func EntryPointDisagreements(mods map[string]string, o Options, base Result) []string {
	var out []string
	baseDump := ""
	if base.OK() {
		baseDump = DumpString(base.MS, DumpOpts{})
	}
	for _, e := range EntryPoints() {
		o2 := o
		o2.Entry, o2.MapOrder = e, nil
		if o2.Features == nil {
			o2.Features = []string{}
		}
		r := Compile(mods, o2)
		switch {
		case r.Verdict() != base.Verdict():
			out = append(out, fmt.Sprintf("%s: verdict %s (%v %v), default entry point: %s (%v)", e, r.Verdict(), r.Err, r.Panic, base.Verdict(), base.Err))
		case r.OK():
			if d := DumpString(r.MS, DumpOpts{}); d != baseDump {
				out = append(out, fmt.Sprintf("%s: schema differs: %s", e, FirstDiff(baseDump, d)))
			}
		}
	}
	return out
}

// CompileTwice parses the set once and compiles the SAME parse trees twice: first with the filter of o,
// then without any filter.  It returns the result of the second compile (a filtered compile must leave
// the caller's parse trees as fit for a later compile as it found them).
func CompileTwice(mods map[string]string, o Options) (res Result) {
	defer func() {
		if r := recover(); r != nil {
			res.Panic = r
		}
	}()
	trees := map[string]*parse.Tree{}
	for n, text := range mods {
		t, err := parse.Parse(n+".yang", text, nil)
		if err != nil {
			res.Err, res.Stage = err, "parse"
			return
		}
		trees[n] = t
	}
	var fc compile.FeaturesChecker
	if o.Features != nil {
		fc = compile.FeaturesFromNames(true, o.Features...)
	}
	if _, err := compile.CompileParseTrees(nil, trees, fc, false, o.Filter); err != nil {
		res.Err, res.Stage = err, "first compile"
		return
	}
	ms, err := compile.CompileParseTrees(nil, trees, fc, false, nil)
	if err != nil {
		res.Err, res.Stage = err, "second compile"
		return
	}
	res.MS = ms
	return
}
