// Package xpx holds helpers shared by the XPath harnesses: running an
// expression on the implementation and observing its typed result.
package xpx

import (
	gocontext "context"
	"fmt"
	"math"
	"strings"

	"verif/mock"
	"verif/ref/xp10"

	"github.com/sdcio/yang-parser/xpath"
	"github.com/sdcio/yang-parser/xpath/grammars/expr"
	"github.com/sdcio/yang-parser/xpath/xutils"
)

// Obs is what a caller can observe from one run.
type Obs struct {
	CompileErr string
	RunErr     string
	Kind       byte // 'n' 's' 'b' or '?' (native type not scalar)
	Num        float64
	NumErr     string
	Str        string
	StrErr     string
	Bool       bool
	BoolErr    string
	Panic      string
}

func (o Obs) String() string {
	if o.CompileErr != "" {
		return "compile error: " + firstLine(o.CompileErr)
	}
	if o.Panic != "" {
		return "PANIC: " + o.Panic
	}
	if o.RunErr != "" {
		return "run error: " + firstLine(o.RunErr)
	}
	return fmt.Sprintf("%c num=%s str=%q bool=%v", o.Kind, xp10.NumberToString(o.Num)+signbit(o.Num), o.Str, o.Bool)
}

func signbit(f float64) string {
	if f == 0 && math.Signbit(f) {
		return "(-0)"
	}
	return ""
}

func firstLine(s string) string {
	if i := strings.IndexByte(s, '\n'); i >= 0 {
		return s[:i]
	}
	return s
}

// Compile builds a must/when machine.
func Compile(src string, mapFn xpath.PfxMapFn) (m *xpath.Machine, err error, panicked any) {
	defer func() {
		if r := recover(); r != nil {
			panicked = r
		}
	}()
	m, err = expr.NewExprMachine(src, mapFn)
	return
}

// RunMachine runs m on entry and observes the result through all accessors.
func RunMachine(m *xpath.Machine, entry xpath.Entry) (o Obs) { return RunMachineDebug(m, entry, false) }

// RunMachineDebug: the same with the context's debug listing on or off.
func RunMachineDebug(m *xpath.Machine, entry xpath.Entry, debug bool) (o Obs) {
	defer func() {
		if r := recover(); r != nil {
			o.Panic = fmt.Sprint(r)
		}
	}()
	return observe(xpath.NewCtxFromCurrent(gocontext.Background(), m, entry).SetDebug(debug).Run())
}

// RunMachineValidating: the same run with the context's validation mode on (EnableValidation: the
// arguments and the result of every function call are checked against the function's signature while
// the machine runs).
func RunMachineValidating(m *xpath.Machine, entry xpath.Entry) (o Obs) {
	defer func() {
		if r := recover(); r != nil {
			o.Panic = fmt.Sprint(r)
		}
	}()
	return observe(xpath.NewCtxFromCurrent(gocontext.Background(), m, entry).EnableValidation().Run())
}

// RunMachineFromMach runs a machine through the other context constructor, NewCtxFromMach (no data
// tree: meaningful for expressions without location paths only).
func RunMachineFromMach(m *xpath.Machine) (o Obs) {
	defer func() {
		if r := recover(); r != nil {
			o.Panic = fmt.Sprint(r)
		}
	}()
	return observe(xpath.NewCtxFromMach(m, nil).Run())
}

func observe(res *xpath.Result) (o Obs) {
	if res == nil {
		o.Panic = "Run returned nil"
		return
	}
	if err := res.GetError(); err != nil {
		o.RunErr = err.Error()
	}
	pr := res.PrintResult()
	switch {
	case strings.HasPrefix(pr, "BOOLEAN:"):
		o.Kind = 'b'
	case strings.HasPrefix(pr, "NUMBER:"):
		o.Kind = 'n'
	case strings.HasPrefix(pr, "LITERAL:"):
		o.Kind = 's'
	default:
		o.Kind = '?'
	}
	var err error
	if o.Num, err = res.GetNumResult(); err != nil {
		o.NumErr = err.Error()
	}
	if o.Str, err = res.GetLiteralResult(); err != nil {
		o.StrErr = err.Error()
	}
	if o.Bool, err = res.GetBoolResult(); err != nil {
		o.BoolErr = err.Error()
	}
	return
}

// Eval compiles and runs src on a byname tree.
func Eval(src string, tree *mock.Tree) Obs {
	tree.Reset()
	m, err, p := Compile(src, nil)
	if p != nil {
		return Obs{Panic: fmt.Sprint(p)}
	}
	if err != nil {
		return Obs{CompileErr: err.Error()}
	}
	return RunMachine(m, tree.At(mock.Elem{Name: "ctx"}))
}

// SameNumber compares bitwise after collapsing NaNs.
func SameNumber(a, b float64) bool {
	if math.IsNaN(a) || math.IsNaN(b) {
		return math.IsNaN(a) && math.IsNaN(b)
	}
	return math.Float64bits(a) == math.Float64bits(b)
}

// Agrees compares an observation with a reference value: first the native
// result (type and value), then each accessor against the reference conversion
// of the reference value.  where names the failing part:
// "error", "native" or "accessor:<from>-><to>".
func Agrees(o Obs, v xp10.Value) (ok bool, where string) {
	if o.CompileErr != "" || o.RunErr != "" || o.Panic != "" {
		return false, "error"
	}
	if v.Kind != 'S' {
		if o.Kind != v.Kind {
			return false, "native"
		}
		switch v.Kind {
		case 'n':
			if o.NumErr != "" || !SameNumber(o.Num, v.N) {
				return false, "native"
			}
		case 's':
			if o.StrErr != "" || o.Str != v.S {
				return false, "native"
			}
		case 'b':
			if o.BoolErr != "" || o.Bool != v.B {
				return false, "native"
			}
		}
	}
	from := map[byte]string{'n': "number", 's': "string", 'b': "boolean", 'S': "node-set"}[v.Kind]
	if o.NumErr != "" || !SameNumber(o.Num, xp10.ToNumber(v)) {
		return false, "accessor:" + from + "->number"
	}
	if o.StrErr != "" || o.Str != xp10.ToString(v) {
		return false, "accessor:" + from + "->string"
	}
	if o.BoolErr != "" || o.Bool != xp10.ToBool(v) {
		return false, "accessor:" + from + "->boolean"
	}
	return true, ""
}

// Expected renders what Agrees compares against.
func Expected(v xp10.Value) string {
	f := xp10.ToNumber(v)
	return fmt.Sprintf("%c num=%s str=%q bool=%v", v.Kind, xp10.NumberToString(f)+signbit(f), xp10.ToString(v), xp10.ToBool(v))
}

// ScalarTree is the byname data tree used by the scalar checks, with the
// reference values of its nodes.
func ScalarTree() (*mock.Tree, map[string]xp10.Value) {
	t := mock.NewTree()
	// (leaf-list values are handed out the way an appending data tree would hold them: with spare
	// capacity behind the length - it belongs to the tree, a run must not write there)
	ds := func(d ...xpath.Datum) xpath.Datum {
		full := make([]xpath.Datum, len(d)+4)
		copy(full, d)
		t.Spare = append(t.Spare, full)
		return xpath.NewDatumSliceDatum(full[:len(d)])
	}
	t.ByName = map[string]xpath.Datum{
		"n5":     xpath.NewNumDatum(5),
		"n0":     xpath.NewNumDatum(0),
		"nneg":   xpath.NewNumDatum(-2.5),
		"sx":     xpath.NewLiteralDatum("x"),
		"s1":     xpath.NewLiteralDatum("1"),
		"sempty": xpath.NewLiteralDatum(""),
		"bt":     xpath.NewBoolDatum(true),
		"bf":     xpath.NewBoolDatum(false),
		"ll0":    ds(),
		"ll1":    ds(xpath.NewLiteralDatum("a")),
		"lls":    ds(xpath.NewLiteralDatum("a"), xpath.NewLiteralDatum("b"), xpath.NewLiteralDatum("1")),
		"lln":    ds(xpath.NewNumDatum(1), xpath.NewNumDatum(2), xpath.NewNumDatum(3)),
	}
	ref := map[string]xp10.Value{
		"n5": xp10.Num(5), "n0": xp10.Num(0), "nneg": xp10.Num(-2.5),
		"sx": xp10.Str("x"), "s1": xp10.Str("1"), "sempty": xp10.Str(""),
		"bt": xp10.Bool(true), "bf": xp10.Bool(false),
		"absent": xp10.NodeSet(),
		"ll0":    xp10.NodeSet(),
		"ll1":    xp10.NodeSet(xp10.Str("a")),
		"lls":    xp10.NodeSet(xp10.Str("a"), xp10.Str("b"), xp10.Str("1")),
		"lln":    xp10.NodeSet(xp10.Num(1), xp10.Num(2), xp10.Num(3)),
	}
	_ = xutils.EOF
	return t, ref
}

// ScalarEnv resolves single-step relative paths against the ScalarTree.
func ScalarEnv(ref map[string]xp10.Value) xp10.Env {
	return func(p *xp10.Path) (xp10.Value, error) {
		if p.Abs || p.Filter != nil || len(p.Steps) != 1 || p.Steps[0].Kind != "name" || len(p.Steps[0].Preds) > 0 {
			return xp10.Value{}, &xp10.ErrUnsupported{What: "path"}
		}
		v, ok := ref[p.Steps[0].Local]
		if !ok {
			return xp10.Value{}, &xp10.ErrUnsupported{What: "unknown node " + p.Steps[0].Local}
		}
		return v, nil
	}
}
