// probe: compile YANG module texts given as "name=text" arguments and print the verdict and dump (development aid).
package main

import (
	"fmt"
	"os"
	"strings"

	"verif/gen"
)

func main() {
	mods := map[string]string{}
	for _, a := range os.Args[1:] {
		i := strings.Index(a, "=")
		mods[a[:i]] = a[i+1:]
	}
	r := gen.Compile(mods, gen.Options{})
	fmt.Println(r.Verdict(), r.Err, r.Panic)
	if r.OK() {
		fmt.Print(gen.DumpString(r.MS, gen.DumpOpts{NoMachines: true}))
	}
}
