// vrace: free-running pass of the C06 thread bodies for the Go race detector
// (supporting evidence; the cooperative scheduler's hand-offs would hide races).
package main

import (
	"fmt"
	"os"
	"strconv"

	"verif/harness/c06"

	"github.com/sdcio/yang-parser/verifrt"
)

func main() {
	verifrt.SnapshotAll()
	reps := 20
	if len(os.Args) > 1 {
		reps, _ = strconv.Atoi(os.Args[1])
	}
	n := c06.FreeRun(reps)
	fmt.Printf("vrace: %d free-running executions, no race reported\n", n)
}
