package main

import (
	"verif/engine"
	_ "verif/harness/c01"
	_ "verif/harness/c02"
	_ "verif/harness/c03"
	_ "verif/harness/c04"
	_ "verif/harness/c05"
	_ "verif/harness/c06"
	_ "verif/harness/c07"
	_ "verif/harness/c08"
	_ "verif/harness/c09"
	_ "verif/harness/c10"
	_ "verif/harness/c11"
	_ "verif/harness/c12"
	_ "verif/harness/c13"
	_ "verif/harness/c14"
	_ "verif/harness/c15"
	_ "verif/harness/c16"
	_ "verif/harness/c17"
	_ "verif/harness/c18"
	_ "verif/harness/c19"
	_ "verif/harness/c20"

	"github.com/sdcio/yang-parser/verifrt"
)

func main() {
	verifrt.SnapshotAll()
	engine.Main()
}
