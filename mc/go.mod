module verif

go 1.23.9

toolchain go1.23.11

require (
	github.com/danos/mgmterror v0.0.0-20210701125710-6fcf751e367d
	github.com/danos/utils v0.0.0-20210701125856-7935e3348d7c
	github.com/sdcio/sdc-protos v0.0.46
	github.com/sdcio/yang-parser v0.0.0
)

require (
	github.com/danos/encoding v0.0.0-20210701125528-66857fd8c8ea // indirect
	github.com/sirupsen/logrus v1.9.3 // indirect
	golang.org/x/net v0.41.0 // indirect
	golang.org/x/sys v0.33.0 // indirect
	golang.org/x/text v0.26.0 // indirect
	google.golang.org/genproto/googleapis/rpc v0.0.0-20250707201910-8d1bb00bc6a7 // indirect
	google.golang.org/grpc v1.75.1 // indirect
	google.golang.org/protobuf v1.36.9 // indirect
)

replace github.com/sdcio/yang-parser => /repo
