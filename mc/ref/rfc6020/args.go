package rfc6020

import (
	"regexp"
	"strings"
)

// Argument recognisers written from the ABNF of RFC 6020 section 12.
// Each returns (valid, settled); settled=false means the RFC grammar alone
// does not decide (semantic constraints).

var (
	reIdentifier  = regexp.MustCompile(`^[A-Za-z_][A-Za-z0-9_.\-]*$`)
	reDate        = regexp.MustCompile(`^[0-9]{4}-[0-9]{2}-[0-9]{2}$`)
	reNonNegInt   = regexp.MustCompile(`^(0|[1-9][0-9]*)$`)
	rePosInt      = regexp.MustCompile(`^[1-9][0-9]*$`)
	reInt         = regexp.MustCompile(`^-?(0|[1-9][0-9]*)$`)
	reDecimal     = regexp.MustCompile(`^-?(0|[1-9][0-9]*)\.[0-9]+$`)
	reFractionDig = regexp.MustCompile(`^(1[0-8]?|[2-9])$`)
)

func Identifier(s string) bool {
	return reIdentifier.MatchString(s) && !(len(s) >= 3 && strings.EqualFold(s[:3], "xml"))
}

func IdentifierRef(s string) bool {
	if i := strings.IndexByte(s, ':'); i >= 0 {
		return Identifier(s[:i]) && Identifier(s[i+1:])
	}
	return Identifier(s)
}

func Boolean(s string) bool { return s == "true" || s == "false" }

func Date(s string) (bool, bool) {
	if !reDate.MatchString(s) {
		return false, true
	}
	mo, d := s[5:7], s[8:10]
	if mo < "01" || mo > "12" || d < "01" || d > "31" {
		return true, false // syntactically a date-arg, calendar validity is semantic
	}
	if (mo == "02" && d > "29") || ((mo == "04" || mo == "06" || mo == "09" || mo == "11") && d > "30") {
		return true, false
	}
	return true, true
}

func NonNegInt(s string) bool { return reNonNegInt.MatchString(s) }
func Integer(s string) bool   { return reInt.MatchString(s) }
func MaxValue(s string) bool  { return s == "unbounded" || rePosInt.MatchString(s) }
func FractionDigits(s string) bool { return reFractionDig.MatchString(s) }

func Status(s string) bool    { return s == "current" || s == "obsolete" || s == "deprecated" }
func OrderedBy(s string) bool { return s == "user" || s == "system" }
func Deviate(s string) bool {
	return s == "add" || s == "delete" || s == "replace" || s == "not-supported"
}

func trimOptSep(s string) string { return strings.Trim(s, " \t\r\n") }

// rangeLike recognises range-arg / length-arg: parts separated by '|', each
// "boundary" or "boundary .. boundary" with optional separators.
func rangeLike(s string, boundary func(string) bool) bool {
	if trimOptSep(s) != s || s == "" {
		return false
	}
	for _, part := range strings.Split(s, "|") {
		part = trimOptSep(part)
		if part == "" {
			return false
		}
		if i := strings.Index(part, ".."); i >= 0 {
			lo, hi := trimOptSep(part[:i]), trimOptSep(part[i+2:])
			if !boundary(lo) || !boundary(hi) {
				return false
			}
		} else if !boundary(part) {
			return false
		}
	}
	return true
}

// BoundaryOrder classifies a lexically valid range / length argument by the
// position of min and max: "misordered" when some part has min as its upper or
// max as its lower boundary next to another boundary (x..min, max..x: lexically
// fine, but the parts must be in ascending order - a semantic matter, rejecting
// early is as good as rejecting late), "degenerate" when some part is min..min
// or max..max (legal: exactly the smallest / largest value), "" otherwise.
func BoundaryOrder(s string) string {
	class := ""
	for _, part := range strings.Split(s, "|") {
		part = trimOptSep(part)
		i := strings.Index(part, "..")
		if i < 0 {
			continue
		}
		lo, hi := trimOptSep(part[:i]), trimOptSep(part[i+2:])
		switch {
		case (lo == "min" && hi == "min") || (lo == "max" && hi == "max"):
			if class == "" {
				class = "degenerate"
			}
		case hi == "min" || lo == "max":
			class = "misordered"
		}
	}
	return class
}

// EdgeSpace reports leading or trailing white space, about which the ABNF
// string productions are strict but which this model leaves unsettled.
func EdgeSpace(s string) bool { return s != "" && trimOptSep(s) != s }

func Range(s string) bool {
	return rangeLike(s, func(b string) bool { return b == "min" || b == "max" || Integer(b) || reDecimal.MatchString(b) })
}

func Length(s string) bool {
	return rangeLike(s, func(b string) bool { return b == "min" || b == "max" || NonNegInt(b) })
}

func fields(s string) ([]string, bool) {
	if s == "" || trimOptSep(s) != s {
		return nil, false
	}
	// sep = 1*(WSP / line-break): SP, HTAB, CRLF, LF only - not Unicode white space
	return strings.FieldsFunc(s, func(r rune) bool { return r == ' ' || r == '\t' || r == '\r' || r == '\n' }), true
}

// Key: node-identifier *(sep node-identifier).
func Key(s string) (bool, bool) {
	if EdgeSpace(s) || strings.Contains(s, "/") && !strings.HasPrefix(s, "/") {
		return false, false // nested keys are an extension of this implementation
	}
	fs, ok := fields(s)
	if !ok {
		return false, true
	}
	seen := map[string]bool{}
	settled := true
	for _, f := range fs {
		if !IdentifierRef(f) {
			return false, true
		}
		if seen[f] {
			settled = false // duplicates are a semantic matter
		}
		seen[f] = true
		if strings.Contains(f, ":") {
			settled = false // a prefixed key leaf is syntactically allowed, semantically doubtful
		}
	}
	return true, settled
}

func AbsoluteSchemaNodeid(s string) bool {
	if !strings.HasPrefix(s, "/") {
		return false
	}
	for _, p := range strings.Split(s[1:], "/") {
		if !IdentifierRef(p) {
			return false
		}
	}
	return true
}

func DescendantSchemaNodeid(s string) bool {
	if s == "" || strings.HasPrefix(s, "/") {
		return false
	}
	for _, p := range strings.Split(s, "/") {
		if !IdentifierRef(p) {
			return false
		}
	}
	return true
}

// Unique: descendant-schema-nodeid *(sep descendant-schema-nodeid).
func Unique(s string) bool {
	fs, ok := fields(s)
	if !ok {
		return false
	}
	for _, f := range fs {
		if !DescendantSchemaNodeid(f) {
			return false
		}
	}
	return true
}
