// Package rfc6020 holds the substatement tables of RFC 6020 section 7 (and
// 9.x for the type restrictions), transcribed from the RFC, and the argument
// grammars of section 12.  It is independent of parse/cardinality.go.
package rfc6020

// Card is "min..max"; Max < 0 means unbounded.
type Card struct{ Min, Max int }

var (
	c01 = Card{0, 1}
	c0n = Card{0, -1}
	c11 = Card{1, 1}
	c1n = Card{1, -1}
)

func merge(ms ...map[string]Card) map[string]Card {
	out := map[string]Card{}
	for _, m := range ms {
		for k, v := range m {
			out[k] = v
		}
	}
	return out
}

var dataDefs = map[string]Card{"anyxml": c0n, "choice": c0n, "container": c0n, "leaf": c0n, "leaf-list": c0n, "list": c0n, "uses": c0n}
var descRef = map[string]Card{"description": c01, "reference": c01}
var descRefStatus = merge(descRef, map[string]Card{"status": c01})
var errStmts = merge(descRef, map[string]Card{"error-app-tag": c01, "error-message": c01})

var moduleBody = merge(dataDefs, descRef, map[string]Card{
	"augment": c0n, "contact": c01, "deviation": c0n, "extension": c0n, "feature": c0n, "grouping": c0n, "identity": c0n,
	"import": c0n, "include": c0n, "notification": c0n, "organization": c01, "revision": c0n, "rpc": c0n, "typedef": c0n, "yang-version": c01})

// Sub is the substatement table: parent keyword -> child keyword -> cardinality.
var Sub = map[string]map[string]Card{
	"module":     merge(moduleBody, map[string]Card{"namespace": c11, "prefix": c11}),
	"submodule":  merge(moduleBody, map[string]Card{"belongs-to": c11}),
	"import":     {"prefix": c11, "revision-date": c01},
	"include":    {"revision-date": c01},
	"revision":   descRef,
	"belongs-to": {"prefix": c11},
	"typedef":    merge(descRefStatus, map[string]Card{"default": c01, "type": c11, "units": c01}),
	"type": {"bit": c0n, "enum": c0n, "length": c01, "path": c01, "pattern": c0n, "range": c01, "require-instance": c01, "type": c0n,
		"fraction-digits": c01, "base": c01},
	"container": merge(dataDefs, descRefStatus, map[string]Card{"config": c01, "grouping": c0n, "if-feature": c0n, "must": c0n, "presence": c01, "typedef": c0n, "when": c01}),
	"must":      errStmts,
	"leaf":      merge(descRefStatus, map[string]Card{"config": c01, "default": c01, "if-feature": c0n, "mandatory": c01, "must": c0n, "type": c11, "units": c01, "when": c01}),
	"leaf-list": merge(descRefStatus, map[string]Card{"config": c01, "if-feature": c0n, "max-elements": c01, "min-elements": c01, "must": c0n, "ordered-by": c01, "type": c11, "units": c01, "when": c01}),
	"list": merge(dataDefs, descRefStatus, map[string]Card{"config": c01, "grouping": c0n, "if-feature": c0n, "key": c01, "max-elements": c01, "min-elements": c01,
		"must": c0n, "ordered-by": c01, "typedef": c0n, "unique": c0n, "when": c01}),
	"choice": merge(descRefStatus, map[string]Card{"anyxml": c0n, "case": c0n, "config": c01, "container": c0n, "default": c01, "if-feature": c0n,
		"leaf": c0n, "leaf-list": c0n, "list": c0n, "mandatory": c01, "when": c01}),
	"case":         merge(dataDefs, descRefStatus, map[string]Card{"if-feature": c0n, "when": c01}),
	"anyxml":       merge(descRefStatus, map[string]Card{"config": c01, "if-feature": c0n, "mandatory": c01, "must": c0n, "when": c01}),
	"grouping":     merge(dataDefs, descRefStatus, map[string]Card{"grouping": c0n, "typedef": c0n}),
	"uses":         merge(descRefStatus, map[string]Card{"augment": c0n, "if-feature": c0n, "refine": c0n, "when": c01}),
	"rpc":          merge(descRefStatus, map[string]Card{"grouping": c0n, "if-feature": c0n, "input": c01, "output": c01, "typedef": c0n}),
	"input":        merge(dataDefs, map[string]Card{"grouping": c0n, "typedef": c0n}),
	"output":       merge(dataDefs, map[string]Card{"grouping": c0n, "typedef": c0n}),
	"notification": merge(dataDefs, descRefStatus, map[string]Card{"grouping": c0n, "if-feature": c0n, "typedef": c0n}),
	"augment":      merge(dataDefs, descRefStatus, map[string]Card{"case": c0n, "if-feature": c0n, "when": c01}),
	"identity":     merge(descRefStatus, map[string]Card{"base": c01}),
	"extension":    merge(descRefStatus, map[string]Card{"argument": c01}),
	"argument":     {"yin-element": c01},
	"feature":      merge(descRefStatus, map[string]Card{"if-feature": c0n}),
	"deviation":    merge(descRef, map[string]Card{"deviate": c1n}),
	"range":        errStmts,
	"length":       errStmts,
	"pattern":      errStmts,
	"enum":         merge(descRefStatus, map[string]Card{"value": c01}),
	"bit":          merge(descRefStatus, map[string]Card{"position": c01}),
	"when":         descRef,
}

// Leaves are the statements without substatements.
var Leaves = []string{"yang-version", "namespace", "prefix", "organization", "contact", "description", "reference", "units", "revision-date",
	"default", "status", "config", "mandatory", "presence", "ordered-by", "key", "unique", "min-elements", "max-elements",
	"error-message", "error-app-tag", "value", "position", "path", "require-instance", "base", "fraction-digits", "if-feature", "yin-element"}

func init() {
	for _, l := range Leaves {
		Sub[l] = map[string]Card{}
	}
}

// Unsettled lists (parent, child) cells this transcription does not settle:
// the uses->refine/augment maximum (erratum 0..1 vs 0..n) .
func Unsettled(parent, child string, n int) bool {
	if parent == "uses" && (child == "refine" || child == "augment") && n > 1 {
		return true
	}
	if parent == "list" && child == "key" && n == 0 {
		return true // required for configuration lists only
	}
	return false
}

// Keywords is every RFC 6020 statement keyword.
func Keywords() []string {
	seen := map[string]bool{}
	var out []string
	add := func(k string) {
		if !seen[k] {
			seen[k] = true
			out = append(out, k)
		}
	}
	for _, k := range []string{"module", "submodule", "import", "include", "revision", "belongs-to", "typedef", "type", "container", "must", "leaf", "leaf-list",
		"list", "choice", "case", "anyxml", "grouping", "uses", "refine", "rpc", "input", "output", "notification", "augment", "identity", "extension",
		"argument", "feature", "deviation", "deviate", "range", "length", "pattern", "enum", "bit", "when"} {
		add(k)
	}
	for _, l := range Leaves {
		add(l)
	}
	return out
}
