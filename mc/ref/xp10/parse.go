package xp10

import (
	"fmt"
	"strings"
)

// Node is an XPath 1.0 abstract syntax tree node.
type Node struct {
	Op    string  // "or" "and" "=" "!=" "<" "<=" ">" ">=" "+" "-" "*" "div" "mod" "neg" "|" "num" "lit" "func" "var" "path" "paren"
	Kids  []*Node // operands / function arguments / for "paren": the inner expr
	Val   string  // number text, literal content, function name (QName), variable name
	Path  *Path   // for Op == "path"
	Paren bool    // the source had explicit parentheses around this node
}

// Path is a location path, possibly rooted at a filter expression.
type Path struct {
	Abs      bool     // starts with '/' (or '//')
	Filter   *Node    // FilterExpr root (PrimaryExpr); nil for plain location paths
	FPreds   []*Node  // predicates applied to the filter root
	Steps    []Step
	RootOnly bool // the path is just "/"
}

type Step struct {
	DblSlash bool   // step was preceded by '//'
	Axis     string // "" (abbreviated child), "@", or explicit axis name
	Kind     string // "name" "." ".." "nodetype"
	Prefix   string
	Local    string
	NodeType string
	PIArg    string
	Preds    []*Node
}

type ParseError struct {
	Tok  int
	What string
}

func (e *ParseError) Error() string { return fmt.Sprintf("parse error at token %d: %s", e.Tok, e.What) }

type parser struct {
	toks []Token
	i    int
}

func (p *parser) peek() Token {
	if p.i < len(p.toks) {
		return p.toks[p.i]
	}
	return Token{Kind: TEOF}
}
func (p *parser) next() Token { t := p.peek(); p.i++; return t }
func (p *parser) isOp(v string) bool {
	t := p.peek()
	return t.Kind == TOperator && t.Val == v
}
func (p *parser) fail(what string) { panic(&ParseError{p.i, what}) }

// Parse parses a complete XPath 1.0 Expr.
func Parse(s string) (n *Node, err error) {
	toks, lerr := Tokenize(s)
	if lerr != nil {
		return nil, lerr
	}
	return ParseTokens(toks)
}

func ParseTokens(toks []Token) (n *Node, err error) {
	p := &parser{toks: toks}
	defer func() {
		if r := recover(); r != nil {
			if pe, ok := r.(*ParseError); ok {
				n, err = nil, pe
				return
			}
			panic(r)
		}
	}()
	n = p.expr()
	if p.peek().Kind != TEOF {
		p.fail("trailing tokens")
	}
	return n, nil
}

func (p *parser) expr() *Node { return p.binary(0) }

var levels = [][]string{{"or"}, {"and"}, {"=", "!="}, {"<", "<=", ">", ">="}, {"+", "-"}, {"*", "div", "mod"}}

func (p *parser) binary(level int) *Node {
	if level == len(levels) {
		return p.unary()
	}
	left := p.binary(level + 1)
	for {
		matched := ""
		for _, op := range levels[level] {
			if p.isOp(op) {
				matched = op
			}
		}
		if matched == "" {
			return left
		}
		p.next()
		right := p.binary(level + 1)
		left = &Node{Op: matched, Kids: []*Node{left, right}}
	}
}

func (p *parser) unary() *Node {
	if p.isOp("-") {
		p.next()
		return &Node{Op: "neg", Kids: []*Node{p.unary()}}
	}
	return p.union()
}

func (p *parser) union() *Node {
	left := p.pathExpr()
	for p.isOp("|") {
		p.next()
		right := p.pathExpr()
		left = &Node{Op: "|", Kids: []*Node{left, right}}
	}
	return left
}

func (p *parser) startsPrimary() bool {
	switch p.peek().Kind {
	case TVarRef, TLParen, TLiteral, TNumber, TFuncName:
		return true
	}
	return false
}

func (p *parser) pathExpr() *Node {
	if p.startsPrimary() {
		prim := p.primary()
		var preds []*Node
		for p.peek().Kind == TLBrack {
			preds = append(preds, p.predicate())
		}
		if p.isOp("/") || p.isOp("//") {
			path := &Path{Filter: prim, FPreds: preds}
			dbl := p.next().Val == "//"
			p.relative(path, dbl)
			return &Node{Op: "path", Path: path}
		}
		if len(preds) > 0 {
			return &Node{Op: "path", Path: &Path{Filter: prim, FPreds: preds}}
		}
		return prim
	}
	return p.locationPath()
}

func (p *parser) primary() *Node {
	t := p.next()
	switch t.Kind {
	case TVarRef:
		return &Node{Op: "var", Val: t.Val}
	case TLParen:
		if VariantEmptyParens && p.peek().Kind == TRParen {
			p.next()
			return &Node{Op: "paren-empty"}
		}
		e := p.expr()
		if p.next().Kind != TRParen {
			p.i--
			p.fail("expected ')'")
		}
		return &Node{Op: "paren", Kids: []*Node{e}}
	case TLiteral:
		return &Node{Op: "lit", Val: t.Val}
	case TNumber:
		return &Node{Op: "num", Val: t.Val}
	case TFuncName:
		if p.next().Kind != TLParen {
			p.i--
			p.fail("expected '(' after function name")
		}
		n := &Node{Op: "func", Val: t.Val}
		if p.peek().Kind == TRParen {
			p.next()
			return n
		}
		for {
			n.Kids = append(n.Kids, p.expr())
			t := p.next()
			if t.Kind == TRParen {
				return n
			}
			if t.Kind != TComma {
				p.i--
				p.fail("expected ',' or ')' in argument list")
			}
		}
	}
	p.i--
	p.fail("expected a primary expression")
	return nil
}

func (p *parser) predicate() *Node {
	p.next() // '['
	e := p.expr()
	if p.next().Kind != TRBrack {
		p.i--
		p.fail("expected ']'")
	}
	return e
}

func (p *parser) startsStep() bool {
	switch p.peek().Kind {
	case TDot, TDotDot, TAt, TAxisName, TNameTest, TNodeType:
		return true
	}
	return false
}

func (p *parser) locationPath() *Node {
	path := &Path{}
	switch {
	case p.isOp("/"):
		p.next()
		path.Abs = true
		if !p.startsStep() {
			path.RootOnly = true
			return &Node{Op: "path", Path: path}
		}
		p.relative(path, false)
	case p.isOp("//"):
		p.next()
		path.Abs = true
		p.relative(path, true)
	default:
		if !p.startsStep() {
			p.fail("expected an expression")
		}
		p.relative(path, false)
	}
	return &Node{Op: "path", Path: path}
}

func (p *parser) relative(path *Path, firstDbl bool) {
	dbl := firstDbl
	for {
		st := p.step()
		st.DblSlash = dbl
		path.Steps = append(path.Steps, st)
		if p.isOp("/") {
			p.next()
			dbl = false
		} else if p.isOp("//") {
			p.next()
			dbl = true
		} else {
			return
		}
	}
}

func (p *parser) step() Step {
	var st Step
	t := p.peek()
	switch t.Kind {
	case TDot:
		p.next()
		st.Kind = "."
		return st
	case TDotDot:
		p.next()
		st.Kind = ".."
		return st
	case TAt:
		p.next()
		st.Axis = "@"
	case TAxisName:
		p.next()
		st.Axis = t.Val
		if p.next().Kind != TDblColon {
			p.i--
			p.fail("expected '::'")
		}
	}
	t = p.next()
	switch t.Kind {
	case TNameTest:
		st.Kind, st.Prefix, st.Local = "name", t.Prefix, t.Local
	case TNodeType:
		st.Kind, st.NodeType = "nodetype", t.Val
		if p.next().Kind != TLParen {
			p.i--
			p.fail("expected '(' after node type")
		}
		if t.Val == "processing-instruction" && p.peek().Kind == TLiteral {
			st.PIArg = p.next().Val
		}
		if p.next().Kind != TRParen {
			p.i--
			p.fail("expected ')' after node type")
		}
	default:
		p.i--
		p.fail("expected a node test")
	}
	for p.peek().Kind == TLBrack {
		st.Preds = append(st.Preds, p.predicate())
	}
	return st
}

// ---------------------------------------------------------------- printing

// String renders the AST with the minimal parentheses the source had.
func (n *Node) String() string {
	var b strings.Builder
	n.write(&b, false)
	return b.String()
}

// FullyParenthesized renders the AST with explicit parentheses around every
// binary and unary operator application (precedence and associativity made
// explicit).  Path expressions and primaries are printed as they are.
func (n *Node) FullyParenthesized() string {
	var b strings.Builder
	n.write(&b, true)
	return b.String()
}

func isBinary(op string) bool {
	switch op {
	case "or", "and", "=", "!=", "<", "<=", ">", ">=", "+", "-", "*", "div", "mod", "|":
		return true
	}
	return false
}

func (n *Node) write(b *strings.Builder, full bool) {
	switch {
	case isBinary(n.Op):
		if full {
			b.WriteString("(")
		}
		n.Kids[0].write(b, full)
		b.WriteString(" " + n.Op + " ")
		n.Kids[1].write(b, full)
		if full {
			b.WriteString(")")
		}
	case n.Op == "neg":
		if full {
			b.WriteString("(")
		}
		b.WriteString("- ")
		n.Kids[0].write(b, full)
		if full {
			b.WriteString(")")
		}
	case n.Op == "paren":
		b.WriteString("(")
		n.Kids[0].write(b, full)
		b.WriteString(")")
	case n.Op == "num":
		b.WriteString(n.Val)
	case n.Op == "lit":
		q := "'"
		if strings.Contains(n.Val, "'") {
			q = "\""
		}
		b.WriteString(q + n.Val + q)
	case n.Op == "var":
		b.WriteString(n.Val)
	case n.Op == "func":
		b.WriteString(n.Val + "(")
		for i, k := range n.Kids {
			if i > 0 {
				b.WriteString(", ")
			}
			k.write(b, full)
		}
		b.WriteString(")")
	case n.Op == "path":
		p := n.Path
		if p.Filter != nil {
			p.Filter.write(b, full)
			for _, pr := range p.FPreds {
				b.WriteString("[")
				pr.write(b, full)
				b.WriteString("]")
			}
		}
		if p.Abs && (p.RootOnly || !p.Steps[0].DblSlash) {
			b.WriteString("/")
		}
		for i, s := range p.Steps {
			if s.DblSlash {
				b.WriteString("//")
			} else if i > 0 || p.Filter != nil {
				b.WriteString("/")
			}
			switch s.Kind {
			case ".", "..":
				b.WriteString(s.Kind)
			default:
				if s.Axis == "@" {
					b.WriteString("@")
				} else if s.Axis != "" {
					b.WriteString(s.Axis + "::")
				}
				if s.Kind == "nodetype" {
					b.WriteString(s.NodeType + "(")
					if s.PIArg != "" {
						b.WriteString("'" + s.PIArg + "'")
					}
					b.WriteString(")")
				} else if s.Prefix != "" {
					b.WriteString(s.Prefix + ":" + s.Local)
				} else {
					b.WriteString(s.Local)
				}
			}
			for _, pr := range s.Preds {
				b.WriteString("[")
				pr.write(b, full)
				b.WriteString("]")
			}
		}
	}
}

// Walk visits every node (including predicates and filter roots).
func (n *Node) Walk(f func(*Node)) {
	f(n)
	for _, k := range n.Kids {
		k.Walk(f)
	}
	if n.Path != nil {
		if n.Path.Filter != nil {
			n.Path.Filter.Walk(f)
		}
		for _, pr := range n.Path.FPreds {
			pr.Walk(f)
		}
		for _, s := range n.Path.Steps {
			for _, pr := range s.Preds {
				pr.Walk(f)
			}
		}
	}
}
