package xp10

import (
	"fmt"
	"math"
	"strconv"
	"strings"
	"unicode/utf8"
)

// Value is an XPath 1.0 object.  Kind: 'n' number, 's' string, 'b' boolean,
// 'S' node-set.  The members of a node-set are the scalar values the data tree
// reports for its nodes (the model works at the level of typed leaf values).
type Value struct {
	Kind byte
	N    float64
	S    string
	B    bool
	Set  []Value
}

func Num(f float64) Value    { return Value{Kind: 'n', N: f} }
func Str(s string) Value     { return Value{Kind: 's', S: s} }
func Bool(b bool) Value      { return Value{Kind: 'b', B: b} }
func NodeSet(v ...Value) Value { return Value{Kind: 'S', Set: v} }

func (v Value) String() string {
	switch v.Kind {
	case 'n':
		return "number(" + NumberToString(v.N) + ")"
	case 's':
		return "string(" + strconv.Quote(v.S) + ")"
	case 'b':
		return fmt.Sprintf("boolean(%v)", v.B)
	}
	var p []string
	for _, m := range v.Set {
		p = append(p, m.String())
	}
	return "node-set{" + strings.Join(p, ",") + "}"
}

// NumberToString is string() applied to a number, §4.2.
func NumberToString(f float64) string {
	switch {
	case math.IsNaN(f):
		return "NaN"
	case f == 0:
		return "0"
	case math.IsInf(f, 1):
		return "Infinity"
	case math.IsInf(f, -1):
		return "-Infinity"
	}
	return strconv.FormatFloat(f, 'f', -1, 64)
}

// InfinitySpelling switches the reference to a named deviation from the REC:
// number('Infinity') = +Infinity and number('-Infinity') = -Infinity.  It is
// only used to attribute a disagreement to that one known cause.
var InfinitySpelling bool

// StringToNumber is number() applied to a string, §4.4: optional whitespace,
// optional minus sign, a Number, optional whitespace; anything else is NaN.
func StringToNumber(s string) float64 {
	s = strings.Trim(s, " \t\r\n")
	if InfinitySpelling && (s == "Infinity" || s == "-Infinity") {
		if s[0] == '-' {
			return math.Inf(-1)
		}
		return math.Inf(1)
	}
	t := s
	if strings.HasPrefix(t, "-") {
		t = t[1:]
	}
	if t == "" {
		return math.NaN()
	}
	digits, dots := 0, 0
	for i := 0; i < len(t); i++ {
		switch {
		case t[i] >= '0' && t[i] <= '9':
			digits++
		case t[i] == '.':
			dots++
		default:
			return math.NaN()
		}
	}
	if digits == 0 || dots > 1 {
		return math.NaN()
	}
	f, err := strconv.ParseFloat(s, 64)
	if err != nil {
		// only range errors are possible here; ParseFloat returns ±Inf for them,
		// which is the IEEE round-to-nearest result
		return f
	}
	return f
}

func ToString(v Value) string {
	switch v.Kind {
	case 'n':
		return NumberToString(v.N)
	case 's':
		return v.S
	case 'b':
		if v.B {
			return "true"
		}
		return "false"
	}
	if len(v.Set) == 0 {
		return ""
	}
	return ToString(v.Set[0]) // string-value of the first node in document order
}

func ToNumber(v Value) float64 {
	switch v.Kind {
	case 'n':
		return v.N
	case 's':
		return StringToNumber(v.S)
	case 'b':
		if v.B {
			return 1
		}
		return 0
	}
	return StringToNumber(ToString(v))
}

func ToBool(v Value) bool {
	switch v.Kind {
	case 'n':
		return v.N != 0 && !math.IsNaN(v.N)
	case 's':
		return v.S != ""
	case 'b':
		return v.B
	}
	return len(v.Set) > 0
}

// ErrUnsupported is returned for constructs outside the scalar model.
type ErrUnsupported struct{ What string }

func (e *ErrUnsupported) Error() string { return "outside the scalar reference model: " + e.What }

// Env resolves a path expression to the value the data tree supplies.
type Env func(p *Path) (Value, error)

func cmpScalar(op string, a, b Value) bool {
	switch op {
	case "=", "!=":
		var eq bool
		switch {
		case a.Kind == 'b' || b.Kind == 'b':
			eq = ToBool(a) == ToBool(b)
		case a.Kind == 'n' || b.Kind == 'n':
			x, y := ToNumber(a), ToNumber(b)
			if op == "=" {
				return x == y
			}
			return x != y // NaN != anything is true
		default:
			eq = ToString(a) == ToString(b)
		}
		if op == "=" {
			return eq
		}
		return !eq
	}
	x, y := ToNumber(a), ToNumber(b)
	switch op {
	case "<":
		return x < y
	case "<=":
		return x <= y
	case ">":
		return x > y
	}
	return x >= y
}

// Compare implements §3.4 including node-set operands.
func Compare(op string, a, b Value) bool {
	switch {
	case a.Kind == 'S' && b.Kind == 'S':
		for _, x := range a.Set {
			for _, y := range b.Set {
				if cmpScalar(op, x, y) {
					return true
				}
			}
		}
		return false
	case a.Kind == 'S':
		if b.Kind == 'b' {
			return cmpScalar(op, Bool(ToBool(a)), b)
		}
		for _, x := range a.Set {
			if cmpScalar(op, x, b) {
				return true
			}
		}
		return false
	case b.Kind == 'S':
		if a.Kind == 'b' {
			return cmpScalar(op, a, Bool(ToBool(b)))
		}
		for _, y := range b.Set {
			if cmpScalar(op, a, y) {
				return true
			}
		}
		return false
	}
	return cmpScalar(op, a, b)
}

// Round is round(), §4.4.
func Round(x float64) float64 {
	if math.IsNaN(x) || math.IsInf(x, 0) || x == 0 {
		return x
	}
	if x < 0 && x >= -0.5 {
		return math.Copysign(0, -1)
	}
	if math.Abs(x) >= 1<<52 {
		return x
	}
	return math.Floor(x + 0.5)
}

func isXMLSpace(r rune) bool { return r == ' ' || r == '\t' || r == '\r' || r == '\n' }

// CoreArity is the number of arguments with which the implementation registers
// each scalar core function (the property speaks of "declared" arity: concat
// is binary and substring ternary there).
var CoreArity = map[string]int{"boolean": 1, "ceiling": 1, "concat": 2, "contains": 2, "false": 0, "floor": 1,
	"normalize-space": 1, "not": 1, "number": 1, "round": 1, "starts-with": 2, "string": 1, "string-length": 1,
	"substring": 3, "substring-after": 2, "substring-before": 2, "translate": 3, "true": 0,
	// outside every predicate the context is the context node alone: position 1 of 1 (XPath 1.0 section 1; RFC 6020 6.4.1)
	"position": 0, "last": 0}

func callCore(name string, a []Value) (Value, error) {
	want, ok := CoreArity[name]
	if !ok {
		return Value{}, &ErrUnsupported{"function " + name}
	}
	if len(a) != want {
		return Value{}, &ErrUnsupported{fmt.Sprintf("%s with %d arguments", name, len(a))}
	}
	switch name {
	case "boolean":
		return Bool(ToBool(a[0])), nil
	case "not":
		return Bool(!ToBool(a[0])), nil
	case "true":
		return Bool(true), nil
	case "position", "last":
		return Num(1), nil
	case "false":
		return Bool(false), nil
	case "number":
		return Num(ToNumber(a[0])), nil
	case "string":
		return Str(ToString(a[0])), nil
	case "ceiling":
		return Num(math.Ceil(ToNumber(a[0]))), nil
	case "floor":
		return Num(math.Floor(ToNumber(a[0]))), nil
	case "round":
		return Num(Round(ToNumber(a[0]))), nil
	case "concat":
		return Str(ToString(a[0]) + ToString(a[1])), nil
	case "contains":
		return Bool(strings.Contains(ToString(a[0]), ToString(a[1]))), nil
	case "starts-with":
		return Bool(strings.HasPrefix(ToString(a[0]), ToString(a[1]))), nil
	case "string-length":
		return Num(float64(utf8.RuneCountInString(ToString(a[0])))), nil
	case "normalize-space":
		return Str(strings.Join(strings.FieldsFunc(ToString(a[0]), isXMLSpace), " ")), nil
	case "substring-before":
		s, t := ToString(a[0]), ToString(a[1])
		if i := strings.Index(s, t); i >= 0 {
			return Str(s[:i]), nil
		}
		return Str(""), nil
	case "substring-after":
		s, t := ToString(a[0]), ToString(a[1])
		if i := strings.Index(s, t); i >= 0 {
			return Str(s[i+len(t):]), nil
		}
		return Str(""), nil
	case "substring":
		s := []rune(ToString(a[0]))
		p, l := Round(ToNumber(a[1])), Round(ToNumber(a[2]))
		var out []rune
		for i, r := range s {
			pos := float64(i + 1)
			if pos >= p && pos < p+l { // comparisons with NaN are false
				out = append(out, r)
			}
		}
		return Str(string(out)), nil
	case "translate":
		s, from, to := []rune(ToString(a[0])), []rune(ToString(a[1])), []rune(ToString(a[2]))
		m := map[rune]int{}
		for i, r := range from {
			if _, dup := m[r]; !dup {
				m[r] = i
			}
		}
		var out []rune
		for _, r := range s {
			if i, ok := m[r]; ok {
				if i < len(to) {
					out = append(out, to[i])
				}
			} else {
				out = append(out, r)
			}
		}
		return Str(string(out)), nil
	}
	return Value{}, &ErrUnsupported{"function " + name}
}

// Eval evaluates the scalar part of XPath 1.0.
func Eval(n *Node, env Env) (Value, error) {
	switch n.Op {
	case "paren":
		return Eval(n.Kids[0], env)
	case "num":
		f, err := strconv.ParseFloat(n.Val, 64)
		if err != nil && !math.IsInf(f, 0) {
			return Value{}, &ErrUnsupported{"number " + n.Val}
		}
		return Num(f), nil
	case "lit":
		return Str(n.Val), nil
	case "var":
		return Value{}, &ErrUnsupported{"variable"}
	case "path":
		if env == nil {
			return Value{}, &ErrUnsupported{"path without a data tree"}
		}
		return env(n.Path)
	case "func":
		var args []Value
		for _, k := range n.Kids {
			v, err := Eval(k, env)
			if err != nil {
				return Value{}, err
			}
			args = append(args, v)
		}
		return callCore(n.Val, args)
	case "neg":
		v, err := Eval(n.Kids[0], env)
		if err != nil {
			return Value{}, err
		}
		return Num(-ToNumber(v)), nil
	case "|":
		return Value{}, &ErrUnsupported{"union"}
	}
	a, err := Eval(n.Kids[0], env)
	if err != nil {
		return Value{}, err
	}
	b, err := Eval(n.Kids[1], env)
	if err != nil {
		return Value{}, err
	}
	switch n.Op {
	case "or":
		return Bool(ToBool(a) || ToBool(b)), nil
	case "and":
		return Bool(ToBool(a) && ToBool(b)), nil
	case "=", "!=", "<", "<=", ">", ">=":
		return Bool(Compare(n.Op, a, b)), nil
	case "+":
		return Num(ToNumber(a) + ToNumber(b)), nil
	case "-":
		return Num(ToNumber(a) - ToNumber(b)), nil
	case "*":
		return Num(ToNumber(a) * ToNumber(b)), nil
	case "div":
		return Num(ToNumber(a) / ToNumber(b)), nil
	case "mod":
		return Num(math.Mod(ToNumber(a), ToNumber(b))), nil
	}
	return Value{}, &ErrUnsupported{"operator " + n.Op}
}

// NumClass names the value class of a number (used in finding keys).
func NumClass(f float64) string {
	switch {
	case math.IsNaN(f):
		return "NaN"
	case math.IsInf(f, 1):
		return "+Inf"
	case math.IsInf(f, -1):
		return "-Inf"
	case f == 0 && math.Signbit(f):
		return "-0"
	case f == 0:
		return "+0"
	}
	s := "+"
	if f < 0 {
		s = "-"
	}
	a := math.Abs(f)
	switch {
	case a >= 1e21:
		return s + "huge"
	case a < 1e-6:
		return s + "tiny"
	case a == math.Trunc(a) && a > 1<<53:
		return s + "bigint"
	case a == math.Trunc(a):
		return s + "int"
	case a*2 == math.Trunc(a*2):
		return s + "half"
	}
	return s + "frac"
}

// StrClass names the value class of a string.
func StrClass(s string) string {
	switch {
	case s == "":
		return "empty"
	case strings.Trim(s, " \t\r\n") == "":
		return "blank"
	}
	for _, r := range s {
		if r >= 0x80 {
			return "non-ascii"
		}
	}
	t := strings.Trim(s, " \t\r\n")
	if !math.IsNaN(StringToNumber(s)) {
		if t != s {
			return "padded-number"
		}
		return "number"
	}
	switch {
	case t == "Infinity" || t == "-Infinity" || t == "NaN" || t == "Inf" || t == "+Inf":
		return "special-spelling"
	case strings.HasPrefix(t, "+"):
		if _, err := strconv.ParseFloat(t, 64); err == nil {
			return "plus-signed"
		}
	case strings.ContainsAny(t, "eE"):
		if _, err := strconv.ParseFloat(t, 64); err == nil {
			return "exponent"
		}
	}
	if strings.ContainsAny(s, " \t\r\n") {
		return "text-with-space"
	}
	return "text"
}

// Class names the value class of any value.
func Class(v Value) string {
	switch v.Kind {
	case 'n':
		return "num:" + NumClass(v.N)
	case 's':
		return "str:" + StrClass(v.S)
	case 'b':
		return fmt.Sprintf("bool:%v", v.B)
	}
	return fmt.Sprintf("set%d", len(v.Set))
}
