package xp10

import (
	"fmt"
	"strings"
)

// Verdict of the three-valued acceptance oracle.
type Verdict int

const (
	Unspecified Verdict = iota
	MustAccept
	MustReject
)

func (v Verdict) String() string { return [...]string{"UNSPECIFIED", "MUST_ACCEPT", "MUST_REJECT"}[v] }

// RegisteredArity is the function table the property refers to ("the registered
// functions with exactly their declared number of arguments"), transcribed
// from the documentation of the function table, not read from the code.
var RegisteredArity = map[string]int{
	"boolean": 1, "ceiling": 1, "concat": 2, "contains": 2, "re-match": 2, "count": 1, "false": 0, "floor": 1,
	"last": 0, "local-name": 1, "normalize-space": 1, "not": 1, "number": 1, "round": 1, "position": 0,
	"starts-with": 2, "string": 1, "string-length": 1, "substring": 3, "substring-after": 2, "substring-before": 2,
	"sum": 1, "translate": 3, "true": 0,
}

// ClassifyCore decides whether src must be accepted (XPath 1.0 and inside the
// supported core subset), must be rejected (not XPath 1.0, or uses a construct
// the property lists as unsupported) or is unspecified (valid XPath 1.0 outside
// the core subset about which the property says nothing).
func ClassifyCore(src string, knownPrefix func(string) bool) (Verdict, string) {
	if src == "" {
		return MustReject, "empty string"
	}
	n, err := Parse(src)
	if err != nil {
		return MustReject, err.Error()
	}
	verdict, why := MustAccept, ""
	reject := func(w string) {
		if verdict != MustReject {
			verdict, why = MustReject, w
		}
	}
	unspec := func(w string) {
		if verdict == MustAccept {
			verdict, why = Unspecified, w
		}
	}
	isPlainPath := func(x *Node) bool {
		// a location path, possibly current()- or deref()-rooted, without filter predicates
		if x.Op != "path" {
			return x.Op == "func" && (x.Val == "current" || x.Val == "deref")
		}
		p := x.Path
		if p.Filter == nil {
			return true
		}
		return len(p.FPreds) == 0 && p.Filter.Op == "func" && (p.Filter.Val == "current" || p.Filter.Val == "deref")
	}
	if strings.Contains(src, "\x00") {
		// outside a literal NUL is no token (rejected above); inside a literal it is not an XML
		// character (XML 1.0 Char excludes #x0) and XPath expressions are made of XML characters:
		// whether a literal may hold it is not settled by the documents the property names
		unspec("NUL inside a literal")
	}
	n.Walk(func(x *Node) {
		switch x.Op {
		case "var":
			reject("variable reference")
		case "func":
			switch x.Val {
			case "current":
				if len(x.Kids) != 0 {
					reject("current() takes no arguments")
				}
			case "deref":
				if len(x.Kids) != 1 {
					unspec("deref() arity")
				} else if !isPlainPath(x.Kids[0]) {
					unspec("deref() of something that is not a location path")
				}
			default:
				want, ok := RegisteredArity[x.Val]
				if !ok {
					reject("unknown function " + x.Val)
				} else if want != len(x.Kids) {
					reject(fmt.Sprintf("%s() takes %d arguments", x.Val, want))
				}
			}
		case "|":
			for _, k := range x.Kids {
				if !(isPlainPath(k) || k.Op == "|") {
					unspec("union of a non-path")
				}
			}
		case "path":
			p := x.Path
			if p.Filter != nil {
				f := p.Filter
				if len(p.FPreds) > 0 {
					unspec("predicate on a filter expression")
				} else if !(f.Op == "func" && (f.Val == "current" || f.Val == "deref")) {
					unspec("path rooted at a filter expression")
				}
			}
			for _, s := range p.Steps {
				switch {
				case s.DblSlash:
					reject("'//'")
				case s.Axis == "@":
					reject("'@'")
				case s.Axis != "":
					reject("axis " + s.Axis)
				case s.Kind == "nodetype":
					reject("node-type test " + s.NodeType)
				case s.Kind == "name" && s.Prefix != "" && !knownPrefix(s.Prefix):
					reject("unknown prefix " + s.Prefix)
				}
			}
		}
	})
	// current()/deref() used as ordinary function values (not path roots) are
	// accepted by the grammar only in path position; as they always are primaries
	// in XPath, every use is in path position.
	return verdict, why
}
