// Package xp10 is a reference model of XPath 1.0 written from the W3C
// Recommendation (16 November 1999): the ExprToken tokenizer with the §3.7
// disambiguation rules, a recursive-descent parser for the full grammar of
// §2-§3, and an evaluator for the scalar part (§3.4, §3.5, §4).
// It shares no code with the implementation under test.
package xp10

import (
	"fmt"
	"strings"
	"unicode/utf8"
)

type TokKind int

const (
	TEOF TokKind = iota
	TLParen
	TRParen
	TLBrack
	TRBrack
	TDot
	TDotDot
	TAt
	TComma
	TDblColon
	TNameTest   // '*' | NCName:* | QName ; Val = text, Prefix/Local set
	TNodeType   // comment text processing-instruction node
	TOperator   // and or mod div * / // | + - = != < <= > >=
	TFuncName   // QName followed by '('
	TAxisName   // NCName followed by '::'
	TLiteral    // Val = content
	TNumber     // Val = text
	TVarRef     // $QName
)

type Token struct {
	Kind   TokKind
	Val    string
	Prefix string
	Local  string
	Pos    int
}

func (t Token) String() string { return fmt.Sprintf("%d:%q", t.Kind, t.Val) }

func isWS(c byte) bool { return c == ' ' || c == '\t' || c == '\r' || c == '\n' }

// NCName characters per XML Names 1.0 / XML 1.0 (fifth edition ranges).
func IsNameStart(c rune) bool {
	switch {
	case c >= 'A' && c <= 'Z', c == '_', c >= 'a' && c <= 'z',
		c >= 0xC0 && c <= 0xD6, c >= 0xD8 && c <= 0xF6, c >= 0xF8 && c <= 0x2FF,
		c >= 0x370 && c <= 0x37D, c >= 0x37F && c <= 0x1FFF, c >= 0x200C && c <= 0x200D,
		c >= 0x2070 && c <= 0x218F, c >= 0x2C00 && c <= 0x2FEF, c >= 0x3001 && c <= 0xD7FF,
		c >= 0xF900 && c <= 0xFDCF, c >= 0xFDF0 && c <= 0xFFFD, c >= 0x10000 && c <= 0xEFFFF:
		return true
	}
	return false
}

func IsNameChar(c rune) bool {
	return IsNameStart(c) || c == '-' || c == '.' || (c >= '0' && c <= '9') || c == 0xB7 ||
		(c >= 0x300 && c <= 0x36F) || (c >= 0x203F && c <= 0x2040)
}

var nodeTypes = map[string]bool{"comment": true, "text": true, "processing-instruction": true, "node": true}

var AxisNames = map[string]bool{"ancestor": true, "ancestor-or-self": true, "attribute": true, "child": true, "descendant": true,
	"descendant-or-self": true, "following": true, "following-sibling": true, "namespace": true, "parent": true,
	"preceding": true, "preceding-sibling": true, "self": true}

// LexError describes why a string is not a sequence of ExprTokens.
type LexError struct {
	Pos  int
	What string
}

func (e *LexError) Error() string { return fmt.Sprintf("lex error at %d: %s", e.Pos, e.What) }

// Named deviations from the REC.  They are only ever switched on to attribute
// a disagreement to one known cause; the oracle itself runs with all of them off.
var (
	VariantExponentNumbers bool // Number may carry an exponent: Digits ('.' Digits?)? ([eE] Digits)?
	VariantEmptyParens     bool // '(' ')' is a PrimaryExpr
)

// Tokenize splits s into ExprTokens following §3.7.
func Tokenize(s string) ([]Token, error) {
	if !utf8.ValidString(s) {
		return nil, &LexError{0, "invalid UTF-8"}
	}
	var toks []Token
	i := 0
	skipWS := func(j int) int {
		for j < len(s) && isWS(s[j]) {
			j++
		}
		return j
	}
	ncname := func(j int) int { // returns end of NCName starting at j, or j
		r, w := utf8.DecodeRuneInString(s[j:])
		if w == 0 || !IsNameStart(r) {
			return j
		}
		j += w
		for j < len(s) {
			r, w = utf8.DecodeRuneInString(s[j:])
			if !IsNameChar(r) {
				break
			}
			j += w
		}
		return j
	}
	precedingAllowsOperator := func() bool {
		if len(toks) == 0 {
			return false
		}
		p := toks[len(toks)-1]
		switch p.Kind {
		case TAt, TDblColon, TLParen, TLBrack, TComma, TOperator:
			return false
		}
		return true
	}
	for {
		i = skipWS(i)
		if i >= len(s) {
			break
		}
		c := s[i]
		start := i
		emit := func(k TokKind, end int) {
			toks = append(toks, Token{Kind: k, Val: s[start:end], Pos: start})
			i = end
		}
		switch {
		case c == '(':
			emit(TLParen, i+1)
		case c == ')':
			emit(TRParen, i+1)
		case c == '[':
			emit(TLBrack, i+1)
		case c == ']':
			emit(TRBrack, i+1)
		case c == '@':
			emit(TAt, i+1)
		case c == ',':
			emit(TComma, i+1)
		case c == ':':
			if i+1 < len(s) && s[i+1] == ':' {
				emit(TDblColon, i+2)
			} else {
				return nil, &LexError{i, "stray ':'"}
			}
		case c == '.':
			if i+1 < len(s) && s[i+1] == '.' {
				emit(TDotDot, i+2)
			} else if i+1 < len(s) && s[i+1] >= '0' && s[i+1] <= '9' {
				j := i + 1
				for j < len(s) && s[j] >= '0' && s[j] <= '9' {
					j++
				}
				if VariantExponentNumbers {
					j = expTail(s, j)
				}
				emit(TNumber, j)
			} else {
				emit(TDot, i+1)
			}
		case c >= '0' && c <= '9':
			j := i
			for j < len(s) && s[j] >= '0' && s[j] <= '9' {
				j++
			}
			if j < len(s) && s[j] == '.' {
				j++
				for j < len(s) && s[j] >= '0' && s[j] <= '9' {
					j++
				}
			}
			if VariantExponentNumbers {
				j = expTail(s, j)
			}
			emit(TNumber, j)
		case c == '"' || c == '\'':
			j := strings.IndexByte(s[i+1:], c)
			if j < 0 {
				return nil, &LexError{i, "unterminated literal"}
			}
			toks = append(toks, Token{Kind: TLiteral, Val: s[i+1 : i+1+j], Pos: i})
			i = i + 1 + j + 1
		case c == '/':
			if i+1 < len(s) && s[i+1] == '/' {
				emit(TOperator, i+2)
			} else {
				emit(TOperator, i+1)
			}
		case c == '|' || c == '+' || c == '-' || c == '=':
			emit(TOperator, i+1)
		case c == '!':
			if i+1 < len(s) && s[i+1] == '=' {
				emit(TOperator, i+2)
			} else {
				return nil, &LexError{i, "stray '!'"}
			}
		case c == '<' || c == '>':
			if i+1 < len(s) && s[i+1] == '=' {
				emit(TOperator, i+2)
			} else {
				emit(TOperator, i+1)
			}
		case c == '*':
			if precedingAllowsOperator() {
				emit(TOperator, i+1)
			} else {
				toks = append(toks, Token{Kind: TNameTest, Val: "*", Local: "*", Pos: i})
				i++
			}
		case c == '$':
			j := ncname(i + 1)
			if j == i+1 {
				return nil, &LexError{i, "'$' without a name"}
			}
			if j < len(s) && s[j] == ':' && !(j+1 < len(s) && s[j+1] == ':') {
				k := ncname(j + 1)
				if k > j+1 {
					j = k
				}
			}
			emit(TVarRef, j)
		default:
			j := ncname(i)
			if j == i {
				r, _ := utf8.DecodeRuneInString(s[i:])
				return nil, &LexError{i, fmt.Sprintf("unexpected character %q", r)}
			}
			name := s[i:j]
			if precedingAllowsOperator() {
				switch name {
				case "and", "or", "mod", "div":
					emit(TOperator, j)
					continue
				}
				return nil, &LexError{i, "NCName where an operator is required: " + name}
			}
			// QName / NCName:* (no whitespace inside, XML Names)
			prefix, local := "", name
			end := j
			if j < len(s) && s[j] == ':' && !(j+1 < len(s) && s[j+1] == ':') {
				if j+1 < len(s) && s[j+1] == '*' {
					toks = append(toks, Token{Kind: TNameTest, Val: s[i : j+2], Prefix: name, Local: "*", Pos: i})
					i = j + 2
					continue
				}
				k := ncname(j + 1)
				if k == j+1 {
					return nil, &LexError{j, "':' not followed by a local part"}
				}
				prefix, local, end = name, s[j+1:k], k
			}
			after := skipWS(end)
			switch {
			case after < len(s) && s[after] == '(':
				if prefix == "" && nodeTypes[name] {
					emit(TNodeType, end)
				} else {
					toks = append(toks, Token{Kind: TFuncName, Val: s[i:end], Prefix: prefix, Local: local, Pos: i})
					i = end
				}
			case prefix == "" && after+1 < len(s) && s[after] == ':' && s[after+1] == ':':
				if !AxisNames[name] {
					return nil, &LexError{i, "unknown axis " + name}
				}
				emit(TAxisName, end)
			default:
				toks = append(toks, Token{Kind: TNameTest, Val: s[i:end], Prefix: prefix, Local: local, Pos: i})
				i = end
			}
		}
	}
	return toks, nil
}

// expTail extends a number over the characters the implementation's number
// matcher takes ([0-9.eE]*) when the result still is a float strconv accepts.
func expTail(s string, j int) int {
	k := j
	for k < len(s) && (s[k] >= '0' && s[k] <= '9' || s[k] == 'e' || s[k] == 'E') {
		k++
	}
	if k > j && (s[j] == 'e' || s[j] == 'E') && k-j >= 2 {
		ok := true
		for _, c := range s[j+1 : k] {
			if c < '0' || c > '9' {
				ok = false
			}
		}
		if ok {
			return k
		}
	}
	return j
}
