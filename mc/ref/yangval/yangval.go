// Package yangval is an exact model of the value spaces of the YANG built-in
// types (RFC 6020 section 9), using math/big; it shares no code with schema/.
package yangval

import (
	"fmt"
	"math/big"
	"regexp"
	"strings"
	"unicode/utf8"
)

// Spec describes a (possibly restricted) type.
type Spec struct {
	Kind     string // int uint decimal64 string boolean empty enumeration identityref union
	Bits     int
	Fd       int
	Ranges   [][2]string // "min"/"max"/numbers, in source form; nil = none
	Lengths  [][2]string
	Patterns []string
	Enums    []string
	Idents   []string // accepted identity names
	Unsettled []string // values whose acceptance the model leaves open
	Members  []Spec
	Msg, Tag string // custom error-message / error-app-tag of the range/length/pattern
}

// Yang renders the type statement.
func (s Spec) Yang() string {
	name := s.Kind
	switch s.Kind {
	case "int", "uint":
		name = fmt.Sprintf("%s%d", s.Kind, s.Bits)
	}
	var body []string
	errs := ""
	if s.Msg != "" {
		errs += fmt.Sprintf(" error-message %q;", s.Msg)
	}
	if s.Tag != "" {
		errs += fmt.Sprintf(" error-app-tag %q;", s.Tag)
	}
	wrap := func(stmt string) string {
		if errs == "" {
			return stmt + ";"
		}
		return stmt + " {" + errs + " }"
	}
	if s.Kind == "decimal64" {
		body = append(body, fmt.Sprintf("fraction-digits %d;", s.Fd))
	}
	parts := func(rs [][2]string) string {
		var ps []string
		for _, r := range rs {
			if r[0] == r[1] {
				ps = append(ps, r[0])
			} else {
				ps = append(ps, r[0]+".."+r[1])
			}
		}
		return strings.Join(ps, " | ")
	}
	if s.Ranges != nil {
		body = append(body, wrap(fmt.Sprintf("range %q", parts(s.Ranges))))
	}
	if s.Lengths != nil {
		body = append(body, wrap(fmt.Sprintf("length %q", parts(s.Lengths))))
	}
	for _, p := range s.Patterns {
		body = append(body, wrap(fmt.Sprintf("pattern '%s'", p)))
	}
	for i, e := range s.Enums {
		body = append(body, fmt.Sprintf("enum %q { value %d; }", e, i))
	}
	if s.Kind == "identityref" {
		body = append(body, "base root;")
	}
	for _, m := range s.Members {
		body = append(body, m.Yang())
	}
	if len(body) == 0 {
		return "type " + name + ";"
	}
	return "type " + name + " { " + strings.Join(body, " ") + " }"
}

var reInt = regexp.MustCompile(`^[+-]?[0-9]+$`)
var reDec = regexp.MustCompile(`^[+-]?[0-9]+(\.[0-9]+)?$`)

func pow10(n int) *big.Int { return new(big.Int).Exp(big.NewInt(10), big.NewInt(int64(n)), nil) }

// TypeBounds returns the bounds of the unrestricted type as rationals.
func (s Spec) TypeBounds() (lo, hi *big.Rat) {
	switch s.Kind {
	case "int":
		h := new(big.Int).Lsh(big.NewInt(1), uint(s.Bits-1))
		return new(big.Rat).SetInt(new(big.Int).Neg(h)), new(big.Rat).SetInt(new(big.Int).Sub(h, big.NewInt(1)))
	case "uint":
		h := new(big.Int).Lsh(big.NewInt(1), uint(s.Bits))
		return new(big.Rat), new(big.Rat).SetInt(new(big.Int).Sub(h, big.NewInt(1)))
	case "decimal64":
		h := new(big.Int).Lsh(big.NewInt(1), 63)
		d := pow10(s.Fd)
		return new(big.Rat).SetFrac(new(big.Int).Neg(h), d), new(big.Rat).SetFrac(new(big.Int).Sub(h, big.NewInt(1)), d)
	}
	return nil, nil
}

// Bound evaluates a range boundary.
func (s Spec) Bound(b string) *big.Rat { return s.bound(b) }

func (s Spec) bound(b string) *big.Rat {
	lo, hi := s.TypeBounds()
	switch b {
	case "min":
		return lo
	case "max":
		return hi
	}
	r, ok := new(big.Rat).SetString(b)
	if !ok {
		panic("yangval: bad bound " + b)
	}
	return r
}

// Contains decides whether v is a lexical representation of a value of the
// type.  settled=false: RFC 6020 does not decide.
// LexicallyValid reports whether v is a lexical representation of the base
// type at all (RFC 6020 9.2.1, 9.3.1), whatever its magnitude: such a value that
// is rejected is rejected by the range restriction (the built-in bounds are the
// outermost range), so a custom error-message / error-app-tag of the range
// statement applies to it.  A '-' sign on an unsigned type is left open.
func (s Spec) LexicallyValid(v string) bool {
	switch s.Kind {
	case "int":
		return reInt.MatchString(v)
	case "uint":
		return reInt.MatchString(v) && !strings.HasPrefix(v, "-")
	case "decimal64":
		if !reDec.MatchString(v) {
			return false
		}
		i := strings.IndexByte(v, '.')
		return i < 0 || len(v)-i-1 <= s.Fd
	}
	ok, _ := (Spec{Kind: s.Kind, Bits: s.Bits, Fd: s.Fd}).Contains(v)
	return ok
}

func (s Spec) Contains(v string) (ok bool, settled bool) {
	switch s.Kind {
	case "int", "uint":
		if !reInt.MatchString(v) {
			return false, true
		}
		n, _ := new(big.Int).SetString(strings.TrimPrefix(v, "+"), 10)
		if s.Kind == "uint" && strings.HasPrefix(v, "-") {
			// "-0" denotes 0; whether the sign is allowed for unsigned types is left open
			return n.Sign() == 0, n.Sign() != 0
		}
		return s.inRanges(new(big.Rat).SetInt(n)), true
	case "decimal64":
		if !reDec.MatchString(v) {
			return false, true
		}
		if i := strings.IndexByte(v, '.'); i >= 0 && len(v)-i-1 > s.Fd {
			return false, true
		}
		r, _ := new(big.Rat).SetString(strings.TrimPrefix(v, "+"))
		return s.inRanges(r), true
	case "string":
		n := utf8.RuneCountInString(v)
		if s.Lengths != nil {
			in := false
			for _, l := range s.Lengths {
				lo, hi := s.lenBound(l[0]), s.lenBound(l[1])
				if n >= lo && (hi < 0 || n <= hi) {
					in = true
				}
			}
			if !in {
				return false, true
			}
		}
		for _, p := range s.Patterns {
			re := regexp.MustCompile(`^(?:` + p + `)$`)
			if !re.MatchString(v) {
				return false, true
			}
		}
		return true, true
	case "boolean":
		return v == "true" || v == "false", true
	case "empty":
		return v == "", true
	case "enumeration":
		for _, e := range s.Enums {
			if e == v {
				return true, true
			}
		}
		return false, true
	case "identityref":
		for _, e := range s.Unsettled {
			if e == v {
				return false, false
			}
		}
		for _, e := range s.Idents {
			if e == v {
				return true, true
			}
		}
		if strings.Contains(v, ":") {
			return false, false // prefixed forms depend on the encoding
		}
		return false, true
	case "union":
		settledAll := true
		for _, m := range s.Members {
			ok, st := m.Contains(v)
			if ok && st {
				return true, true
			}
			if !st {
				settledAll = false
			}
		}
		return false, settledAll
	}
	return false, false
}

func (s Spec) lenBound(b string) int {
	switch b {
	case "min":
		return 0
	case "max":
		return -1
	}
	var n int
	fmt.Sscanf(b, "%d", &n)
	return n
}

func (s Spec) inRanges(x *big.Rat) bool {
	lo, hi := s.TypeBounds()
	if x.Cmp(lo) < 0 || x.Cmp(hi) > 0 {
		return false
	}
	if s.Ranges == nil {
		return true
	}
	for _, r := range s.Ranges {
		if x.Cmp(s.bound(r[0])) >= 0 && x.Cmp(s.bound(r[1])) <= 0 {
			return true
		}
	}
	return false
}

// Probes returns the probe strings for the type: every bound and bound +/- one
// unit in several spellings, 18-20 digit values, and lexical near misses.
func (s Spec) Probes() []string {
	seen := map[string]bool{}
	var out []string
	add := func(v ...string) {
		for _, x := range v {
			if !seen[x] {
				seen[x] = true
				out = append(out, x)
			}
		}
	}
	switch s.Kind {
	case "int", "uint", "decimal64":
		unit := big.NewRat(1, 1)
		fd := 0
		if s.Kind == "decimal64" {
			fd = s.Fd
			unit = new(big.Rat).SetFrac(big.NewInt(1), pow10(fd))
		}
		var bounds []*big.Rat
		lo, hi := s.TypeBounds()
		bounds = append(bounds, lo, hi, new(big.Rat))
		for _, r := range s.Ranges {
			bounds = append(bounds, s.bound(r[0]), s.bound(r[1]))
		}
		for _, b := range bounds {
			for _, d := range []int64{-2, -1, 0, 1, 2} {
				x := new(big.Rat).Add(b, new(big.Rat).Mul(unit, big.NewRat(d, 1)))
				c := x.FloatString(fd)
				add(c)
				if x.Sign() >= 0 {
					add("+"+c, "0"+c)
				}
				if fd > 0 {
					add(c+"0", strings.TrimRight(strings.TrimRight(c, "0"), "."))
				}
			}
		}
		add("", " ", "-", "+", "-0", "+0", "00", "1e3", "0x10", "1_0", " 5", "5 ", "5.", ".5", "-.5", "1.5", "1.50", "a", "--1", "9223372036854775807", "9223372036854775808", "-9223372036854775808", "-9223372036854775809",
			"18446744073709551615", "18446744073709551616", "99999999999999999999", "-99999999999999999999", "1.", "0.", "0.0", "-0.0", "Infinity", "NaN", "٣")
		// every string of <= 5 symbols over sign, digit, point and exponent characters (++5, +-5, 5+,
		// -.5, 0.5., 5e0, 5.0e5, .5e-5)
		var lex func(p string, n int)
		lex = func(p string, n int) {
			if p != "" {
				add(p)
			}
			if n == 5 {
				return
			}
			for _, a := range []string{"+", "-", "5", "0", ".", "e"} {
				lex(p+a, n+1)
			}
		}
		lex("", 0)
		if fd > 0 {
			add("0."+strings.Repeat("0", fd)+"1", "1."+strings.Repeat("9", fd), "1."+strings.Repeat("9", fd+1), "0."+strings.Repeat("0", fd-1)+"1")
		}
	case "string":
		alpha := []string{"a", "b", "c", "1", "é", "𝄞"}
		var rec func(p string, n int)
		rec = func(p string, n int) {
			add(p)
			if n == 4 {
				return
			}
			for _, a := range alpha {
				rec(p+a, n+1)
			}
		}
		rec("", 0)
		add("aaaaa", "éééé", "𝄞𝄞𝄞𝄞𝄞", "12345", "123456", "bc", "abc", "a\n", "\na", " a", "a ")
	case "boolean":
		add("true", "false", "True", "TRUE", "1", "0", "", "t", " true", "true ", "yes")
	case "empty":
		add("", " ", "x", "true")
	case "enumeration":
		add(s.Enums...)
		add("", "A", "a ", " a", "zzz", "0", "1", "a:b")
		for _, e := range s.Enums {
			add(strings.ToUpper(e), e+" ")
		}
	case "identityref":
		add(s.Idents...)
		add("", "root", "nosuch", "ROOT", "m:leaf1", "x:root", " root")
	case "union":
		for _, m := range s.Members {
			add(m.Probes()...)
		}
	}
	return out
}
