// Package patharg recognises the RFC 6020 section 12 "path-arg" language
// (the argument of a leafref path statement), written from the ABNF:
//
//	path-arg            = absolute-path / relative-path
//	absolute-path       = 1*("/" (node-identifier *path-predicate))
//	relative-path       = 1*(".." "/") descendant-path
//	descendant-path     = node-identifier [*path-predicate absolute-path]
//	path-predicate      = "[" *WSP path-equality-expr *WSP "]"
//	path-equality-expr  = node-identifier *WSP "=" *WSP path-key-expr
//	path-key-expr       = current-function-invocation *WSP "/" *WSP rel-path-keyexpr
//	rel-path-keyexpr    = 1*(".." *WSP "/" *WSP) *(node-identifier *WSP "/" *WSP) node-identifier
//	current-function-invocation = "current" *WSP "(" *WSP ")"
//	node-identifier     = [prefix ":"] identifier
//
// The property tolerates white space between any two tokens, so the
// recogniser skips it everywhere between tokens.  White space inside a
// node-identifier (around ':') is reported separately (unspecified).
package patharg

import "strings"

type Verdict int

const (
	Unspecified Verdict = iota
	MustAccept
	MustReject
)

func (v Verdict) String() string { return [...]string{"UNSPECIFIED", "MUST_ACCEPT", "MUST_REJECT"}[v] }

type p struct {
	s        string
	i        int
	wsInName bool
	laxName  bool
	prefixes map[string]bool
	unknownPrefix bool
}

func (x *p) ws() {
	for x.i < len(x.s) && (x.s[x.i] == ' ' || x.s[x.i] == '\t' || x.s[x.i] == '\n' || x.s[x.i] == '\r') {
		x.i++
	}
}

func (x *p) lit(t string) bool {
	x.ws()
	if strings.HasPrefix(x.s[x.i:], t) {
		x.i += len(t)
		return true
	}
	return false
}

func isAlpha(c byte) bool { return c >= 'a' && c <= 'z' || c >= 'A' && c <= 'Z' || c == '_' }
func isIdent(c byte) bool { return isAlpha(c) || c >= '0' && c <= '9' || c == '-' || c == '.' }

func (x *p) identifier() (string, bool) {
	x.ws()
	j := x.i
	if j >= len(x.s) || !isAlpha(x.s[j]) {
		return "", false
	}
	for j < len(x.s) && isIdent(x.s[j]) {
		j++
	}
	id := x.s[x.i:j]
	if len(id) >= 3 && strings.EqualFold(id[:3], "xml") {
		return "", false
	}
	x.i = j
	return id, true
}

func (x *p) nodeIdentifier() bool {
	id, ok := x.identifier()
	if !ok {
		return false
	}
	save := x.i
	// prefix ":" identifier, strictly without white space
	if x.i < len(x.s) && x.s[x.i] == ':' {
		x.i++
		if x.i < len(x.s) && isAlpha(x.s[x.i]) {
			if _, ok := x.identifier(); ok {
				if !x.prefixes[id] {
					x.unknownPrefix = true
				}
				return true
			}
		}
		x.i = save
		return x.laxTail(id, save)
	}
	if x.laxName {
		return x.laxTail(id, save)
	}
	return true
}

// laxTail accepts "prefix WSP* ':' WSP* identifier" when laxName is set.
func (x *p) laxTail(id string, save int) bool {
	if !x.laxName {
		x.i = save
		return true
	}
	x.i = save
	j := x.i
	x.ws()
	if x.i < len(x.s) && x.s[x.i] == ':' {
		x.i++
		if _, ok := x.identifier(); ok {
			x.wsInName = true
			if !x.prefixes[id] {
				x.unknownPrefix = true
			}
			return true
		}
	}
	x.i = j
	return true
}

func (x *p) predicate() bool {
	if !x.lit("[") {
		return false
	}
	if !x.nodeIdentifier() || !x.lit("=") {
		return false
	}
	if !x.lit("current") {
		return false
	}
	// "current" must be a whole word
	if x.i < len(x.s) && isIdent(x.s[x.i]) {
		return false
	}
	if !x.lit("(") || !x.lit(")") || !x.lit("/") {
		return false
	}
	ups := 0
	for x.lit("..") {
		if !x.lit("/") {
			return false
		}
		ups++
	}
	if ups == 0 {
		return false
	}
	if !x.nodeIdentifier() {
		return false
	}
	for x.lit("/") {
		if !x.nodeIdentifier() {
			return false
		}
	}
	return x.lit("]")
}

func (x *p) absolute() bool {
	n := 0
	for x.lit("/") {
		if !x.nodeIdentifier() {
			return false
		}
		for {
			save := x.i
			x.ws()
			if x.i < len(x.s) && x.s[x.i] == '[' {
				x.i = save
				if !x.predicate() {
					return false
				}
				continue
			}
			x.i = save
			break
		}
		n++
	}
	return n > 0
}

func (x *p) pathArg() bool {
	x.ws()
	if x.i < len(x.s) && x.s[x.i] == '/' {
		return x.absolute() && x.end()
	}
	ups := 0
	for x.lit("..") {
		if !x.lit("/") {
			return false
		}
		ups++
	}
	if ups == 0 || !x.nodeIdentifier() {
		return false
	}
	// [*path-predicate absolute-path]
	hasPred := false
	for {
		save := x.i
		x.ws()
		if x.i < len(x.s) && x.s[x.i] == '[' {
			x.i = save
			if !x.predicate() {
				return false
			}
			hasPred = true
			continue
		}
		x.i = save
		break
	}
	save := x.i
	x.ws()
	if x.i < len(x.s) && x.s[x.i] == '/' {
		x.i = save
		return x.absolute() && x.end()
	}
	x.i = save
	if hasPred {
		return false
	}
	return x.end()
}

func (x *p) end() bool { x.ws(); return x.i == len(x.s) }

// Classify decides membership of s in path-arg (white space between tokens
// tolerated).  Strings that are in the language only when white space is also
// tolerated inside a node-identifier, and strings using a prefix outside
// prefixes, are UNSPECIFIED.
func Classify(s string, prefixes map[string]bool) (Verdict, string) {
	strict := &p{s: s, prefixes: prefixes}
	if strict.pathArg() {
		if strict.unknownPrefix {
			return Unspecified, "unknown prefix"
		}
		return MustAccept, ""
	}
	lax := &p{s: s, prefixes: prefixes, laxName: true}
	if lax.pathArg() {
		return Unspecified, "white space inside a node-identifier"
	}
	return MustReject, "not derivable from path-arg"
}
