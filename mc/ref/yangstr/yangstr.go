// Package yangstr decodes YANG string arguments as RFC 6020 section 6.1.3
// prescribes.  Written from the RFC text.
package yangstr

import "strings"

// DecodeDouble returns the value of a double-quoted string whose raw content
// (the text between the quotes) is raw and whose opening quote stands in
// column quoteCol (0-based; a tab in front of it counts as 8 columns).
//
//   - leading white space of every continuation line is stripped "up to and
//     including the column of the double quote character, or to the first
//     non-whitespace character, whichever occurs first", a tab counting as 8
//   - space and tab characters before a line break are stripped
//   - then \n \t \" \\ are substituted
//
// ok is false when the RFC does not settle the result: a tab that straddles
// the strip column, or a backslash followed by any other character.
func DecodeDouble(raw string, quoteCol int) (val string, ok bool) {
	strip := quoteCol + 1
	lines := strings.Split(raw, "\n")
	ok = true
	for i := range lines {
		l := lines[i]
		cr := ""
		if i < len(lines)-1 && strings.HasSuffix(l, "\r") {
			cr, l = "\r", l[:len(l)-1]
		}
		if i > 0 {
			w, j := 0, 0
			for j < len(l) && w < strip {
				if l[j] == ' ' {
					w++
				} else if l[j] == '\t' {
					if w+8 > strip {
						ok = false // a tab straddles the column of the quote
					}
					w += 8
				} else {
					break
				}
				j++
			}
			l = l[j:]
		}
		if i < len(lines)-1 {
			l = strings.TrimRight(l, " \t")
		}
		lines[i] = l + cr
	}
	s := strings.Join(lines, "\n")
	var b strings.Builder
	for i := 0; i < len(s); i++ {
		if s[i] != '\\' {
			b.WriteByte(s[i])
			continue
		}
		if i+1 >= len(s) {
			return "", false
		}
		i++
		switch s[i] {
		case 'n':
			b.WriteByte('\n')
		case 't':
			b.WriteByte('\t')
		case '"':
			b.WriteByte('"')
		case '\\':
			b.WriteByte('\\')
		default:
			return "", false
		}
	}
	return b.String(), ok
}

// Width is the display width of leading text with a tab counting as 8.
func Width(s string) int {
	w := 0
	for _, c := range s {
		if c == '\t' {
			w += 8
		} else {
			w++
		}
	}
	return w
}
