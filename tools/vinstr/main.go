// vinstr rewrites the current /repo working tree into an instrumented copy that
// is handed to the Go compiler with -overlay.  /repo itself is never touched.
//
//	vinstr -repo /repo -out DIR -rt /verif/rt -goyacc /verif/bin/goyacc
//
// DIR/overlay.json is the overlay; DIR/sites.json lists map-range sites and
// instrumented package variables.  Any construct that cannot be rewritten
// makes vinstr exit 2 with file:line.
package main

import (
	"bytes"
	"encoding/json"
	"flag"
	"fmt"
	"go/ast"
	"go/format"
	"go/token"
	"go/types"
	"os"
	"os/exec"
	"path/filepath"
	"sort"
	"strconv"
	"strings"

	"golang.org/x/tools/go/ast/astutil"
	"golang.org/x/tools/go/packages"
)

const (
	rtPath    = "github.com/sdcio/yang-parser/verifrt"
	vsyncPath = "github.com/sdcio/yang-parser/verifrt/vsync"
	modPath   = "github.com/sdcio/yang-parser"
)

func die(format string, a ...any) {
	fmt.Fprintf(os.Stderr, "vinstr: "+format+"\n", a...)
	os.Exit(2)
}

type site struct {
	ID   int    `json:"id"`
	Pos  string `json:"pos"`
	Kind string `json:"kind"`
}

var (
	fset     *token.FileSet
	sites    []site
	mutable  = map[*types.Var]bool{}
	varNames = map[*types.Var]string{}
)

func main() {
	repo := flag.String("repo", "/repo", "")
	out := flag.String("out", "", "")
	rt := flag.String("rt", "/verif/rt", "")
	goyacc := flag.String("goyacc", "/verif/bin/goyacc", "")
	flag.Parse()
	if *out == "" {
		die("-out required")
	}
	overlay := map[string]string{}
	cfgOverlay := map[string][]byte{}

	// 1. leafref.go (goyacc output is not committed at the pin)
	lrDir := filepath.Join(*repo, "xpath/grammars/leafref")
	lrGo := filepath.Join(lrDir, "leafref.go")
	if _, err := os.Stat(lrGo); err != nil {
		gen := filepath.Join(*out, "gen_leafref.go")
		cmd := exec.Command(*goyacc, "-o", gen, "-v", filepath.Join(*out, "y.output"), "-p", "leafref", filepath.Join(lrDir, "leafref.y"))
		cmd.Dir = *out
		if b, err := cmd.CombinedOutput(); err != nil {
			die("goyacc failed: %v\n%s", err, b)
		}
		src, err := os.ReadFile(gen)
		if err != nil {
			die("%v", err)
		}
		// goyacc writes //line directives pointing at leafref.y; keep them
		cfgOverlay[lrGo] = src
		overlay[lrGo] = gen
	}

	// 2. runtime packages as virtual packages inside the module
	rtFiles := map[string]string{
		filepath.Join(*repo, "verifrt/rt.go"):          filepath.Join(*rt, "rt.go"),
		filepath.Join(*repo, "verifrt/vsync/vsync.go"): filepath.Join(*rt, "vsync/vsync.go"),
	}
	for k, v := range rtFiles {
		overlay[k] = v
		b, err := os.ReadFile(v)
		if err != nil {
			die("%v", err)
		}
		cfgOverlay[k] = b
	}

	fset = token.NewFileSet()
	cfg := &packages.Config{
		Mode: packages.NeedName | packages.NeedFiles | packages.NeedCompiledGoFiles | packages.NeedSyntax |
			packages.NeedTypes | packages.NeedTypesInfo | packages.NeedImports | packages.NeedDeps,
		Dir:     *repo,
		Fset:    fset,
		Overlay: cfgOverlay,
		Tests:   false,
	}
	pkgs, err := packages.Load(cfg, "./...")
	if err != nil {
		die("load: %v", err)
	}
	var targets []*packages.Package
	for _, p := range pkgs {
		if strings.HasPrefix(p.PkgPath, rtPath) {
			continue
		}
		if len(p.Errors) > 0 {
			for _, e := range p.Errors {
				fmt.Fprintf(os.Stderr, "vinstr: %s: %v\n", p.PkgPath, e)
			}
			die("package %s has errors", p.PkgPath)
		}
		targets = append(targets, p)
	}
	sort.Slice(targets, func(i, j int) bool { return targets[i].PkgPath < targets[j].PkgPath })

	// pass 1: which package-level variables are mutable
	for _, p := range targets {
		findMutable(p)
	}
	// pass 2: rewrite
	for _, p := range targets {
		var stateVars []*types.Var
		for v := range mutable {
			if v.Pkg() == p.Types {
				stateVars = append(stateVars, v)
			}
		}
		sort.Slice(stateVars, func(i, j int) bool { return stateVars[i].Name() < stateVars[j].Name() })
		for i, f := range p.Syntax {
			fn := p.CompiledGoFiles[i]
			if !strings.HasPrefix(fn, *repo+"/") {
				continue
			}
			rewriteFile(p, f)
			var buf bytes.Buffer
			f.Comments = nil
			if err := format.Node(&buf, fset, f); err != nil {
				die("print %s: %v", fn, err)
			}
			rel := strings.TrimPrefix(fn, *repo+"/")
			dst := filepath.Join(*out, "src", rel)
			os.MkdirAll(filepath.Dir(dst), 0o755)
			if err := os.WriteFile(dst, buf.Bytes(), 0o644); err != nil {
				die("%v", err)
			}
			overlay[fn] = dst
		}
		if len(stateVars) > 0 && len(p.CompiledGoFiles) > 0 {
			var b bytes.Buffer
			fmt.Fprintf(&b, "package %s\n\nimport verifrt %q\n\nfunc init() {\n", p.Name, rtPath)
			for _, v := range stateVars {
				fmt.Fprintf(&b, "\tverifrt.RegisterVar(%q, verifrt.MakeSaver(&%s))\n", varNames[v], v.Name())
			}
			fmt.Fprintf(&b, "}\n")
			dir := filepath.Dir(p.CompiledGoFiles[0])
			rel := strings.TrimPrefix(dir, *repo+"/")
			dst := filepath.Join(*out, "src", rel, "zz_verif_state.go")
			os.MkdirAll(filepath.Dir(dst), 0o755)
			os.WriteFile(dst, b.Bytes(), 0o644)
			overlay[filepath.Join(dir, "zz_verif_state.go")] = dst
		}
	}

	ov, _ := json.MarshalIndent(map[string]any{"Replace": overlay}, "", " ")
	if err := os.WriteFile(filepath.Join(*out, "overlay.json"), ov, 0o644); err != nil {
		die("%v", err)
	}
	var vars []string
	for _, n := range varNames {
		vars = append(vars, n)
	}
	sort.Strings(vars)
	sj, _ := json.MarshalIndent(map[string]any{"sites": sites, "mutable_vars": vars}, "", " ")
	os.WriteFile(filepath.Join(*out, "sites.json"), sj, 0o644)
	fmt.Printf("vinstr: %d packages, %d map-range/chan sites, %d mutable package variables\n", len(targets), len(sites), len(vars))
}

func isSyncType(t types.Type) bool {
	if p, ok := t.(*types.Pointer); ok {
		t = p.Elem()
	}
	if n, ok := t.(*types.Named); ok && n.Obj().Pkg() != nil {
		pp := n.Obj().Pkg().Path()
		return pp == "sync" || pp == "sync/atomic" || pp == vsyncPath
	}
	return false
}

func pkgVar(p *packages.Package, id *ast.Ident) *types.Var {
	obj := p.TypesInfo.Uses[id]
	v, ok := obj.(*types.Var)
	if !ok || v.Pkg() == nil || v.IsField() {
		return nil
	}
	if v.Parent() != v.Pkg().Scope() {
		return nil
	}
	if !strings.HasPrefix(v.Pkg().Path(), modPath) || strings.HasPrefix(v.Pkg().Path(), rtPath) {
		return nil
	}
	if isSyncType(v.Type()) {
		return nil
	}
	return v
}

// rootIdent returns the identifier at the root of an addressable expression
// (x, x.f, x[i], *x is not followed), plus the selector when the root is pkg.X.
func rootIdent(p *packages.Package, e ast.Expr) *ast.Ident {
	for {
		switch x := e.(type) {
		case *ast.Ident:
			return x
		case *ast.ParenExpr:
			e = x.X
		case *ast.SelectorExpr:
			// pkg.X ?
			if id, ok := x.X.(*ast.Ident); ok {
				if _, isPkg := p.TypesInfo.Uses[id].(*types.PkgName); isPkg {
					return x.Sel
				}
			}
			// do not look through pointer indirection: x.f where x is a pointer
			// mutates *x, not the variable x
			if tv, ok := p.TypesInfo.Types[x.X]; ok {
				if _, isPtr := tv.Type.Underlying().(*types.Pointer); isPtr {
					return nil
				}
			}
			e = x.X
		case *ast.IndexExpr:
			if tv, ok := p.TypesInfo.Types[x.X]; ok {
				switch tv.Type.Underlying().(type) {
				case *types.Slice, *types.Pointer:
					// element write through a slice header does not write the variable;
					// it is still a write to shared memory reachable from it
				}
			}
			e = x.X
		default:
			return nil
		}
	}
}

var writeRoots = map[*ast.Ident]bool{}

func markWrite(p *packages.Package, e ast.Expr, inInit bool) {
	id := rootIdent(p, e)
	if id == nil {
		return
	}
	writeRoots[id] = true
	if v := pkgVar(p, id); v != nil && !inInit {
		if !mutable[v] {
			mutable[v] = true
			varNames[v] = v.Pkg().Name() + "." + v.Name()
		}
	}
}

func findMutable(p *packages.Package) {
	for _, f := range p.Syntax {
		for _, d := range f.Decls {
			fd, ok := d.(*ast.FuncDecl)
			if !ok || fd.Body == nil {
				continue
			}
			inInit := fd.Recv == nil && fd.Name.Name == "init"
			ast.Inspect(fd.Body, func(n ast.Node) bool {
				switch x := n.(type) {
				case *ast.AssignStmt:
					if x.Tok != token.DEFINE {
						for _, l := range x.Lhs {
							markWrite(p, l, inInit)
						}
					}
				case *ast.IncDecStmt:
					markWrite(p, x.X, inInit)
				case *ast.UnaryExpr:
					if x.Op == token.AND {
						markWrite(p, x.X, inInit)
					}
				case *ast.RangeStmt:
					if x.Tok == token.ASSIGN {
						if x.Key != nil {
							markWrite(p, x.Key, inInit)
						}
						if x.Value != nil {
							markWrite(p, x.Value, inInit)
						}
					}
				case *ast.CallExpr:
					if id, ok := x.Fun.(*ast.Ident); ok {
						if _, isB := p.TypesInfo.Uses[id].(*types.Builtin); isB && (id.Name == "delete" || id.Name == "clear") && len(x.Args) > 0 {
							markWrite(p, x.Args[0], inInit)
						}
					}
					// method call with pointer receiver on an addressable variable
					if sel, ok := x.Fun.(*ast.SelectorExpr); ok {
						if s := p.TypesInfo.Selections[sel]; s != nil && s.Kind() == types.MethodVal {
							if fn, ok := s.Obj().(*types.Func); ok {
								sig := fn.Type().(*types.Signature)
								if sig.Recv() != nil {
									if _, ptrRecv := sig.Recv().Type().(*types.Pointer); ptrRecv {
										if tv, ok := p.TypesInfo.Types[sel.X]; ok {
											if _, isPtr := tv.Type.Underlying().(*types.Pointer); !isPtr {
												markWrite(p, sel.X, inInit)
											}
										}
									}
								}
							}
						}
					}
				}
				return true
			})
		}
	}
}

func rtSel(name string) ast.Expr {
	return &ast.SelectorExpr{X: ast.NewIdent("verifrt"), Sel: ast.NewIdent(name)}
}

func tickStmt() ast.Stmt {
	return &ast.ExprStmt{X: &ast.CallExpr{Fun: rtSel("Tick")}}
}

func posStr(n ast.Node) string {
	p := fset.Position(n.Pos())
	return fmt.Sprintf("%s:%d", p.Filename, p.Line)
}

func newSite(n ast.Node, kind string) int {
	id := len(sites) + 1
	sites = append(sites, site{ID: id, Pos: posStr(n), Kind: kind})
	return id
}

// rewriteSelects turns every select statement into a switch over the result of
// verifrt.Select (post-order, so nested selects are handled first).  The
// communication clauses lose their channel operators here; the bodies are
// instrumented afterwards by the main pass like any other code.
func rewriteSelects(f *ast.File) {
	astutil.Apply(f, nil, func(c *astutil.Cursor) bool {
		sel, ok := c.Node().(*ast.SelectStmt)
		if !ok {
			return true
		}
		newSite(sel, "select")
		res := ast.NewIdent("verifSel")
		var args []ast.Expr
		hasDefault := "false"
		var clauses []ast.Stmt
		idx := 0
		for _, st := range sel.Body.List {
			cc := st.(*ast.CommClause)
			if cc.Comm == nil {
				hasDefault = "true"
				clauses = append(clauses, &ast.CaseClause{Body: cc.Body})
				continue
			}
			body := cc.Body
			recvOf := func(e ast.Expr) ast.Expr {
				for {
					if p, ok := e.(*ast.ParenExpr); ok {
						e = p.X
						continue
					}
					break
				}
				u, ok := e.(*ast.UnaryExpr)
				if !ok || u.Op != token.ARROW {
					die("%s: unsupported communication clause", posStr(cc))
				}
				return u.X
			}
			switch x := cc.Comm.(type) {
			case *ast.SendStmt:
				args = append(args, &ast.CallExpr{Fun: rtSel("SendCase"), Args: []ast.Expr{x.Chan, x.Value}})
			case *ast.ExprStmt:
				args = append(args, &ast.CallExpr{Fun: rtSel("RecvCase"), Args: []ast.Expr{recvOf(x.X)}})
			case *ast.AssignStmt:
				ch := recvOf(x.Rhs[0])
				args = append(args, &ast.CallExpr{Fun: rtSel("RecvCase"), Args: []ast.Expr{ch}})
				fn := "RecvVal"
				if len(x.Lhs) == 2 {
					fn = "RecvVal2"
				}
				as := &ast.AssignStmt{Lhs: x.Lhs, Tok: x.Tok, Rhs: []ast.Expr{&ast.CallExpr{Fun: rtSel(fn), Args: []ast.Expr{ch, res}}}}
				body = append([]ast.Stmt{as}, body...)
				if x.Tok == token.DEFINE {
					// the variables may be unused in the body
					for _, l := range x.Lhs {
						if id, ok := l.(*ast.Ident); ok && id.Name != "_" {
							body = append(body[:1:1], append([]ast.Stmt{&ast.AssignStmt{Lhs: []ast.Expr{ast.NewIdent("_")}, Tok: token.ASSIGN, Rhs: []ast.Expr{ast.NewIdent(id.Name)}}}, body[1:]...)...)
						}
					}
				}
			default:
				die("%s: unsupported communication clause", posStr(cc))
			}
			clauses = append(clauses, &ast.CaseClause{List: []ast.Expr{&ast.BasicLit{Kind: token.INT, Value: strconv.Itoa(idx)}}, Body: body})
			idx++
		}
		call := &ast.CallExpr{Fun: rtSel("Select"), Args: append([]ast.Expr{ast.NewIdent(hasDefault)}, args...)}
		c.Replace(&ast.SwitchStmt{
			Init: &ast.AssignStmt{Lhs: []ast.Expr{res}, Tok: token.DEFINE, Rhs: []ast.Expr{call}},
			Tag:  &ast.SelectorExpr{X: ast.NewIdent("verifSel"), Sel: ast.NewIdent("I")},
			Body: &ast.BlockStmt{List: clauses},
		})
		return true
	})
}

func rewriteFile(p *packages.Package, f *ast.File) {
	info := p.TypesInfo
	rewriteSelects(f)
	// the value spec / assign statements whose single RHS is <-ch with two LHS
	recv2 := map[*ast.UnaryExpr]bool{}
	ast.Inspect(f, func(n ast.Node) bool {
		switch x := n.(type) {
		case *ast.AssignStmt:
			if len(x.Lhs) == 2 && len(x.Rhs) == 1 {
				if u, ok := x.Rhs[0].(*ast.UnaryExpr); ok && u.Op == token.ARROW {
					recv2[u] = true
				}
			}
		case *ast.ValueSpec:
			if len(x.Names) == 2 && len(x.Values) == 1 {
				if u, ok := x.Values[0].(*ast.UnaryExpr); ok && u.Op == token.ARROW {
					recv2[u] = true
				}
			}
		}
		return true
	})

	inGlobalDecl := false
	astutil.Apply(f, func(c *astutil.Cursor) bool {
		switch x := c.Node().(type) {
		case *ast.GenDecl:
			if _, isFile := c.Parent().(*ast.File); isFile && x.Tok == token.VAR {
				inGlobalDecl = true
			}
		case *ast.ImportSpec:
			if x.Path.Value == `"sync"` {
				x.Path.Value = strconv.Quote(vsyncPath)
				if x.Name == nil {
					x.Name = ast.NewIdent("sync")
				}
			}
		}
		return true
	}, func(c *astutil.Cursor) bool {
		switch x := c.Node().(type) {
		case *ast.GenDecl:
			if _, isFile := c.Parent().(*ast.File); isFile && x.Tok == token.VAR {
				inGlobalDecl = false
			}
		case *ast.FuncDecl:
			if x.Body != nil {
				x.Body.List = append([]ast.Stmt{tickStmt()}, x.Body.List...)
			}
		case *ast.FuncLit:
			x.Body.List = append([]ast.Stmt{tickStmt()}, x.Body.List...)
		case *ast.ForStmt:
			x.Body.List = append([]ast.Stmt{tickStmt()}, x.Body.List...)
		case *ast.RangeStmt:
			x.Body.List = append([]ast.Stmt{tickStmt()}, x.Body.List...)
			if tv, ok := info.Types[x.X]; ok {
				switch tv.Type.Underlying().(type) {
				case *types.Map:
					id := newSite(x, "maprange")
					x.X = &ast.CallExpr{Fun: rtSel("RangeMap"), Args: []ast.Expr{
						&ast.BasicLit{Kind: token.INT, Value: strconv.Itoa(id)}, x.X}}
				case *types.Chan:
					newSite(x, "chanrange")
					x.X = &ast.CallExpr{Fun: rtSel("RangeChan"), Args: []ast.Expr{x.X}}
				}
			}
		case *ast.GoStmt:
			// evaluate arguments now, run the call in a scheduler-controlled thread
			var pre []ast.Stmt
			call := x.Call
			for i, a := range call.Args {
				if _, isLit := a.(*ast.BasicLit); isLit {
					continue
				}
				tmp := ast.NewIdent(fmt.Sprintf("verifArg%d", i))
				pre = append(pre, &ast.AssignStmt{Lhs: []ast.Expr{tmp}, Tok: token.DEFINE, Rhs: []ast.Expr{a}})
				call.Args[i] = tmp
			}
			goCall := &ast.ExprStmt{X: &ast.CallExpr{Fun: rtSel("Go"), Args: []ast.Expr{
				&ast.FuncLit{Type: &ast.FuncType{Params: &ast.FieldList{}}, Body: &ast.BlockStmt{List: []ast.Stmt{&ast.ExprStmt{X: call}}}}}}}
			c.Replace(&ast.BlockStmt{List: append(pre, goCall)})
		case *ast.SendStmt:
			c.Replace(&ast.ExprStmt{X: &ast.CallExpr{Fun: rtSel("Send"), Args: []ast.Expr{x.Chan, x.Value}}})
		case *ast.UnaryExpr:
			if x.Op == token.ARROW {
				fn := "Recv"
				if recv2[x] {
					fn = "Recv2"
				}
				c.Replace(&ast.CallExpr{Fun: rtSel(fn), Args: []ast.Expr{x.X}})
			}
		case *ast.CallExpr:
			if id, ok := x.Fun.(*ast.Ident); ok && id.Name == "close" {
				if _, isB := info.Uses[id].(*types.Builtin); isB {
					x.Fun = rtSel("Close")
				}
			}
		case *ast.SelectorExpr:
			// pkg.X where X is a mutable variable of another instrumented package
			if id, ok := x.X.(*ast.Ident); ok {
				if _, isPkg := info.Uses[id].(*types.PkgName); isPkg {
					if v := pkgVar(p, x.Sel); v != nil && mutable[v] && !inGlobalDecl {
						c.Replace(pcall(v, x, writeRoots[x.Sel]))
					}
				}
			}
		case *ast.Ident:
			if inGlobalDecl {
				return true
			}
			// skip the Sel of a selector (handled above) and declaration names
			if sel, ok := c.Parent().(*ast.SelectorExpr); ok && sel.Sel == x {
				return true
			}
			if kv, ok := c.Parent().(*ast.KeyValueExpr); ok && kv.Key == x {
				if _, isVar := info.Uses[x].(*types.Var); !isVar {
					return true
				}
			}
			if v := pkgVar(p, x); v != nil && mutable[v] {
				c.Replace(pcall(v, x, writeRoots[x]))
			}
		}
		return true
	})
	astutil.AddNamedImport(fset, f, "verifrt", rtPath)
	// a file that ends up not using verifrt would not compile
	used := false
	ast.Inspect(f, func(n ast.Node) bool {
		if s, ok := n.(*ast.SelectorExpr); ok {
			if id, ok := s.X.(*ast.Ident); ok && id.Name == "verifrt" {
				used = true
			}
		}
		return !used
	})
	if !used {
		astutil.DeleteNamedImport(fset, f, "verifrt", rtPath)
	}
}

func pcall(v *types.Var, ref ast.Expr, write bool) ast.Expr {
	w := "false"
	if write {
		w = "true"
	}
	return &ast.ParenExpr{X: &ast.StarExpr{X: &ast.CallExpr{Fun: rtSel("P"), Args: []ast.Expr{
		&ast.BasicLit{Kind: token.STRING, Value: strconv.Quote(varNames[v])},
		&ast.UnaryExpr{Op: token.AND, X: ref},
		ast.NewIdent(w),
	}}}}
}
