#!/usr/bin/env python3
"""Generates MANIFEST.json from the table below (kept in one place so that it is always valid)."""
import json, os, subprocess
CHECKS = {
 "C07": dict(text="Every text of <=5 (quick) / <=6-7 (thorough) symbols over a 15-symbol alphabet and every byte prefix and single-byte deletion of a corpus is parsed by the real parse.Parse under a cooperative scheduler and a step horizon: termination, no panic, error xor tree, position inside the input, and no goroutine left blocked or runnable are checked on every one of them.",
             note="Trusted: the instrumenter's rewrite of go/send/recv/close, the channel model of verifrt (follows cap(ch)), the step horizon as termination oracle. Inputs outside the alphabet/bound are not covered.",
             technique="bounded exhaustive input enumeration on the real parser under a controlled scheduler (explicit-state, stateless)", ref="DESIGN.md §4 C07"),
}
CHECKS["C01"]=dict(text="Every expression tree up to depth 2 (quick) / 3 (thorough) over the full operator and scalar-function table and a leaf alphabet that contains every special value class (NaN, +-Inf, -0, >=1e21, <1e-6, >2^53, empty/blank/non-ASCII/number-like strings, absent nodes, leaf-lists) is compiled and run by the real engine on a typed mock data tree and compared, native type and all three result accessors, with an XPath 1.0 reference evaluator written from the REC. Inner operands are class representatives on which the implementation is already known to agree, so each disagreement is attributed to the outermost application.",
  note="Trusted: the reference evaluator (ref/xp10), the value-class quotient used above depth 1, the mock data tree's typing of leaf values. Values outside the leaf alphabet are not covered.",
  technique="bounded exhaustive enumeration of expression trees against a reference model (explicit-state, level-by-level with class-representative quotient)", ref="DESIGN.md §4 C01")
CHECKS["C04"]=dict(text="Every token sequence up to the bound over a 61-token (expr) / 19-token (leafref) alphabet in two renderings, and every single-token mutation of a corpus and of all bounded path-arg derivations, is given to the real compilers and to a three-valued reference (XPath 1.0 tokenizer/parser + core-subset classifier; RFC 6020 path-arg recogniser); accept/reject verdicts must agree wherever the reference is not UNSPECIFIED.",
  note="Trusted: the reference recognisers; UNSPECIFIED region (valid XPath 1.0 outside the core subset) is skipped and counted. Prefix map knows only 'p'.",
  technique="bounded exhaustive enumeration of token sequences against reference recognisers", ref="DESIGN.md §4 C04")
CHECKS["C05"]=dict(text="Every byte string up to length 4 (quick) / 5-6 (thorough) over a 25-byte alphabet and every prefix / single-byte substitution of a corpus is given to all three machine constructors under a step horizon; every machine obtained is run; for every corpus expression every position (and pair of positions) at which a data-tree callback can fail is enumerated with unique injected errors. Checked: termination, no panic, machine xor error, error quotes the expression with a marker inside it, value xor error, the first injected error is the one reported by GetError and every accessor.",
  note="Trusted: step horizon as termination oracle; the mock xpath.Entry. Schema-side NewCtxFromMach contexts are not driven.",
  technique="bounded exhaustive input enumeration + exhaustive fault-position enumeration on the real code", ref="DESIGN.md §4 C05")
CHECKS["C02"]=dict(text="Every location path of the bounded grammar (4-8 root kinds incl. current()/deref(), <=2-3 steps, <=1-2 predicates per step in both orders, 7 operand kinds, prefixed steps and keys) in 5 embeddings and at 4 context nodes is compiled and run by the real engine on a recording virtual data tree; a reference designator computed from the XPath AST gives the expected sequence of data-tree requests (root flag, designated node incl. keys, FollowLeafRef sources, GetValue targets) and the expected value, all of which must match.",
  note="Trusted: the reference designator and the virtual tree (identity = normalised absolute path; leafref target of X is /d+X). Root flag is not compared for deref()-rooted paths and '..'-rooted predicate operands.",
  technique="bounded exhaustive enumeration of path ASTs on the real engine against a reference designator (recording mock)", ref="DESIGN.md §4 C02")
CHECKS["C03"]=dict(text="Every operator chain of 3 (6 operand kinds), 4 and 5 (numeric) operands over all 13 binary operators with every unary-minus placement, also nested in function arguments, is compared with its fully parenthesised form produced by a reference XPath 1.0 parser: same PrintMachine() listing, same result, result equal to the reference value. Every whitespace variant (removed / blank / tab+newline / CR at each token boundary, all at once, pairs in thorough) of all 3-chains and of path/function expressions must compile to the same program and result wherever the reference tokenizer sees the same tokens.",
  note="Trusted: the reference parser and tokenizer (ref/xp10); PrintMachine() as program identity.",
  technique="bounded exhaustive enumeration of operator chains and whitespace placements, differential against the parenthesised form plus reference value", ref="DESIGN.md §4 C03")
CHECKS["C06"]=dict(text="All schedules within preemption bound 2 (quick) / 3 (thorough) of every 3-thread scenario built from 10 thread programs (compile / run a shared machine / run with a failing tree) are executed on the real code under a cooperative scheduler whose visible operations are the mutex operations and every access to a mutable package-level variable (found by the instrumenter); shared-machine scenarios are additionally explored at tick (instruction) granularity. Per execution: every thread's observations equal its isolated run, no vector-clock race, no deadlock, no panic. All operation histories up to length 4/5 are executed without resets and every machine must keep its isolated result and listing.",
  note="Trusted: the instrumenter's notion of mutable package variable, sequentially consistent hand-offs. Heap-level races are only seen through results at tick granularity or by the free-running -race pass of the thorough tier (supporting evidence).",
  technique="stateless preemption-bounded schedule exploration (controlled scheduler, vector clocks) + exhaustive operation-history enumeration", ref="DESIGN.md §4 C06", engine="E3")
CHECKS["C08"]=dict(text="Every combination of content piece, quoting form (unquoted, single, double, '+' concatenations of up to 3 pieces with comments and line breaks between them) and layout (6 statement indents, 3 keywords, 11 continuation indents around the quote column incl. tabs, 4 trailing-blank patterns, LF/CRLF, blank and empty last lines, the same text occurring earlier in the file) is parsed by the real parser and the reported argument compared with a decoder written from RFC 6020 6.1.3 applied to the generator's own structure.",
  note="Trusted: the reference decoder (ref/yangstr). Cases RFC 6020 leaves open (tab straddling the quote column, escapes adjacent to stripped white space, other backslash sequences) are not generated.",
  technique="bounded exhaustive enumeration of (content x quoting x layout) against a reference decoder", ref="DESIGN.md §4 C08")
CHECKS["C09"]=dict(text="All (parent, child, count 0/1/2) triples over every RFC 6020 keyword plus a prefixed extension and an unknown word, all permutations and subsets of module/submodule sections, all pairs/triples of revision dates, and per argument kind an alphabet of valid, boundary and near-miss strings are parsed by the real parser; the verdict must equal the RFC 6020 section 7 substatement tables and section 12 ABNF recognisers transcribed in ref/rfc6020, and every rejection must carry name:line:col and name the offending statement.",
  note="Trusted: the transcribed tables and recognisers. refine/deviate parents, uses->refine/augment x2, list->key x0, semantic date/range validity, nested keys and edge white space are UNSPECIFIED.",
  technique="exhaustive enumeration of table cells, section orders and argument alphabets against transcribed RFC tables", ref="DESIGN.md §4 C09")
CHECKS["C10"]=dict(text="Statement trees from a 10-item menu (<=2-3 body statements, containers nested to depth 3) are rendered from token lists with the generator recording keyword, decoded argument, nesting and keyword line/column; every token boundary x 8 trivia variants (nothing, blank, tab, LF, CRLF, block comment, line comment, blank lines), leading/trailing trivia and every re-quoting of every argument (unquoted, single, double, '+' split at every position) is parsed and the walk of the returned tree must equal the expectation exactly, positions included.",
  note="Trusted: the generator's position bookkeeping. The shorthand-case expansion the parser performs (RFC 6020 7.9.2) is part of the expected tree.",
  technique="bounded exhaustive enumeration of trivia placements and quotings, exact tree comparison", ref="DESIGN.md §4 C10")
CHECKS["C11"]=dict(text="55 (quick) / several hundred (thorough) module sets covering every cycle shape (self, 2-cycle, 3-cycle, chain, cross-module, dangling) of imports, includes, typedefs, groupings, identities and features plus structural sets are compiled by the real compiler under a step horizon (schema xor error, cycles and dangling references must be errors), and for every set every instrumented map iteration of parse/compile/schema is an owned choice point: every single deviation (two in thorough) from canonical order is executed and verdict and complete canonical dump must equal the canonical-order run.",
  note="Trusted: the instrumenter finds every range-over-map in /repo (type information from go/packages); map iteration inside third-party packages is not owned. Error texts are not compared between orders.",
  technique="bounded exhaustive enumeration of module sets x deviation-bounded exploration of owned map-iteration orders on the real compiler", ref="DESIGN.md §4 C11", engine="E2")
CHECKS["C12"]=dict(text="Every structure of the bounded generator (8 grouping bodies, nesting, 3 definition sites, 6 use sites, 14 modifications one at a time / in pairs, top-level augments own and cross-module, clashes) is rendered with uses/refine/augment and inlined by the generator from the same abstract structure; both texts are compiled by the real compiler and their canonical dumps must be equal (cross-module augments after substituting module and namespace; run-as-parent of augment-when checked separately); clashes and combinations that are invalid inline must be rejected.",
  note="Trusted: the generator's inlining transformation and the canonical dump. The Space label of type names and the run-as-parent flag of uses-when are excluded from the comparison (see DESIGN.md).",
  technique="bounded exhaustive enumeration of grouping/augment structures with a differential (self-comparison) oracle", ref="DESIGN.md §4 C12")
CHECKS["C13"]=dict(text="Every typedef chain of the bounded generator (8 base types, 2-3 typedef levels + leaf, an 11-14 entry restriction lattice per level incl. unordered, overlapping, touching, out-of-base and inapplicable restrictions, 6 default placements) is compiled by the real compiler; a math/big reference decides validity per level (subset with integer-adjacency merging), the effective value space and the effective default; verdict, Type.Validate on every boundary +-1 unit of every level and Default() must match.",
  note="Trusted: the reference (harness/c13). Probes with >= 16 significant digits on decimal64 are left to C16's known finding.",
  technique="bounded exhaustive enumeration of typedef chains against an exact reference model", ref="DESIGN.md §4 C13")
CHECKS["C14"]=dict(text="All 81 config placements on 3 skeletons, all 256 status placements plus every same-module and cross-module reference pair of statuses for typedef/grouping/feature/identity, 3 feature-dependency shapes x 64 if-feature placements x all 8 enabled-feature sets, and a table of 53-56 deviations (every deviate kind x property x target kind, valid and RFC-forbidden) are compiled by the real compiler; verdicts and effective config/status/presence are compared with reference rules, deviations with the dump of the hand-edited target.",
  note="Trusted: the reference rules and the generator's edited-target texts.",
  technique="exhaustive enumeration of placements x all feature sets against reference rules; differential oracle for deviations", ref="DESIGN.md §4 C14")
CHECKS["C15"]=dict(text="9 placements of a must, when or leafref path (direct, grouping used locally / from another module / nested, augment and uses-augment written in the other module, typedef used from the other module, deviation, submodule) x 12 expressions (prefixes that mean different namespaces in the two modules, prefixes known to only one of them, unprefixed names, syntactically invalid forms) are compiled by the real compiler: it must compile iff the expression is valid and every prefix is known where the statement is textually written, the error must name that module, and every Name-Push of the compiled machine must carry the namespace that module's import table gives.",
  note="Trusted: the prefix tables of the generator. Unprefixed names and error location for deviation-added statements are UNSPECIFIED.",
  technique="exhaustive enumeration of (placement x expression) on the real compiler, machine listings inspected", ref="DESIGN.md §4 C15")
CHECKS["C16"]=dict(text="About 110 (quick) / 200 (thorough) types compiled from YANG text by the real compiler x their probe sets (every bound and bound +-1,2 units in canonical, '+', zero-padded and trailing-zero spellings, 17-20 digit values, lexical near misses; every string of 0-4 characters over a 6-character alphabet with multi-byte characters for string types) are given to Type.Validate; membership is decided exactly with math/big and rune counts; on rejection the path and the custom error-message/app-tag are checked.",
  note="Trusted: ref/yangval. '-0' for unsigned types and foreign-module identity spellings are UNSPECIFIED.",
  technique="bounded exhaustive enumeration of (type x string) against an exact value-space model", ref="DESIGN.md §4 C16")
CHECKS["C17"]=dict(text="6 compiled schemas x every token path of <= 5 (quick) / <= 7 (thorough) tokens over all node names, valid and invalid values, a foreign name and the empty string x AllowIncompletePaths false/true are given to ModelSet.Validate and to a reference walker over the generator's own schema description; verdicts must agree and a rejection must mention the first offending element.",
  note="Trusted: the reference walker. Dead-prefix pruning only beyond 4/5 tokens (counted in the evidence).",
  technique="bounded exhaustive enumeration of (schema x token path) against a reference walker", ref="DESIGN.md §4 C17")
CHECKS["C18"]=dict(text="9 schemas (nested non-presence/presence containers, mandatory leaves, defaults, lists with min/max and unique over direct and descendant leaves, leaf-lists, mandatory and default-case choices, choice in case) x every data tree up to 7 (quick) / 9 (thorough) nodes: schema.ValidateSchema's verdict and number of complaints are compared with a reference that enumerates every missing mandatory node, cardinality and unique violation; the walk of schema.AddDefaults is compared with the reference decoration, must leave explicit data unchanged and be idempotent.",
  note="Trusted: the reference (harness/c18/model.go). Schemas have no must/when/leafref (schema-side XPath contexts are outside every harness). Data with nodes of two cases of one choice is UNSPECIFIED.",
  technique="bounded exhaustive enumeration of (schema x data tree) against a reference model", ref="DESIGN.md §4 C18")
CHECKS["C19"]=dict(text="Every data tree of up to 2 (quick) / 3 (thorough) slots over a two-module schema with all leaf types incl. 64-bit extremes, decimal64, empty, identityref of another module, union, user- and system-ordered lists and leaf-lists is encoded by the real RFC 7951, JSON and XML writers and decoded by the real readers: trees must be equal (order kept for ordered-by user) under every map order of the JSON reader; every byte prefix and every single-token deletion, duplication and replacement of those encodings and every token string up to the bound is decoded under a step horizon: no panic, and on success every leaf value is accepted by its type and no literal the type rejects was altered into an accepted value.",
  note="Trusted: canonical tree comparison, encoding/json (UseNumber) as reference literal extractor. Map iteration inside encoding/json and rfc7951 is not owned.",
  technique="bounded exhaustive enumeration of (tree x encoding) round trips and of mutated decoder inputs; owned map order for the JSON reader", ref="DESIGN.md §4 C19", engine="E2")
CHECKS["C20"]=dict(text="Every config placement (3 values x 4 positions) on 4 skeletons, 14 fixed sets (opd nodes, key-only-config lists, state-only default cases, groupings, augments, rpcs) and in the thorough tier pairs of skeletons are compiled without a filter and with each of 21 filters (nil, IsConfig, IsState, IsOpd, IsConfigOrState, Include/Exclude of every subset, IncludeState); the filtered dump must equal the unfiltered dump pruned top-down by a re-implementation of the predicates on the dump's own fields, and a filter must never turn a compilable set into an error.",
  note="Trusted: the pruning reference and the canonical dump (defchildren/hasdefault are derived fields and excluded).",
  technique="bounded exhaustive enumeration of module sets x all filter combinations with a differential (prune-the-unfiltered) oracle", ref="DESIGN.md §4 C20")
NOT_YET = {}

# additions made after the seeding rounds (see DESIGN.md 9.7/9.8)
ADD = json.load(open(os.path.join(os.path.dirname(os.path.abspath(__file__)), "check_additions.json")))
for k, v in ADD.items():
    CHECKS[k]["text"] += v
props=[json.loads(l) for l in open('/verif/properties.jsonl')]
checks=[]; na=[]
for p in props:
    i=p['id']
    if i in CHECKS:
        c=CHECKS[i]
        checks.append({
          "property_id": i,
          "quick_cmd": f"./run {i} quick",
          "thorough_cmd": f"./run {i} thorough",
          "evidence_file": f"/verif/evidence/{i}.json",
          "replay_cmd_template": f"./run {i} replay {{path}}",
          "engine": c.get("engine","E1"),
          "level_claimed": {"category":"model_checking","text":c["text"],"design_ref":c["ref"]},
          "level_note": c["note"],
          "technique": c["technique"],
        })
    else:
        na.append({"property_id": i, "reason": NOT_YET.get(i,"check not built yet in this session (planned: bounded exhaustive enumeration, see DESIGN.md §4); not claimed until it exists")})
m={
 "version":1,
 "setup_cmd":"./setup.sh",
 "hooks":{"guard":"verif-overlay (go build -overlay; no file in /repo carries hooks)",
          "enable":"./run builds /repo's current working tree through tools/vinstr (AST rewriter) and `go build -overlay`: ticks, owned map order, scheduler hooks and the goyacc-generated leafref.go exist only in a temp dir",
          "baseline_off_cmd":"./baseline_off.sh",
          "source_commits":[],
          "add_only":True},
 "engines":[
   {"name":"E1","path":"mc/engine","serves_properties":sorted(CHECKS),"kind_free_text":"prefix-tree enumerator with 16 worker processes, crash attribution, known-findings matching"},
   {"name":"E2","path":"rt/rt.go (RangeMap/SetChooser), mc/engine/deviations.go","serves_properties":["C05","C11","C19"],"kind_free_text":"deviation-bounded explorer over owned map-iteration orders and injected faults"},
   {"name":"E3","path":"rt/rt.go (Sched), mc/engine/sched.go","serves_properties":["C06","C07"],"kind_free_text":"cooperative scheduler, preemption-bounded stateless DFS, vector-clock race detection"},
 ],
 "checks":checks,
 "not_applicable":na,
 "notes":"fix: commits in /repo are listed as fixed: entries in known_findings.jsonl together with the open known findings.",
}
json.dump(m,open('/verif/MANIFEST.json','w'),indent=1)
print(len(checks),"checks,",len(na),"not applicable")
