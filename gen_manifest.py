#!/usr/bin/env python3
"""Generates MANIFEST.json from the table below (kept in one place so that it is always valid)."""
import json, subprocess
CHECKS = {
 "C07": dict(text="Every text of <=5 (quick) / <=6-7 (thorough) symbols over a 15-symbol alphabet and every byte prefix and single-byte deletion of a corpus is parsed by the real parse.Parse under a cooperative scheduler and a step horizon: termination, no panic, error xor tree, position inside the input, and no goroutine left blocked or runnable are checked on every one of them.",
             note="Trusted: the instrumenter's rewrite of go/send/recv/close, the channel model of verifrt (follows cap(ch)), the step horizon as termination oracle. Inputs outside the alphabet/bound are not covered.",
             technique="bounded exhaustive input enumeration on the real parser under a controlled scheduler (explicit-state, stateless)", ref="DESIGN.md §4 C07"),
}
NOT_YET = {}
props=[json.loads(l) for l in open('/verif/properties.jsonl')]
checks=[]; na=[]
for p in props:
    i=p['id']
    if i in CHECKS:
        c=CHECKS[i]
        checks.append({
          "property_id": i,
          "quick_cmd": f"./run {i} quick",
          "thorough_cmd": f"./run {i} thorough",
          "evidence_file": f"/verif/evidence/{i}.json",
          "replay_cmd_template": f"./run {i} replay {{path}}",
          "engine": c.get("engine","E1"),
          "level_claimed": {"category":"model_checking","text":c["text"],"design_ref":c["ref"]},
          "level_note": c["note"],
          "technique": c["technique"],
        })
    else:
        na.append({"property_id": i, "reason": NOT_YET.get(i,"check not built yet in this session (planned: bounded exhaustive enumeration, see DESIGN.md §4); not claimed until it exists")})
m={
 "version":1,
 "setup_cmd":"./setup.sh",
 "hooks":{"guard":"verif-overlay (go build -overlay; no file in /repo carries hooks)",
          "enable":"./run builds /repo's current working tree through tools/vinstr (AST rewriter) and `go build -overlay`: ticks, owned map order, scheduler hooks and the goyacc-generated leafref.go exist only in a temp dir",
          "baseline_off_cmd":"./baseline_off.sh",
          "source_commits":[],
          "add_only":True},
 "engines":[
   {"name":"E1","path":"mc/engine","serves_properties":sorted(CHECKS),"kind_free_text":"prefix-tree enumerator with 16 worker processes, crash attribution, known-findings matching"},
   {"name":"E2","path":"rt/rt.go (RangeMap/SetChooser)","serves_properties":[],"kind_free_text":"deviation-bounded explorer over owned map-iteration orders and injected faults"},
   {"name":"E3","path":"rt/rt.go (Sched)","serves_properties":["C07"],"kind_free_text":"cooperative scheduler, preemption-bounded stateless DFS, vector-clock race detection"},
 ],
 "checks":checks,
 "not_applicable":na,
 "notes":"fix: commits in /repo: 48099e3 (lexString hang), 95a4bd8 (lexer goroutine leak). Known findings: known_findings.jsonl.",
}
json.dump(m,open('/verif/MANIFEST.json','w'),indent=1)
print(len(checks),"checks,",len(na),"not applicable")
