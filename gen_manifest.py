#!/usr/bin/env python3
"""Generates MANIFEST.json from the table below (kept in one place so that it is always valid)."""
import json, subprocess
CHECKS = {
 "C07": dict(text="Every text of <=5 (quick) / <=6-7 (thorough) symbols over a 15-symbol alphabet and every byte prefix and single-byte deletion of a corpus is parsed by the real parse.Parse under a cooperative scheduler and a step horizon: termination, no panic, error xor tree, position inside the input, and no goroutine left blocked or runnable are checked on every one of them.",
             note="Trusted: the instrumenter's rewrite of go/send/recv/close, the channel model of verifrt (follows cap(ch)), the step horizon as termination oracle. Inputs outside the alphabet/bound are not covered.",
             technique="bounded exhaustive input enumeration on the real parser under a controlled scheduler (explicit-state, stateless)", ref="DESIGN.md §4 C07"),
}
CHECKS["C01"]=dict(text="Every expression tree up to depth 2 (quick) / 3 (thorough) over the full operator and scalar-function table and a leaf alphabet that contains every special value class (NaN, +-Inf, -0, >=1e21, <1e-6, >2^53, empty/blank/non-ASCII/number-like strings, absent nodes, leaf-lists) is compiled and run by the real engine on a typed mock data tree and compared, native type and all three result accessors, with an XPath 1.0 reference evaluator written from the REC. Inner operands are class representatives on which the implementation is already known to agree, so each disagreement is attributed to the outermost application.",
  note="Trusted: the reference evaluator (ref/xp10), the value-class quotient used above depth 1, the mock data tree's typing of leaf values. Values outside the leaf alphabet are not covered.",
  technique="bounded exhaustive enumeration of expression trees against a reference model (explicit-state, level-by-level with class-representative quotient)", ref="DESIGN.md §4 C01")
CHECKS["C04"]=dict(text="Every token sequence up to the bound over a 61-token (expr) / 19-token (leafref) alphabet in two renderings, and every single-token mutation of a corpus and of all bounded path-arg derivations, is given to the real compilers and to a three-valued reference (XPath 1.0 tokenizer/parser + core-subset classifier; RFC 6020 path-arg recogniser); accept/reject verdicts must agree wherever the reference is not UNSPECIFIED.",
  note="Trusted: the reference recognisers; UNSPECIFIED region (valid XPath 1.0 outside the core subset) is skipped and counted. Prefix map knows only 'p'.",
  technique="bounded exhaustive enumeration of token sequences against reference recognisers", ref="DESIGN.md §4 C04")
CHECKS["C05"]=dict(text="Every byte string up to length 4 (quick) / 5-6 (thorough) over a 25-byte alphabet and every prefix / single-byte substitution of a corpus is given to all three machine constructors under a step horizon; every machine obtained is run; for every corpus expression every position (and pair of positions) at which a data-tree callback can fail is enumerated with unique injected errors. Checked: termination, no panic, machine xor error, error quotes the expression with a marker inside it, value xor error, the first injected error is the one reported by GetError and every accessor.",
  note="Trusted: step horizon as termination oracle; the mock xpath.Entry. Schema-side NewCtxFromMach contexts are not driven.",
  technique="bounded exhaustive input enumeration + exhaustive fault-position enumeration on the real code", ref="DESIGN.md §4 C05")
CHECKS["C02"]=dict(text="Every location path of the bounded grammar (4-8 root kinds incl. current()/deref(), <=2-3 steps, <=1-2 predicates per step in both orders, 7 operand kinds, prefixed steps and keys) in 5 embeddings and at 4 context nodes is compiled and run by the real engine on a recording virtual data tree; a reference designator computed from the XPath AST gives the expected sequence of data-tree requests (root flag, designated node incl. keys, FollowLeafRef sources, GetValue targets) and the expected value, all of which must match.",
  note="Trusted: the reference designator and the virtual tree (identity = normalised absolute path; leafref target of X is /d+X). Root flag is not compared for deref()-rooted paths and '..'-rooted predicate operands.",
  technique="bounded exhaustive enumeration of path ASTs on the real engine against a reference designator (recording mock)", ref="DESIGN.md §4 C02")
CHECKS["C03"]=dict(text="Every operator chain of 3 (6 operand kinds), 4 and 5 (numeric) operands over all 13 binary operators with every unary-minus placement, also nested in function arguments, is compared with its fully parenthesised form produced by a reference XPath 1.0 parser: same PrintMachine() listing, same result, result equal to the reference value. Every whitespace variant (removed / blank / tab+newline / CR at each token boundary, all at once, pairs in thorough) of all 3-chains and of path/function expressions must compile to the same program and result wherever the reference tokenizer sees the same tokens.",
  note="Trusted: the reference parser and tokenizer (ref/xp10); PrintMachine() as program identity.",
  technique="bounded exhaustive enumeration of operator chains and whitespace placements, differential against the parenthesised form plus reference value", ref="DESIGN.md §4 C03")
CHECKS["C06"]=dict(text="All schedules within preemption bound 2 (quick) / 3 (thorough) of every 3-thread scenario built from 10 thread programs (compile / run a shared machine / run with a failing tree) are executed on the real code under a cooperative scheduler whose visible operations are the mutex operations and every access to a mutable package-level variable (found by the instrumenter); shared-machine scenarios are additionally explored at tick (instruction) granularity. Per execution: every thread's observations equal its isolated run, no vector-clock race, no deadlock, no panic. All operation histories up to length 4/5 are executed without resets and every machine must keep its isolated result and listing.",
  note="Trusted: the instrumenter's notion of mutable package variable, sequentially consistent hand-offs. Heap-level races are only seen through results at tick granularity or by the free-running -race pass of the thorough tier (supporting evidence).",
  technique="stateless preemption-bounded schedule exploration (controlled scheduler, vector clocks) + exhaustive operation-history enumeration", ref="DESIGN.md §4 C06", engine="E3")
CHECKS["C08"]=dict(text="Every combination of content piece, quoting form (unquoted, single, double, '+' concatenations of up to 3 pieces with comments and line breaks between them) and layout (6 statement indents, 3 keywords, 11 continuation indents around the quote column incl. tabs, 4 trailing-blank patterns, LF/CRLF, blank and empty last lines, the same text occurring earlier in the file) is parsed by the real parser and the reported argument compared with a decoder written from RFC 6020 6.1.3 applied to the generator's own structure.",
  note="Trusted: the reference decoder (ref/yangstr). Cases RFC 6020 leaves open (tab straddling the quote column, escapes adjacent to stripped white space, other backslash sequences) are not generated.",
  technique="bounded exhaustive enumeration of (content x quoting x layout) against a reference decoder", ref="DESIGN.md §4 C08")
CHECKS["C09"]=dict(text="All (parent, child, count 0/1/2) triples over every RFC 6020 keyword plus a prefixed extension and an unknown word, all permutations and subsets of module/submodule sections, all pairs/triples of revision dates, and per argument kind an alphabet of valid, boundary and near-miss strings are parsed by the real parser; the verdict must equal the RFC 6020 section 7 substatement tables and section 12 ABNF recognisers transcribed in ref/rfc6020, and every rejection must carry name:line:col and name the offending statement.",
  note="Trusted: the transcribed tables and recognisers. refine/deviate parents, uses->refine/augment x2, list->key x0, semantic date/range validity, nested keys and edge white space are UNSPECIFIED.",
  technique="exhaustive enumeration of table cells, section orders and argument alphabets against transcribed RFC tables", ref="DESIGN.md §4 C09")
CHECKS["C10"]=dict(text="Statement trees from a 10-item menu (<=2-3 body statements, containers nested to depth 3) are rendered from token lists with the generator recording keyword, decoded argument, nesting and keyword line/column; every token boundary x 8 trivia variants (nothing, blank, tab, LF, CRLF, block comment, line comment, blank lines), leading/trailing trivia and every re-quoting of every argument (unquoted, single, double, '+' split at every position) is parsed and the walk of the returned tree must equal the expectation exactly, positions included.",
  note="Trusted: the generator's position bookkeeping. The shorthand-case expansion the parser performs (RFC 6020 7.9.2) is part of the expected tree.",
  technique="bounded exhaustive enumeration of trivia placements and quotings, exact tree comparison", ref="DESIGN.md §4 C10")
NOT_YET = {}
props=[json.loads(l) for l in open('/verif/properties.jsonl')]
checks=[]; na=[]
for p in props:
    i=p['id']
    if i in CHECKS:
        c=CHECKS[i]
        checks.append({
          "property_id": i,
          "quick_cmd": f"./run {i} quick",
          "thorough_cmd": f"./run {i} thorough",
          "evidence_file": f"/verif/evidence/{i}.json",
          "replay_cmd_template": f"./run {i} replay {{path}}",
          "engine": c.get("engine","E1"),
          "level_claimed": {"category":"model_checking","text":c["text"],"design_ref":c["ref"]},
          "level_note": c["note"],
          "technique": c["technique"],
        })
    else:
        na.append({"property_id": i, "reason": NOT_YET.get(i,"check not built yet in this session (planned: bounded exhaustive enumeration, see DESIGN.md §4); not claimed until it exists")})
m={
 "version":1,
 "setup_cmd":"./setup.sh",
 "hooks":{"guard":"verif-overlay (go build -overlay; no file in /repo carries hooks)",
          "enable":"./run builds /repo's current working tree through tools/vinstr (AST rewriter) and `go build -overlay`: ticks, owned map order, scheduler hooks and the goyacc-generated leafref.go exist only in a temp dir",
          "baseline_off_cmd":"./baseline_off.sh",
          "source_commits":[],
          "add_only":True},
 "engines":[
   {"name":"E1","path":"mc/engine","serves_properties":sorted(CHECKS),"kind_free_text":"prefix-tree enumerator with 16 worker processes, crash attribution, known-findings matching"},
   {"name":"E2","path":"rt/rt.go (RangeMap/SetChooser)","serves_properties":[],"kind_free_text":"deviation-bounded explorer over owned map-iteration orders and injected faults"},
   {"name":"E3","path":"rt/rt.go (Sched)","serves_properties":["C07"],"kind_free_text":"cooperative scheduler, preemption-bounded stateless DFS, vector-clock race detection"},
 ],
 "checks":checks,
 "not_applicable":na,
 "notes":"fix: commits in /repo are listed as fixed: entries in known_findings.jsonl together with the open known findings.",
}
json.dump(m,open('/verif/MANIFEST.json','w'),indent=1)
print(len(checks),"checks,",len(na),"not applicable")
