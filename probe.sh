#!/bin/bash
# development aid: ./probe.sh 'a=module a {...}' ['b=...']
cd "$(dirname "$0")"; . ./env.sh
W=$(mktemp -d); trap 'rm -rf $W' EXIT
bin/vinstr -repo "$REPO" -out "$W" -rt "$VERIF_DIR/rt" -goyacc "$VERIF_DIR/bin/goyacc" >/dev/null 2>&1
(cd mc && go build -overlay "$W/overlay.json" -o "$W/probe" ./cmd/probe) && "$W/probe" "$@"
