#!/bin/bash
# Runs the repository's own test suite on /repo exactly as it is (no overlay, no hooks)
# and checks that every test listed as stable_pass in /root/.vp/BASELINE.json passes.
cd "$(dirname "$0")"; . ./env.sh
OUT=$(mktemp "${TMPDIR:-/tmp}/verif-baseline.XXXXXX"); trap 'rm -f "$OUT"' EXIT
(cd "${1:-$REPO}" && go test -json -vet=off -count=1 -timeout 25m ./... > "$OUT" 2>/dev/null)
python3 - "$OUT" <<'PY'
import json,sys
passed=set()
for l in open(sys.argv[1]):
    try: e=json.loads(l)
    except: continue
    if e.get('Action')=='pass' and e.get('Test'):
        passed.add(e['Package']+'::'+e['Test'])
try:
    base=json.load(open('/root/.vp/BASELINE.json'))['stable_pass']
except Exception:
    base=[]
missing=[t for t in base if t not in passed]
print(f"baseline: {len(base)-len(missing)}/{len(base)} stable tests pass; {len(passed)} tests passed in total")
for m in missing[:20]: print("MISSING", m)
sys.exit(1 if missing else 0)
PY
