#!/bin/bash
# seedtry.sh <patch.diff> <check> [quick|thorough] : apply a seeded change to /repo, run one check, undo it straight afterwards.
cd "$(dirname "$0")"
P=$(realpath "$1"); C=$2; T=${3:-quick}
[ -z "$(git -C /repo status --porcelain)" ] || { echo "/repo not clean"; exit 3; }
git -C /repo apply "$P" || exit 3
# the evidence file must describe the unchanged tree: keep the current one aside and put it back
E=evidence/$C.json; B=$(mktemp); [ -f $E ] && cp $E $B
trap 'git -C /repo checkout -- . ; git -C /repo clean -fdq; [ -s $B ] && cp $B $E; rm -f $B' EXIT
./run "$C" "$T" 2>&1 | tail -${TAILN:-4}
echo "exit=${PIPESTATUS[0]}"
