#!/bin/bash
# seedconfirm.sh <Cxx> <pkgdir> <tags> <run-pattern>: seedcheck + demo_test.go with and without the change, in a fresh scratch worktree (removed afterwards).
cd "$(dirname "$0")"; . ./env.sh
N=$1; PKG=$2; TAGS=$3; PAT=$4; M=/tmp/wt/$N/MUTATION; W=/tmp/ws/$N
./seedcheck.sh $M/patch.diff $N 2>&1 | grep -v '^PASSED'
cp $M/demo_test.go $W/$PKG/zz_seed_demo_test.go
cd $W
echo "--- demo WITH the change"; go test -tags "$TAGS" -vet=off -count=1 -run "$PAT" ./$PKG/ 2>&1 | tail -${TAILN:-6}
git apply -R $M/patch.diff
echo "--- demo WITHOUT the change"; go test -tags "$TAGS" -vet=off -count=1 -run "$PAT" ./$PKG/ 2>&1 | tail -3
cd /verif; git -C /repo worktree remove --force $W
